//! C07 — Bad-encoding fraud proofs are sound and complete.
use celestia_proto::proof::pb::Proof as RawProof;
use celestia_proto::share::eds::byzantine::pb::{BadEncoding as RawBefp, Share as RawSwp};
use celestia_types::consts::appconsts::AppVersion;
use celestia_types::fraud_proof::{BadEncodingFraudProof, FraudProof};
use celestia_types::nmt::{NamespaceProof, Nmt};
use celestia_types::{DataAvailabilityHeader, ExtendedDataSquare, ExtendedHeader};
use lv_common::Prng;
use lv_common::prelude::*;
use lv_gen::chain;
use lv_gen::square::{SquareSpec, build_square, square_strategy};
use lv_gen::sqx::{Corruption, RawSquare, corrupt, corruption_strategy, panic_site};
use prost::Message;
use tendermint_proto::Protobuf;

#[derive(Clone, Debug, Serialize, Deserialize, PartialEq)]
pub enum Present {
    All,
    /// exactly half, chosen at random
    ExactHalf(u64),
    /// half plus a random surplus
    AtLeastHalf(u64),
    DataHalf,
    ParityHalf,
    /// one fewer than half
    Fewer(u64),
}

#[derive(Clone, Debug, Serialize, Deserialize, PartialEq)]
pub enum ProofAxes {
    Same,
    Orthogonal,
    Mixed(u64),
}

#[derive(Clone, Debug, Serialize, Deserialize, PartialEq)]
pub enum Adv {
    None,
    /// two proven shares exchange slots (each keeps its own proof); region 0: both in the data half,
    /// 1: one in each half, 2: both in the parity half, 3: anywhere
    SwapSlots { a: u16, b: u16, region: u8 },
    /// the proven share of slot a copied into slot b
    DupSlot { a: u16, b: u16 },
    /// all proven shares rotated by `by` slots
    Rotate { by: u16 },
    Reverse,
    /// one slot filled with the proven share of the same slot of another axis index
    SubstituteSlot { slot: u16, other: u16 },
    /// every slot filled from another axis index (all proofs honest for that other axis)
    SubstituteAll { other: u16 },
    /// proof claims another index than the one its shares come from
    ClaimOtherIndex { other: u16 },
    WrongHeight { d: i8 },
    WrongHash,
    /// shares list cut to n entries
    TruncateShares { n: u16 },
    /// one more (absent or duplicated) entry
    ExtendShares { dup: bool },
    IndexOutOfRange { by: u16 },
    /// axis flag flipped, everything else kept
    FlipAxis,
    /// proof-axis flag of one share flipped, proof kept
    FlipProofAxis { slot: u16 },
    AlterShare { slot: u16, pos: u16, bit: u8 },
    /// namespace prefix of the leaf replaced (parity <-> share's own)
    LieNamespace { slot: u16 },
    ShiftProofRange { slot: u16, ds: i8, de: i8 },
    DropSibling { slot: u16, i: u16 },
    SwapSiblings { slot: u16, i: u16, j: u16 },
    /// the share of a slot replaced by the share of another slot, keeping the slot's own proof
    ShareOnly { slot: u16, from: u16 },
}

#[derive(Clone, Debug, Serialize, Deserialize)]
pub struct BefpSpec {
    pub row_axis: bool,
    pub index: u16,
    /// aim at an axis that is really broken (when there is one)
    pub aim: bool,
    pub present: Present,
    pub proof_axes: ProofAxes,
    pub adv: Adv,
}

#[derive(Clone, Debug, Serialize, Deserialize)]
pub struct Case {
    pub square: SquareSpec,
    pub corruptions: Vec<Corruption>,
    pub hseed: u64,
    pub height: u64,
    pub proofs: Vec<BefpSpec>,
}

fn present_strategy() -> impl Strategy<Value = Present> {
    prop_oneof![
        3 => Just(Present::All),
        3 => any::<u64>().prop_map(Present::ExactHalf),
        2 => any::<u64>().prop_map(Present::AtLeastHalf),
        1 => Just(Present::DataHalf),
        1 => Just(Present::ParityHalf),
        1 => any::<u64>().prop_map(Present::Fewer),
    ]
}

fn axes_strategy() -> impl Strategy<Value = ProofAxes> {
    prop_oneof![2 => Just(ProofAxes::Same), 2 => Just(ProofAxes::Orthogonal), 2 => any::<u64>().prop_map(ProofAxes::Mixed)]
}

fn adv_strategy() -> impl Strategy<Value = Adv> {
    let u = any::<u16>;
    prop_oneof![
        8 => (u(), u(), 0u8..4).prop_map(|(a, b, region)| Adv::SwapSlots { a, b, region }),
        3 => (u(), u()).prop_map(|(a, b)| Adv::DupSlot { a, b }),
        2 => u().prop_map(|by| Adv::Rotate { by }),
        1 => Just(Adv::Reverse),
        3 => (u(), u()).prop_map(|(slot, other)| Adv::SubstituteSlot { slot, other }),
        3 => u().prop_map(|other| Adv::SubstituteAll { other }),
        2 => u().prop_map(|other| Adv::ClaimOtherIndex { other }),
        1 => (-2i8..=2).prop_map(|d| Adv::WrongHeight { d }),
        1 => Just(Adv::WrongHash),
        1 => u().prop_map(|n| Adv::TruncateShares { n }),
        1 => any::<bool>().prop_map(|dup| Adv::ExtendShares { dup }),
        1 => u().prop_map(|by| Adv::IndexOutOfRange { by }),
        2 => Just(Adv::FlipAxis),
        2 => u().prop_map(|slot| Adv::FlipProofAxis { slot }),
        2 => (u(), u(), 0u8..8).prop_map(|(slot, pos, bit)| Adv::AlterShare { slot, pos, bit }),
        1 => u().prop_map(|slot| Adv::LieNamespace { slot }),
        2 => (u(), -2i8..=2, -2i8..=2).prop_map(|(slot, ds, de)| Adv::ShiftProofRange { slot, ds, de }),
        1 => (u(), u()).prop_map(|(slot, i)| Adv::DropSibling { slot, i }),
        1 => (u(), u(), u()).prop_map(|(slot, i, j)| Adv::SwapSiblings { slot, i, j }),
        2 => (u(), u()).prop_map(|(slot, from)| Adv::ShareOnly { slot, from }),
    ]
}

fn spec_strategy() -> impl Strategy<Value = BefpSpec> {
    (any::<bool>(), any::<u16>(), any::<bool>(), present_strategy(), axes_strategy(), prop_oneof![2 => Just(Adv::None), 5 => adv_strategy()])
        .prop_map(|(row_axis, index, aim, present, proof_axes, adv)| BefpSpec { row_axis, index, aim, present, proof_axes, adv })
}

fn adv_label(a: &Adv) -> &'static str {
    match a {
        Adv::None => "adv-none",
        Adv::SwapSlots { .. } => "adv-swap-slots",
        Adv::DupSlot { .. } => "adv-dup-slot",
        Adv::Rotate { .. } => "adv-rotate",
        Adv::Reverse => "adv-reverse",
        Adv::SubstituteSlot { .. } => "adv-substitute-slot",
        Adv::SubstituteAll { .. } => "adv-substitute-all",
        Adv::ClaimOtherIndex { .. } => "adv-claim-other-index",
        Adv::WrongHeight { .. } => "adv-wrong-height",
        Adv::WrongHash => "adv-wrong-hash",
        Adv::TruncateShares { .. } => "adv-truncate-shares",
        Adv::ExtendShares { .. } => "adv-extend-shares",
        Adv::IndexOutOfRange { .. } => "adv-index-out-of-range",
        Adv::FlipAxis => "adv-flip-axis",
        Adv::FlipProofAxis { .. } => "adv-flip-proof-axis",
        Adv::AlterShare { .. } => "adv-alter-share",
        Adv::LieNamespace { .. } => "adv-lie-namespace",
        Adv::ShiftProofRange { .. } => "adv-shift-proof-range",
        Adv::DropSibling { .. } => "adv-drop-sibling",
        Adv::SwapSiblings { .. } => "adv-swap-siblings",
        Adv::ShareOnly { .. } => "adv-share-only",
    }
}

struct Env {
    raw: RawSquare,
    eds: ExtendedDataSquare,
    header: ExtendedHeader,
    row_nmts: Vec<Option<Nmt>>,
    col_nmts: Vec<Option<Nmt>>,
    row_cw: Vec<bool>,
    col_cw: Vec<bool>,
}

impl Env {
    fn proof(&mut self, row_tree: bool, tree: usize, leaf: usize) -> RawProof {
        let slot = if row_tree { &mut self.row_nmts[tree] } else { &mut self.col_nmts[tree] };
        if slot.is_none() {
            *slot = Some(if row_tree { self.eds.row_nmt(tree as u16) } else { self.eds.column_nmt(tree as u16) }.expect("axis nmt"));
        }
        let (_, p) = slot.as_mut().unwrap().get_range_with_proof(leaf..leaf + 1);
        RawProof::from(NamespaceProof::from(p))
    }

    /// the share in slot `slot` of axis (row_axis, idx), proven at its own position, by a proof on
    /// the same axis or on the orthogonal one
    fn proven(&mut self, row_axis: bool, idx: usize, slot: usize, orthogonal: bool) -> RawSwp {
        let (r, c) = RawSquare::coord(row_axis, idx, slot);
        let proof_row = row_axis != orthogonal;
        let (tree, leaf) = if proof_row { (r, c) } else { (c, r) };
        let mut data = self.raw.ns_at(r, c).to_vec();
        data.extend_from_slice(self.raw.share(r, c));
        RawSwp { data, proof: Some(self.proof(proof_row, tree, leaf)), proof_axis: if proof_row { 0 } else { 1 } }
    }

    fn codeword(&self, row_axis: bool, idx: usize) -> bool {
        if row_axis { self.row_cw[idx] } else { self.col_cw[idx] }
    }
}

fn choose(n: usize, count: usize, seed: u64) -> Vec<bool> {
    let mut rng = Prng::new(seed);
    let mut pos: Vec<usize> = (0..n).collect();
    for i in 0..count.min(n) {
        let j = i + rng.below((n - i) as u64) as usize;
        pos.swap(i, j);
    }
    let mut p = vec![false; n];
    for &i in &pos[..count.min(n)] {
        p[i] = true;
    }
    p
}

struct Built {
    raw: RawBefp,
    /// every present entry is the share of its own slot with an honest proof, nothing else altered
    pristine: bool,
    present: usize,
}

fn build(env: &mut Env, spec: &BefpSpec, idx: usize) -> Built {
    let w = env.raw.w;
    let k = w / 2;
    let present: Vec<bool> = match &spec.present {
        Present::All => vec![true; w],
        Present::ExactHalf(s) => choose(w, k, *s),
        Present::AtLeastHalf(s) => choose(w, k + (Prng::new(*s ^ 77).below(k as u64 + 1) as usize), *s),
        Present::DataHalf => (0..w).map(|i| i < k).collect(),
        Present::ParityHalf => (0..w).map(|i| i >= k).collect(),
        Present::Fewer(s) => choose(w, k.saturating_sub(1), *s),
    };
    let mut orth_rng = Prng::new(match &spec.proof_axes {
        ProofAxes::Mixed(s) => *s,
        _ => 0,
    });
    let orth: Vec<bool> = (0..w)
        .map(|_| match &spec.proof_axes {
            ProofAxes::Same => false,
            ProofAxes::Orthogonal => true,
            ProofAxes::Mixed(_) => orth_rng.below(2) == 1,
        })
        .collect();
    let mut shares: Vec<RawSwp> = (0..w).map(|i| if present[i] { env.proven(spec.row_axis, idx, i, orth[i]) } else { RawSwp::default() }).collect();
    let mut raw = RawBefp {
        header_hash: env.header.hash().as_bytes().to_vec(),
        height: env.header.height(),
        shares: vec![],
        index: idx as u32,
        axis: if spec.row_axis { 0 } else { 1 },
    };
    let honest = RawBefp { shares: shares.clone(), ..raw.clone() };
    let present_idx: Vec<usize> = (0..w).filter(|&i| present[i]).collect();
    let pick_present = |sel: u16| -> Option<usize> { if present_idx.is_empty() { None } else { Some(present_idx[pick(sel, present_idx.len())]) } };
    let other_idx = |sel: u16| -> usize {
        // another index of the same axis
        let o = pick(sel, w - 1);
        if o >= idx { o + 1 } else { o }
    };
    match &spec.adv {
        Adv::None => {}
        Adv::SwapSlots { a, b, region } => {
            let lo: Vec<usize> = present_idx.iter().copied().filter(|i| *i < k).collect();
            let hi: Vec<usize> = present_idx.iter().copied().filter(|i| *i >= k).collect();
            let (sa, sb): (&[usize], &[usize]) = match region {
                0 => (&lo, &lo),
                1 => (&lo, &hi),
                2 => (&hi, &hi),
                _ => (&present_idx, &present_idx),
            };
            if !sa.is_empty() && !sb.is_empty() {
                let (x, y) = (sa[pick(*a, sa.len())], sb[pick(*b, sb.len())]);
                shares.swap(x, y);
            }
        }
        Adv::DupSlot { a, b } => {
            if let (Some(x), Some(y)) = (pick_present(*a), pick_present(*b)) {
                shares[y] = shares[x].clone();
            }
        }
        Adv::Rotate { by } => {
            let n = present_idx.len();
            if n > 1 {
                let by = 1 + pick(*by, n - 1);
                let vals: Vec<RawSwp> = present_idx.iter().map(|i| shares[*i].clone()).collect();
                for (j, i) in present_idx.iter().enumerate() {
                    shares[*i] = vals[(j + by) % n].clone();
                }
            }
        }
        Adv::Reverse => {
            let vals: Vec<RawSwp> = present_idx.iter().rev().map(|i| shares[*i].clone()).collect();
            for (j, i) in present_idx.iter().enumerate() {
                shares[*i] = vals[j].clone();
            }
        }
        Adv::SubstituteSlot { slot, other } => {
            if let Some(s) = pick_present(*slot) {
                shares[s] = env.proven(spec.row_axis, other_idx(*other), s, orth[s]);
            }
        }
        Adv::SubstituteAll { other } => {
            let o = other_idx(*other);
            for &s in &present_idx {
                shares[s] = env.proven(spec.row_axis, o, s, orth[s]);
            }
        }
        Adv::ClaimOtherIndex { other } => {
            raw.index = other_idx(*other) as u32;
        }
        Adv::WrongHeight { d } => {
            let d = if *d == 0 { 1 } else { *d };
            raw.height = raw.height.wrapping_add(d as i64 as u64).max(1);
        }
        Adv::WrongHash => {
            raw.header_hash[7] ^= 0x10;
        }
        Adv::TruncateShares { n } => {
            shares.truncate(pick(*n, w));
        }
        Adv::ExtendShares { dup } => {
            let extra = if *dup { shares[present_idx.first().copied().unwrap_or(0)].clone() } else { RawSwp::default() };
            shares.push(extra);
        }
        Adv::IndexOutOfRange { by } => {
            raw.index = (w + pick(*by, 3 * w)) as u32;
        }
        Adv::FlipAxis => {
            raw.axis = 1 - raw.axis;
        }
        Adv::FlipProofAxis { slot } => {
            if let Some(s) = pick_present(*slot) {
                shares[s].proof_axis = 1 - shares[s].proof_axis;
            }
        }
        Adv::AlterShare { slot, pos, bit } => {
            if let Some(s) = pick_present(*slot) {
                let n = shares[s].data.len();
                let p = lv_gen::refs::NS + pick(*pos, n - lv_gen::refs::NS);
                shares[s].data[p] ^= 1 << bit;
            }
        }
        Adv::LieNamespace { slot } => {
            if let Some(s) = pick_present(*slot) {
                let ns = lv_gen::refs::NS;
                let own: Vec<u8> = shares[s].data[ns..2 * ns].to_vec();
                let lie = if shares[s].data[..ns] == lv_gen::refs::PARITY_NS { own } else { lv_gen::refs::PARITY_NS.to_vec() };
                // only lies that are themselves well-formed namespaces reach validate
                shares[s].data[..ns].copy_from_slice(&lie);
            }
        }
        Adv::ShiftProofRange { slot, ds, de } => {
            if let Some(s) = pick_present(*slot) {
                let p = shares[s].proof.as_mut().unwrap();
                p.start += *ds as i64;
                p.end += *de as i64;
            }
        }
        Adv::DropSibling { slot, i } => {
            if let Some(s) = pick_present(*slot) {
                let p = shares[s].proof.as_mut().unwrap();
                if !p.nodes.is_empty() {
                    let i = pick(*i, p.nodes.len());
                    p.nodes.remove(i);
                }
            }
        }
        Adv::SwapSiblings { slot, i, j } => {
            if let Some(s) = pick_present(*slot) {
                let p = shares[s].proof.as_mut().unwrap();
                if p.nodes.len() > 1 {
                    let (i, j) = (pick(*i, p.nodes.len()), pick(*j, p.nodes.len()));
                    p.nodes.swap(i, j);
                }
            }
        }
        Adv::ShareOnly { slot, from } => {
            if let Some(s) = pick_present(*slot) {
                let f = pick(*from, w);
                let (r, c) = RawSquare::coord(spec.row_axis, idx, f);
                let mut data = shares[s].data[..lv_gen::refs::NS].to_vec();
                data.extend_from_slice(env.raw.share(r, c));
                shares[s].data = data;
            }
        }
    }
    let present = shares.iter().filter(|s| s.proof.is_some()).count();
    raw.shares = shares;
    let pristine = raw == honest;
    Built { raw, pristine, present }
}

enum Verdict {
    Accepted,
    Rejected(String),
    Panicked(String),
}

fn judge(env: &Env, raw: &RawBefp) -> Verdict {
    let wire = raw.encode_to_vec();
    let r = lv_common::no_panic(|| {
        let befp = <BadEncodingFraudProof as Protobuf<RawBefp>>::decode(&wire[..]).map_err(|e| format!("decode: {e}"))?;
        befp.validate(&env.header).map_err(|e| format!("validate: {e}"))
    });
    match r {
        Ok(Ok(())) => Verdict::Accepted,
        Ok(Err(e)) => Verdict::Rejected(e),
        Err(rec) => Verdict::Panicked(rec),
    }
}

fn run_spec(env: &mut Env, spec: &BefpSpec, case: &Case, honest_square: bool, obs: &mut Obs) -> Result<(), Failure> {
    let w = env.raw.w;
    let k = w / 2;
    // index: aimed at a broken axis when asked and possible
    let broken: Vec<usize> = (0..w).filter(|&i| !env.codeword(spec.row_axis, i)).collect();
    let idx = if spec.aim && !broken.is_empty() { broken[pick(spec.index, broken.len())] } else { pick(spec.index, w) };
    let built = build(env, spec, idx);
    let raw = &built.raw;
    let al = adv_label(&spec.adv);
    let partial = built.present < raw.shares.len();
    let forged = !built.pristine;
    let nontrivial = (honest_square && forged) || (!honest_square && partial);
    obs.eval(nontrivial.then(|| digest_bytes(&raw.encode_to_vec()) ^ case.hseed));
    obs.label(al);
    obs.label(if honest_square { "honest-square" } else { "corrupted-square" });
    if partial {
        obs.label("partial-befp");
    }
    match spec.proof_axes {
        ProofAxes::Same => obs.label("same-axis-proofs"),
        ProofAxes::Orthogonal => obs.label("orthogonal-proofs"),
        ProofAxes::Mixed(_) => obs.label("mixed-axis-proofs"),
    }
    if idx >= k {
        obs.label("parity-axis");
    }
    if let Adv::SwapSlots { region, .. } = &spec.adv {
        if forged {
            obs.label(match region {
                0 => "permute-within-data-half",
                1 => "swap-data-parity",
                2 => "permute-within-parity-half",
                _ => "permute-anywhere",
            });
        }
    }
    // ground truth for the axis the proof finally indicates
    let claimed_axis_row = raw.axis == 0;
    let claimed_idx = raw.index as usize;
    let indicated_broken = (raw.axis == 0 || raw.axis == 1) && claimed_idx < w && !env.codeword(claimed_axis_row, claimed_idx);
    let describe = |v: &str| {
        format!(
            "{v}: EDS width {w}, {} square, BEFP axis {} index {} (shares taken from index {idx}), {} of {} entries present, proofs {:?}, adversarial step {:?}; indicated axis is {}",
            if honest_square { "honestly encoded" } else { "corrupted" },
            if raw.axis == 0 { "Row" } else { "Col" },
            raw.index,
            built.present,
            raw.shares.len(),
            spec.proof_axes,
            spec.adv,
            if indicated_broken { "NOT a codeword" } else { "a codeword (or does not exist)" }
        )
    };
    let complete_case = built.pristine && indicated_broken && built.present >= k;
    if complete_case {
        obs.label("complete-befp-case");
    }
    match judge(env, raw) {
        Verdict::Accepted => {
            obs.label("befp-validated");
            if matches!(spec.adv, Adv::WrongHash) {
                obs.label("validated-with-foreign-header-hash");
                obs.note("validate() does not compare the proof's header_hash with header.hash(); the node looks the header up by that hash, so the binding is the caller's (observation, not asserted)");
            }
            if raw.height != env.header.height() {
                obs.fail("C07:befp-validates-for-other-height", describe("validated against a header of another height"))?;
            }
            if !indicated_broken {
                let sig = if built.pristine { "C07:honest-befp-validates-on-codeword-axis" } else { "C07:forged-befp-validates-on-codeword-axis" };
                obs.fail(sig, describe("fraud proof VALIDATED although the indicated axis of the committed square is correctly encoded"))?;
            }
        }
        Verdict::Rejected(e) => {
            if complete_case {
                obs.fail("C07:complete-befp-rejected", describe(&format!("fraud proof with >= half of the shares of a broken axis, each proven at its own position, was REJECTED ({e})")))?;
            }
        }
        Verdict::Panicked(rec) => {
            let site = format!("panic-site:{}", panic_site(&rec));
            obs.label(&site);
            if complete_case {
                obs.fail("C07:complete-befp-panicked", describe(&format!("validate panicked ({rec}) on a fraud proof with >= half of the shares of a broken axis, each proven at its own position")))?;
            } else {
                obs.label("panicked-instead-of-rejecting");
                obs.sample(&site, json!({"width": w, "axis": raw.axis, "index": raw.index, "present": built.present, "adv": format!("{:?}", spec.adv), "proof_axes": format!("{:?}", spec.proof_axes), "honest_square": honest_square, "panic": rec}));
                obs.note(format!("validate panicked on an adversarial or unnecessary fraud proof (never-panics is owned by C16): {rec}"));
            }
        }
    }
    Ok(())
}

fn check(case: &Case, obs: &mut Obs) -> Result<(), Failure> {
    let app = AppVersion::V3;
    let sq = build_square(&case.square, app);
    let honest_raw = RawSquare::from_eds(&sq.eds);
    let mut raw = honest_raw.clone();
    for c in &case.corruptions {
        corrupt(&mut raw, c);
    }
    let w = raw.w;
    let eds = raw.to_eds(app).map_err(|e| Failure::new("gen", format!("corrupted square rejected by ExtendedDataSquare::new: {e}")))?;
    let dah = DataAvailabilityHeader::from_eds(&eds);
    let row_cw: Vec<bool> = (0..w).map(|i| raw.axis_is_codeword(true, i)).collect();
    let col_cw: Vec<bool> = (0..w).map(|i| raw.axis_is_codeword(false, i)).collect();
    let honest_square = row_cw.iter().chain(&col_cw).all(|b| *b);
    if honest_square != (raw == honest_raw) {
        return Err(Failure::new("gen", "ground truth inconsistent: square changed but every axis is a codeword (or vice versa)"));
    }
    let (set, keys) = chain::build_set(case.hseed, &[(0, 10), (1, 7)]);
    let time = tendermint::Time::from_unix_timestamp(1_700_000_000 + (case.hseed % 1000) as i64, 0).unwrap();
    let header = chain::build_header(case.hseed, "private", case.height.max(1), 3, time, None, &set, &keys, set.hash(), &[], dah, 0);
    let mut env = Env { raw, eds, header, row_nmts: (0..w).map(|_| None).collect(), col_nmts: (0..w).map(|_| None).collect(), row_cw, col_cw };

    // systematic part: every axis/index (sampled above width 8)
    let idxs: Vec<usize> = if w <= 8 { (0..w).collect() } else { vec![0, 1, w / 2 - 1, w / 2, w / 2 + 1, w - 1, pick((case.hseed >> 8) as u16, w), pick((case.hseed >> 24) as u16, w)] };
    for row_axis in [true, false] {
        for &i in &idxs {
            let sel = ((i as u64 * 65536 + 32768) / w as u64) as u16; // pick(sel, w) == i
            debug_assert_eq!(pick(sel, w), i);
            let s = case.hseed ^ (i as u64) << 3 ^ row_axis as u64;
            let sys = [
                (Present::All, ProofAxes::Same, Adv::None),
                (Present::All, ProofAxes::Orthogonal, Adv::None),
                (Present::ExactHalf(s), ProofAxes::Mixed(s), Adv::None),
                (Present::All, ProofAxes::Same, Adv::SwapSlots { a: 0, b: 40000, region: 0 }),
                (Present::All, ProofAxes::Same, Adv::SwapSlots { a: (s >> 5) as u16, b: (s >> 21) as u16, region: 1 }),
                (Present::All, ProofAxes::Orthogonal, Adv::SubstituteAll { other: (s >> 7) as u16 }),
            ];
            for (present, proof_axes, adv) in sys {
                let spec = BefpSpec { row_axis, index: sel, aim: false, present, proof_axes, adv };
                run_spec(&mut env, &spec, case, honest_square, obs)?;
            }
        }
    }
    for spec in &case.proofs {
        run_spec(&mut env, spec, case, honest_square, obs)?;
    }
    Ok(())
}

pub fn run(ctx: &mut Ctx) {
    ctx.assume("committed square = raw shares of a generated EDS, optionally edited after extension and rebuilt with ExtendedDataSquare::new (which does not check the code); DAH = DataAvailabilityHeader::from_eds of that square; header built by lv_gen::chain::build_header over that DAH");
    ctx.assume("ground truth 'axis is a Reed-Solomon codeword' = re-encoding its data half with leopard_codec directly and comparing with its parity half; roots are consistent with the committed shares by construction");
    ctx.assume("honest share proofs are produced by the repo's own Nmt (row_nmt/column_nmt + get_range_with_proof); adversarial BEFPs go through the raw protobuf type and BadEncodingFraudProof::decode");
    ctx.assume("validate() is not required to compare header_hash with the header (the node fetches the header by that hash); only counted");
    ctx.essential(&[
        "honest-square",
        "corrupted-square",
        "permute-within-data-half",
        "swap-data-parity",
        "orthogonal-proofs",
        "mixed-axis-proofs",
        "partial-befp",
        "complete-befp-case",
        "parity-axis",
        "adv-substitute-all",
        "adv-dup-slot",
        "adv-claim-other-index",
        "adv-wrong-height",
        "adv-truncate-shares",
    ]);
    let hi = ctx.tier.pick(4, 5); // EDS width 4..32 quick, ..64 thorough
    let cases = ctx.tier.pick(2000, 10000);
    ctx.proptest(
        "befp",
        "per case: a generated EDS (width 4..32), honest (40%) or with 1-3 post-extension corruptions (edited shares of one axis in the data half / parity half / both, one original share changed with only its row or only its column re-extended, two parity shares exchanged); header over its DAH. BEFPs: systematically for every axis/index (sampled above width 8) all-present same-axis / orthogonal / half-present mixed proofs, adjacent swap in the data half, data<->parity swap, all shares substituted from another index with orthogonal proofs; plus 30-50 generated (axis, index, present subset, proof-axis mix, adversarial step: slot swaps by region, duplicate, rotate, reverse, substitute one/all shares from another index, claim another index, wrong height/hash, wrong length, index out of range, axis / proof-axis flag flips, altered share, namespace lie, shifted range, sibling edits, share-only swap). Oracle: validate Ok => same height and the indicated axis of the committed square is not a codeword; pristine proof (>= half of a broken axis, each share proven at its own position) => Ok, no panic. Non-trivial = forged BEFP on an honest square, or partial BEFP on a corrupted one (distinct by encoded proof)",
        cases,
        move || {
            (
                square_strategy(1, hi),
                prop_oneof![2 => Just(vec![]), 3 => prop::collection::vec(corruption_strategy(), 1..4)],
                any::<u64>(),
                prop_oneof![Just(1u64), 2u64..100000],
                prop::collection::vec(spec_strategy(), 30..50),
            )
                .prop_map(|(square, corruptions, hseed, height, proofs)| Case { square, corruptions, hseed, height, proofs })
        },
        check,
    );
}
