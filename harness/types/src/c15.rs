//! C15 — Shwap identifiers and CIDs are bijective over valid ids (celestia-types part).
//!
//! Five id types: EdsId (8 bytes), RowId (10), SampleId (12), NamespaceDataId (37), RowNamespaceDataId (39);
//! RowId, SampleId and RowNamespaceDataId also have CID forms (codec / multihash code pairs 0x7800/0x7801,
//! 0x7810/0x7811, 0x7820/0x7821).
//!
//! Oracle:
//!  * valid id (height >= 1): decode(encode(id)) == id, accessors return the constructor's arguments, the
//!    encoding is the Shwap layout (big-endian height || row || column|namespace — written in the harness) and
//!    `Id::try_from(Cid::from(id)) == id`, also after a trip through the CID's binary form;
//!  * corrupted encoding: decode is Err, or yields an id whose re-encoding is exactly the corrupted bytes
//!    (landing on another valid id is legal, silent normalisation is not);
//!  * wrong length, zero height, invalid namespace, wrong codec, wrong multihash code, wrong multihash length: Err.
use bytes::BytesMut;
use celestia_types::eds::EdsId;
use celestia_types::namespace_data::NamespaceDataId;
use celestia_types::nmt::Namespace;
use celestia_types::row::RowId;
use celestia_types::row_namespace_data::RowNamespaceDataId;
use celestia_types::sample::SampleId;
use cid::CidGeneric;
use lv_common::prelude::*;
use multihash::Multihash;

use crate::c14::{NsSpec, ns_spec_strategy, ref_from_raw};

type Cid = CidGeneric<64>;

#[derive(Clone, Copy, Debug, PartialEq, Eq, Serialize, Deserialize)]
pub enum Ty {
    Eds,
    Row,
    Sample,
    NsData,
    RowNsData,
}

const ALL: [Ty; 5] = [Ty::Eds, Ty::Row, Ty::Sample, Ty::NsData, Ty::RowNsData];

impl Ty {
    fn name(self) -> &'static str {
        match self {
            Ty::Eds => "eds",
            Ty::Row => "row",
            Ty::Sample => "sample",
            Ty::NsData => "nsdata",
            Ty::RowNsData => "rownsdata",
        }
    }
    fn size(self) -> usize {
        match self {
            Ty::Eds => 8,
            Ty::Row => 10,
            Ty::Sample => 12,
            Ty::NsData => 37,
            Ty::RowNsData => 39,
        }
    }
    /// (cid codec, multihash code) from the Shwap specification
    fn codec(self) -> Option<(u64, u64)> {
        match self {
            Ty::Row => Some((0x7800, 0x7801)),
            Ty::Sample => Some((0x7810, 0x7811)),
            Ty::RowNsData => Some((0x7820, 0x7821)),
            _ => None,
        }
    }
    /// offset of the namespace inside the encoding
    fn ns_at(self) -> Option<usize> {
        match self {
            Ty::NsData => Some(8),
            Ty::RowNsData => Some(10),
            _ => None,
        }
    }
}

#[derive(Clone, Debug, PartialEq)]
struct Fields {
    height: u64,
    row: u16,
    col: u16,
    ns: [u8; 29],
}

/// Shwap layout, written independently of the code under test
fn ref_encode(ty: Ty, f: &Fields) -> Vec<u8> {
    let mut v = f.height.to_be_bytes().to_vec();
    match ty {
        Ty::Eds => {}
        Ty::Row => v.extend_from_slice(&f.row.to_be_bytes()),
        Ty::Sample => {
            v.extend_from_slice(&f.row.to_be_bytes());
            v.extend_from_slice(&f.col.to_be_bytes());
        }
        Ty::NsData => v.extend_from_slice(&f.ns),
        Ty::RowNsData => {
            v.extend_from_slice(&f.row.to_be_bytes());
            v.extend_from_slice(&f.ns);
        }
    }
    v
}

/// reference validity of an encoding (from the statement): right length, height >= 1, valid namespace
fn ref_valid(ty: Ty, b: &[u8]) -> bool {
    if b.len() != ty.size() {
        return false;
    }
    if b[..8].iter().all(|x| *x == 0) {
        return false;
    }
    match ty.ns_at() {
        Some(at) => ref_from_raw(&b[at..at + 29]).is_some(),
        None => true,
    }
}

/// type-erased decoded id
#[derive(Debug, Clone, PartialEq)]
enum AnyId {
    Eds(EdsId),
    Row(RowId),
    Sample(SampleId),
    NsData(NamespaceDataId),
    RowNsData(RowNamespaceDataId),
}

impl AnyId {
    fn new(ty: Ty, f: &Fields) -> Result<AnyId, String> {
        let ns = || Namespace::from_raw(&f.ns).map_err(|e| e.to_string());
        Ok(match ty {
            Ty::Eds => AnyId::Eds(EdsId::new(f.height).map_err(|e| e.to_string())?),
            Ty::Row => AnyId::Row(RowId::new(f.row, f.height).map_err(|e| e.to_string())?),
            Ty::Sample => AnyId::Sample(SampleId::new(f.row, f.col, f.height).map_err(|e| e.to_string())?),
            Ty::NsData => AnyId::NsData(NamespaceDataId::new(ns()?, f.height).map_err(|e| e.to_string())?),
            Ty::RowNsData => AnyId::RowNsData(RowNamespaceDataId::new(ns()?, f.row, f.height).map_err(|e| e.to_string())?),
        })
    }
    fn decode(ty: Ty, b: &[u8]) -> Result<AnyId, String> {
        Ok(match ty {
            Ty::Eds => AnyId::Eds(EdsId::decode(b).map_err(|e| e.to_string())?),
            Ty::Row => AnyId::Row(RowId::decode(b).map_err(|e| e.to_string())?),
            Ty::Sample => AnyId::Sample(SampleId::decode(b).map_err(|e| e.to_string())?),
            Ty::NsData => AnyId::NsData(NamespaceDataId::decode(b).map_err(|e| e.to_string())?),
            Ty::RowNsData => AnyId::RowNsData(RowNamespaceDataId::decode(b).map_err(|e| e.to_string())?),
        })
    }
    fn encode(&self) -> Vec<u8> {
        let mut b = BytesMut::new();
        match self {
            AnyId::Eds(i) => i.encode(&mut b),
            AnyId::Row(i) => i.encode(&mut b),
            AnyId::Sample(i) => i.encode(&mut b),
            AnyId::NsData(i) => i.encode(&mut b),
            AnyId::RowNsData(i) => i.encode(&mut b),
        }
        b.to_vec()
    }
    /// what the accessors report, in the harness' field record (unused fields copied from `like`)
    fn fields(&self, like: &Fields) -> Fields {
        let mut f = like.clone();
        match self {
            AnyId::Eds(i) => f.height = i.block_height(),
            AnyId::Row(i) => {
                f.height = i.block_height();
                f.row = i.index();
            }
            AnyId::Sample(i) => {
                f.height = i.block_height();
                f.row = i.row_index();
                f.col = i.column_index();
            }
            AnyId::NsData(i) => {
                f.height = i.block_height();
                f.ns = i.namespace().as_bytes().try_into().unwrap();
            }
            AnyId::RowNsData(i) => {
                f.height = i.block_height();
                f.row = i.row_index();
                f.ns = i.namespace().as_bytes().try_into().unwrap();
            }
        }
        f
    }
    fn to_cid(&self) -> Option<Cid> {
        fn widen<const S: usize>(c: CidGeneric<S>) -> Cid {
            Cid::new_v1(c.codec(), Multihash::<64>::wrap(c.hash().code(), c.hash().digest()).unwrap())
        }
        match self {
            AnyId::Row(i) => Some(widen(CidGeneric::from(*i))),
            AnyId::Sample(i) => Some(widen(CidGeneric::from(*i))),
            AnyId::RowNsData(i) => Some(widen(CidGeneric::from(*i))),
            _ => None,
        }
    }
    fn from_cid(ty: Ty, c: &Cid) -> Option<Result<AnyId, String>> {
        match ty {
            Ty::Row => Some(RowId::try_from(*c).map(AnyId::Row).map_err(|e| e.to_string())),
            Ty::Sample => {
                // the by-reference, by-mut-reference and by-value conversions must agree
                let by_ref = SampleId::try_from(c).map_err(|e| e.to_string());
                let mut m = *c;
                let by_mut = SampleId::try_from(&mut m).map_err(|e| e.to_string());
                let by_val = SampleId::try_from(*c).map_err(|e| e.to_string());
                // (a disagreement surfaces as a failure with a panic signature)
                assert!(by_ref == by_mut && by_ref == by_val, "C15: SampleId conversions disagree: &cid {by_ref:?}, &mut cid {by_mut:?}, cid {by_val:?}");
                Some(by_ref.map(AnyId::Sample))
            }
            Ty::RowNsData => Some(RowNamespaceDataId::try_from(*c).map(AnyId::RowNsData).map_err(|e| e.to_string())),
            _ => None,
        }
    }
}

#[derive(Clone, Debug, Serialize, Deserialize)]
pub enum Corr {
    /// byte at (selected) position xor mask (mask != 0)
    Xor { pos: u16, mask: u8 },
    /// byte at position set to value
    Set { pos: u16, val: u8 },
    /// height field replaced
    Height(u64),
    /// namespace version byte replaced
    NsVersion(u8),
    /// one byte of the namespace's mandatory prefix replaced
    NsPrefix { pos: u16, val: u8 },
    /// namespace replaced by 29 arbitrary bytes
    NsRandom([u8; 29]),
    /// truncate by n bytes / append bytes
    Truncate(u8),
    Append(Vec<u8>),
}

#[derive(Clone, Debug, Serialize, Deserialize)]
pub enum CidCorr {
    Codec(u64),
    /// the codec of another id type
    CodecOf(Ty),
    MhCode(u64),
    MhCodeOf(Ty),
    /// codec and multihash code both of another type (a fully valid CID of the wrong kind)
    BothOf(Ty),
    /// digest truncated / extended (multihash length changes, codes stay right)
    DigestTruncate(u8),
    DigestAppend(Vec<u8>),
    /// codec and multihash code swapped
    SwapCodes,
    /// a CIDv0 (dag-pb / sha2-256) holding the id bytes padded to 32
    V0,
}

#[derive(Clone, Debug, Serialize, Deserialize)]
pub struct Case {
    pub height: u64,
    pub row: u16,
    pub col: u16,
    pub ns: NsSpec,
    pub corrs: Vec<Corr>,
    pub cid_corrs: Vec<CidCorr>,
}

fn height_strategy() -> impl Strategy<Value = u64> {
    prop_oneof![
        2 => Just(1u64),
        1 => Just(2u64),
        1 => Just(255u64),
        1 => Just(256u64),
        1 => Just(1u64 << 32),
        1 => Just((1u64 << 32) - 1),
        1 => Just(1u64 << 63),
        1 => Just((1u64 << 63) - 1),
        1 => Just(u64::MAX),
        1 => Just(1u64 << 56),
        3 => 1u64..100_000,
        4 => 1u64..=u64::MAX,
    ]
}

fn idx_strategy() -> impl Strategy<Value = u16> {
    prop_oneof![
        2 => Just(0u16), 1 => Just(1u16), 1 => Just(255u16), 1 => Just(256u16), 1 => Just(1u16 << 15), 1 => Just(65535u16),
        2 => 0u16..512, 3 => any::<u16>(),
    ]
}

fn corr_strategy() -> impl Strategy<Value = Corr> {
    prop_oneof![
        4 => (any::<u16>(), prop_oneof![Just(1u8), Just(0x80u8), 1u8..=255]).prop_map(|(pos, mask)| Corr::Xor { pos, mask }),
        2 => (any::<u16>(), prop_oneof![Just(0u8), Just(0xffu8), any::<u8>()]).prop_map(|(pos, val)| Corr::Set { pos, val }),
        2 => prop_oneof![3 => Just(0u64), 1 => any::<u64>()].prop_map(Corr::Height),
        2 => prop_oneof![Just(1u8), Just(254u8), Just(0u8), Just(255u8), any::<u8>()].prop_map(Corr::NsVersion),
        2 => (any::<u16>(), any::<u8>()).prop_map(|(pos, val)| Corr::NsPrefix { pos, val }),
        1 => any::<[u8; 29]>().prop_map(Corr::NsRandom),
        2 => (1u8..12).prop_map(Corr::Truncate),
        2 => prop::collection::vec(any::<u8>(), 1..4).prop_map(Corr::Append),
    ]
}

fn ty_strategy() -> impl Strategy<Value = Ty> {
    prop_oneof![Just(Ty::Row), Just(Ty::Sample), Just(Ty::RowNsData)]
}

fn cid_corr_strategy() -> impl Strategy<Value = CidCorr> {
    prop_oneof![
        2 => prop_oneof![Just(0x55u64), Just(0x70u64), Just(0x71u64), Just(0x7701u64), Just(0u64), any::<u64>(), 0x7800u64..0x7830].prop_map(CidCorr::Codec),
        2 => ty_strategy().prop_map(CidCorr::CodecOf),
        2 => prop_oneof![Just(0x12u64), Just(0x00u64), Just(0x7700u64), any::<u64>(), 0x7800u64..0x7830].prop_map(CidCorr::MhCode),
        2 => ty_strategy().prop_map(CidCorr::MhCodeOf),
        2 => ty_strategy().prop_map(CidCorr::BothOf),
        2 => (1u8..40).prop_map(CidCorr::DigestTruncate),
        2 => prop::collection::vec(any::<u8>(), 1..20).prop_map(CidCorr::DigestAppend),
        1 => Just(CidCorr::SwapCodes),
        1 => Just(CidCorr::V0),
    ]
}

fn case_strategy() -> impl Strategy<Value = Case> {
    (
        height_strategy(),
        idx_strategy(),
        idx_strategy(),
        ns_spec_strategy(),
        prop::collection::vec(corr_strategy(), 4..10),
        prop::collection::vec(cid_corr_strategy(), 3..8),
    )
        .prop_map(|(height, row, col, ns, corrs, cid_corrs)| Case { height, row, col, ns, corrs, cid_corrs })
}

/// decode of a corrupted encoding: Err, or an id that re-encodes to exactly these bytes
fn judge_corrupted(obs: &mut Obs, ty: Ty, honest: &[u8], cor: &[u8], kind: &str) -> Result<(), Failure> {
    if cor == honest {
        obs.label("corruption-was-noop");
        return Ok(());
    }
    obs.eval(Some(digest_bytes(cor) ^ (ty as u64) << 56));
    let valid = ref_valid(ty, cor);
    match AnyId::decode(ty, cor) {
        Err(_) => {
            obs.label(&format!("{kind}-rejected"));
            // completeness over valid ids: a corrupted encoding that is itself a valid id must decode
            if valid {
                obs.fail(
                    "C15:valid-encoding-rejected",
                    format!("{}: {cor:02x?} is a valid encoding (right length, height >= 1, valid namespace) but decode rejected it", ty.name()),
                )?;
            }
        }
        Ok(id) => {
            let re = id.encode();
            obs.check(re == cor, "C15:decode-normalises", || {
                format!("{}: decode of the corrupted bytes {cor:02x?} ({kind}) succeeded but the id re-encodes to {re:02x?}", ty.name())
            })?;
            if !valid {
                let why = if cor.len() != ty.size() {
                    "C15:wrong-length-accepted"
                } else if cor[..8].iter().all(|x| *x == 0) {
                    "C15:zero-height-accepted"
                } else {
                    "C15:invalid-namespace-accepted"
                };
                obs.fail(why, format!("{}: decode accepted {cor:02x?} ({kind}), which is not a valid id encoding", ty.name()))?;
            }
            obs.label("corruption-lands-on-other-valid-id");
        }
    }
    Ok(())
}

fn check_type(obs: &mut Obs, ty: Ty, c: &Case) -> Result<(), Failure> {
    let f = Fields {
        height: c.height,
        row: c.row,
        col: c.col,
        ns: c.ns.bytes(),
    };
    let want = ref_encode(ty, &f);
    // ---- valid id round trips
    let id = AnyId::new(ty, &f).map_err(|e| Failure::new("C15:valid-id-rejected", format!("{}::new({f:?}) failed: {e}", ty.name())))?;
    let bytes = id.encode();
    obs.eval(Some(digest_bytes(&bytes) ^ (ty as u64) << 56));
    obs.label(&format!("roundtrip-{}", ty.name()));
    obs.check(bytes == want, "C15:encoding-layout", || {
        format!("{}: encode({f:?}) = {bytes:02x?}, the Shwap layout (big-endian height||row||col|namespace) is {want:02x?}", ty.name())
    })?;
    obs.check(id.fields(&f) == f, "C15:accessors", || format!("{}: accessors of new({f:?}) report {:?}", ty.name(), id.fields(&f)))?;
    match AnyId::decode(ty, &bytes) {
        Ok(back) => obs.check(back == id && back.fields(&f) == f, "C15:bytes-roundtrip", || format!("{}: decode(encode(id)) = {back:?} != {id:?}", ty.name()))?,
        Err(e) => obs.fail("C15:bytes-roundtrip", format!("{}: decode(encode({id:?})) failed: {e}", ty.name()))?,
    }
    // decode of the independently built encoding
    match AnyId::decode(ty, &want) {
        Ok(back) => obs.check(back == id, "C15:bytes-roundtrip", || format!("{}: decode(reference encoding of {f:?}) = {back:?}", ty.name()))?,
        Err(e) => obs.fail("C15:valid-encoding-rejected", format!("{}: decode of the reference encoding {want:02x?} failed: {e}", ty.name()))?,
    }
    // ---- CID round trip
    let cid = id.to_cid();
    if let Some(cid) = &cid {
        let (codec, code) = ty.codec().unwrap();
        obs.label(&format!("cid-roundtrip-{}", ty.name()));
        obs.check(
            cid.codec() == codec && cid.hash().code() == code && cid.hash().digest() == &bytes[..] && cid.version() == cid::Version::V1,
            "C15:cid-form",
            || format!("{}: CID of {id:?} has codec {:#x} mh code {:#x} digest {:02x?}; expected {codec:#x}/{code:#x} and the id bytes", ty.name(), cid.codec(), cid.hash().code(), cid.hash().digest()),
        )?;
        match AnyId::from_cid(ty, cid).unwrap() {
            Ok(back) => obs.check(back == id, "C15:cid-roundtrip", || format!("{}: Id::try_from(Cid::from(id)) = {back:?} != {id:?}", ty.name()))?,
            Err(e) => obs.fail("C15:cid-roundtrip", format!("{}: Id::try_from(Cid::from({id:?})) failed: {e}", ty.name()))?,
        }
        // through the CID's binary and string forms
        let wire = cid.to_bytes();
        let back = Cid::read_bytes(&wire[..]).map_err(|e| Failure::new("gen", format!("cid bytes do not parse: {e}")))?;
        match AnyId::from_cid(ty, &back).unwrap() {
            Ok(b) => obs.check(b == id, "C15:cid-roundtrip", || format!("{}: id from re-read CID bytes = {b:?}", ty.name()))?,
            Err(e) => obs.fail("C15:cid-roundtrip", format!("{}: id from re-read CID bytes failed: {e}", ty.name()))?,
        }
        // a CID of this type must not convert to the other two id types
        for other in [Ty::Row, Ty::Sample, Ty::RowNsData] {
            if other != ty {
                obs.eval(Some(digest_bytes(&wire) ^ (other as u64) << 48));
                match AnyId::from_cid(other, cid).unwrap() {
                    Err(_) => obs.label("other-types-cid-rejected"),
                    Ok(x) => obs.fail("C15:wrong-codec-accepted", format!("a {} CID converted to the {} id {x:?}", ty.name(), other.name()))?,
                }
            }
        }
    }

    // ---- corrupted encodings
    // systematic: zero height, length +-1, empty, every byte position with one mask
    let mut zero_h = bytes.clone();
    zero_h[..8].fill(0);
    judge_corrupted(obs, ty, &bytes, &zero_h, "zero-height")?;
    judge_corrupted(obs, ty, &bytes, &bytes[..bytes.len() - 1], "length")?;
    judge_corrupted(obs, ty, &bytes, &bytes[1..], "length")?;
    judge_corrupted(obs, ty, &bytes, &[], "length")?;
    let mut longer = bytes.clone();
    longer.push(0);
    judge_corrupted(obs, ty, &bytes, &longer, "length")?;
    // another type's encoding of the same fields
    for other in ALL {
        if other.size() != ty.size() {
            judge_corrupted(obs, ty, &bytes, &ref_encode(other, &f), "length")?;
        }
    }
    for p in 0..bytes.len() {
        let mut cor = bytes.clone();
        cor[p] ^= 1 << (p % 8);
        judge_corrupted(obs, ty, &bytes, &cor, "byte")?;
    }
    for corr in &c.corrs {
        let mut cor = bytes.clone();
        let kind;
        match corr {
            Corr::Xor { pos, mask } => {
                let p = pick(*pos, cor.len());
                cor[p] ^= *mask;
                kind = "byte";
            }
            Corr::Set { pos, val } => {
                let p = pick(*pos, cor.len());
                cor[p] = *val;
                kind = "byte";
            }
            Corr::Height(h) => {
                cor[..8].copy_from_slice(&h.to_be_bytes());
                kind = if *h == 0 { "zero-height" } else { "height" };
            }
            Corr::NsVersion(v) => {
                let Some(at) = ty.ns_at() else { continue };
                cor[at] = *v;
                kind = "namespace";
            }
            Corr::NsPrefix { pos, val } => {
                let Some(at) = ty.ns_at() else { continue };
                let plen = if cor[at] == 0 { 18 } else { 27 };
                cor[at + 1 + pick(*pos, plen)] = *val;
                kind = "namespace";
            }
            Corr::NsRandom(ns) => {
                let Some(at) = ty.ns_at() else { continue };
                cor[at..].copy_from_slice(ns);
                kind = "namespace";
            }
            Corr::Truncate(n) => {
                let n = (*n as usize).min(cor.len());
                cor.truncate(cor.len() - n);
                kind = "length";
            }
            Corr::Append(x) => {
                cor.extend_from_slice(x);
                kind = "length";
            }
        }
        judge_corrupted(obs, ty, &bytes, &cor, kind)?;
        // the same corrupted bytes inside an otherwise well-formed CID
        if let Some((codec, code)) = ty.codec() {
            if cor != bytes {
                if let Ok(mh) = Multihash::<64>::wrap(code, &cor) {
                    let ccid = Cid::new_v1(codec, mh);
                    obs.eval(Some(digest_bytes(&ccid.to_bytes())));
                    match AnyId::from_cid(ty, &ccid).unwrap() {
                        Err(_) => {
                            obs.label("cid-with-corrupted-digest-rejected");
                            obs.check(!ref_valid(ty, &cor), "C15:valid-encoding-rejected", || format!("{}: CID with the valid digest {cor:02x?} rejected", ty.name()))?;
                        }
                        Ok(x) => {
                            obs.check(x.encode() == cor && ref_valid(ty, &cor), "C15:decode-normalises", || {
                                format!("{}: CID with the corrupted digest {cor:02x?} ({kind}) converted to {x:?}, which encodes to {:02x?}", ty.name(), x.encode())
                            })?;
                            obs.label("corruption-lands-on-other-valid-id");
                        }
                    }
                }
            }
        }
    }

    // ---- corrupted CIDs
    if let (Some(cid), Some((codec, code))) = (&cid, ty.codec()) {
        for cc in &c.cid_corrs {
            let mk = |codec: u64, code: u64, digest: &[u8]| Multihash::<64>::wrap(code, digest).ok().map(|mh| Cid::new_v1(codec, mh));
            let (bad, label): (Option<Cid>, &str) = match cc {
                CidCorr::Codec(x) => (if *x != codec { mk(*x, code, &bytes) } else { None }, "bad-codec"),
                CidCorr::CodecOf(t) => (if *t != ty { mk(t.codec().unwrap().0, code, &bytes) } else { None }, "bad-codec"),
                CidCorr::MhCode(x) => (if *x != code { mk(codec, *x, &bytes) } else { None }, "bad-mhcode"),
                CidCorr::MhCodeOf(t) => (if *t != ty { mk(codec, t.codec().unwrap().1, &bytes) } else { None }, "bad-mhcode"),
                CidCorr::BothOf(t) => (if *t != ty { mk(t.codec().unwrap().0, t.codec().unwrap().1, &bytes) } else { None }, "bad-codec"),
                CidCorr::DigestTruncate(n) => {
                    let n = (*n as usize).min(bytes.len());
                    (mk(codec, code, &bytes[..bytes.len() - n]), "bad-mhlen")
                }
                CidCorr::DigestAppend(x) => {
                    let mut d = bytes.clone();
                    d.extend_from_slice(x);
                    (mk(codec, code, &d), "bad-mhlen")
                }
                CidCorr::SwapCodes => (mk(code, codec, &bytes), "bad-codec"),
                CidCorr::V0 => {
                    let mut d = bytes.clone();
                    d.resize(32, 0);
                    (Multihash::<64>::wrap(0x12, &d).ok().and_then(|mh| Cid::new_v0(mh).ok()), "bad-codec")
                }
            };
            let Some(bad) = bad else { continue };
            if bad == *cid {
                continue;
            }
            obs.eval(Some(digest_bytes(&bad.to_bytes()) ^ 0xc1d));
            match AnyId::from_cid(ty, &bad).unwrap() {
                Err(_) => obs.label(&format!("{label}-rejected")),
                Ok(x) => {
                    let sig = match label {
                        "bad-codec" => "C15:wrong-codec-accepted",
                        "bad-mhcode" => "C15:wrong-multihash-code-accepted",
                        _ => "C15:wrong-multihash-length-accepted",
                    };
                    obs.fail(
                        sig,
                        format!("{}: CID with codec {:#x}, multihash code {:#x}, digest length {} ({cc:?}) converted to {x:?}", ty.name(), bad.codec(), bad.hash().code(), bad.hash().size()),
                    )?;
                }
            }
        }
    }
    Ok(())
}

pub fn run(ctx: &mut Ctx) {
    ctx.assume("Shwap layout (big-endian height || row index || column index / namespace) and the codec / multihash-code constants are written in the harness from the Shwap specification (CIP-19)");
    ctx.assume("convert_cid of lumina-node (node/src/p2p/shwap.rs) is covered by the node-side check, not here");
    ctx.assume("a corruption that decodes to a different valid id is legal (DESIGN §7); what is asserted is Err or exact re-encoding");
    let mut ess: Vec<String> = Vec::new();
    for t in ALL {
        ess.push(format!("roundtrip-{}", t.name()));
    }
    for t in [Ty::Row, Ty::Sample, Ty::RowNsData] {
        ess.push(format!("cid-roundtrip-{}", t.name()));
    }
    for l in [
        "byte-rejected",
        "corruption-lands-on-other-valid-id",
        "zero-height-rejected",
        "length-rejected",
        "namespace-rejected",
        "bad-codec-rejected",
        "bad-mhcode-rejected",
        "bad-mhlen-rejected",
        "other-types-cid-rejected",
        "cid-with-corrupted-digest-rejected",
    ] {
        ess.push(l.to_string());
    }
    let ess_ref: Vec<&str> = ess.iter().map(|s| s.as_str()).collect();
    ctx.essential(&ess_ref);

    // zero height through the constructors (the statement quantifies valid ids over height >= 1)
    ctx.enumerate(
        "constructors",
        "every constructor rejects height 0 and accepts height 1 / u64::MAX with boundary indices",
        false,
        vec![0u64, 1, u64::MAX],
        |h, obs| {
            let ns = Namespace::from_raw(&NsSpec::V0Low(0x1234).bytes()).unwrap();
            for (row, col) in [(0u16, 0u16), (65535, 65535), (1 << 15, 1)] {
                let rs = [
                    ("EdsId", EdsId::new(*h).is_ok()),
                    ("RowId", RowId::new(row, *h).is_ok()),
                    ("SampleId", SampleId::new(row, col, *h).is_ok()),
                    ("NamespaceDataId", NamespaceDataId::new(ns, *h).is_ok()),
                    ("RowNamespaceDataId", RowNamespaceDataId::new(ns, row, *h).is_ok()),
                ];
                for (n, ok) in rs {
                    obs.eval(Some(digest_bytes(n.as_bytes()) ^ *h ^ (row as u64) << 20));
                    obs.check(ok == (*h != 0), "C15:zero-height-accepted", || format!("{n}::new(.., height {h}) ok = {ok}"))?;
                }
            }
            Ok(())
        },
    );

    let cases = ctx.tier.pick(40_000, 300_000);
    ctx.proptest(
        "ids",
        "per generated (height in {1,2,2^32,2^63,u64::MAX,..,random}, row/column in {0,1,2^15,65535,..,random}, namespace v0/v255/boundary) and each of the 5 id types: encode/decode/accessor/CID round trips, then corruptions: zeroed height, length -1/+1/0/other type's length, a bit flip at EVERY byte position, generated byte edits, height/namespace-version/namespace-prefix/random-namespace replacements, truncations/appends, each also wrapped in a well-formed CID; CIDs with wrong codec / multihash code / digest length / swapped codes / CIDv0 / other id types' CIDs. Non-trivial = every evaluated (type, bytes) pair (distinct by bytes and type)",
        cases,
        case_strategy,
        |c, obs| {
            for ty in ALL {
                check_type(obs, ty, c)?;
            }
            Ok(())
        },
    );
}
