//! C02 — Header chain verification accepts exactly linked successors.
//!
//! Code under test: `ExtendedHeader::{verify, verify_adjacent, verify_range, verify_adjacent_range}` (and through
//! them `verify_commit_light_trusting` with DEFAULT_TRUST_LEVEL). `VerifiedExtendedHeaders::try_from` lives in
//! lumina-node and is left to lv-node.
//! Oracle: `lv_gen::hdrref::ref_conds` / `ref_range_ok` — every clause of the property sentence decided
//! independently (i128 nanosecond time arithmetic, u128 trusting tally over ed25519-consensus checks).
//! The local clock is pinned per evaluation through the additive `verif_clock` hook, which gives the exact
//! 10-second boundary; a few evaluations per case also run on the real clock with chains years away from it.
use celestia_types::verif_clock;
use celestia_types::{ExtendedHeader, ValidatorSet};
use lv_common::prelude::*;
use lv_gen::chain::{BlockSpec, Chain, ChainSpec, DahKind, TimeBase, VoteKind, build_chain, build_fork, hash_bytes, key_for, seal, sign_slot, val_info};
use lv_gen::hdrref::{RefConds, nanos_of, ref_conds, ref_range_ok, sign_nil_slots_properly, trusting_well_formed};
use tendermint::block::CommitSig;
use tendermint::{Signature, Time};

#[derive(Clone, Debug, Serialize, Deserialize)]
pub enum Rot {
    /// keep exactly the members of the engineered group K (new powers), replace everybody else by new members
    KeepK { powers: Vec<u64>, extra: Vec<u64> },
    /// keep the members selected by the mask (new powers), add new members
    Mask { mask: u8, powers: Vec<u64>, extra: Vec<u64> },
    /// a completely new set
    Disjoint { extra: Vec<u64> },
}

#[derive(Clone, Debug, Serialize, Deserialize)]
pub struct BlockPlan {
    pub dt_ms: u32,
    pub votes: Vec<VoteKind>,
    pub rot: Option<Rot>,
}

#[derive(Clone, Debug, Serialize, Deserialize)]
pub struct ForkPlan {
    pub from: u16,
    pub len: u8,
    pub salt: u8,
    pub foreign: bool,
}

#[derive(Clone, Debug, Serialize, Deserialize)]
pub enum Perturb {
    /// header j re-issued (honestly sealed) under another chain id
    ChainId { j: u16 },
    /// header j re-issued with time = time(header rel) + delta_ns
    Retime { j: u16, rel: u16, delta_ns: i64 },
    /// header j re-issued naming another parent hash
    Parent { j: u16, bit: u16 },
    /// an attacker's header at j's height: its own set is [A (dominant), X1..Xm]; entry 0 is A's valid vote (so
    /// the light rule is satisfied and the header validates), the remaining entries are Commit-flagged, name the
    /// validators of header `victim` and carry signatures that are not valid for this block (garbage, or the
    /// victims' genuine signatures for their own block)
    ForgedTrust { j: u16, victim: u16, replay: bool },
}

#[derive(Clone, Debug, Serialize, Deserialize)]
pub enum RangeOp {
    Honest,
    Remove(u16),
    Dup(u16),
    Swap(u16, u16),
    Reverse,
    /// element k replaced by the s-th special (fork / perturbed) header
    Replace(u16, u16),
    /// s-th special header inserted at k
    Insert(u16, u16),
    Empty,
}

#[derive(Clone, Debug, Serialize, Deserialize)]
pub struct RangePlan {
    pub trusted: u16,
    pub start: u16,
    pub len: u16,
    pub op: RangeOp,
}

#[derive(Clone, Debug, Serialize, Deserialize)]
pub struct Case {
    pub seed: u64,
    pub chain_id: String,
    pub start_height: u64,
    pub app_version: u8,
    /// chain placed ~80 years in the future (every verify on the real clock must then fail the drift check)
    pub future: bool,
    /// powers of group K
    pub keep: Vec<u64>,
    /// group R: |rest|+1 members sharing 2*sum(K)+eps
    pub rest: Vec<u16>,
    pub eps: i8,
    pub blocks: Vec<BlockPlan>,
    pub forks: Vec<ForkPlan>,
    pub perturbs: Vec<Perturb>,
    pub ranges: Vec<RangePlan>,
}

fn small_power() -> impl Strategy<Value = u64> {
    prop_oneof![4 => 1u64..=3, 2 => 1u64..=30, 1 => 1u64..=(1u64 << 40)]
}

fn rot_strategy() -> impl Strategy<Value = Rot> {
    let powers = || prop::collection::vec(small_power(), 8);
    prop_oneof![
        4 => (powers(), prop::collection::vec(small_power(), 1..=3)).prop_map(|(powers, extra)| Rot::KeepK { powers, extra }),
        3 => (any::<u8>(), powers(), prop::collection::vec(small_power(), 0..=3)).prop_map(|(mask, powers, extra)| Rot::Mask { mask, powers, extra }),
        1 => prop::collection::vec(small_power(), 1..=3).prop_map(|extra| Rot::Disjoint { extra }),
    ]
}

fn vote_vec() -> impl Strategy<Value = Vec<VoteKind>> {
    prop_oneof![
        3 => Just(vec![]),
        2 => prop::collection::vec(prop_oneof![6 => Just(VoteKind::Commit), 1 => Just(VoteKind::Nil), 1 => Just(VoteKind::Absent)], 0..=8),
    ]
}

fn delta_strategy() -> impl Strategy<Value = i64> {
    prop_oneof![
        3 => Just(0i64),
        2 => Just(1i64),
        2 => Just(-1i64),
        1 => Just(1_000_000_000i64),
        1 => Just(-1_000_000_000i64),
        1 => -3_600_000_000_000i64..3_600_000_000_000i64,
    ]
}

fn case_strategy(max_len: usize) -> impl Strategy<Value = Case> {
    let blocks = prop::collection::vec(
        (1u32..600_000, vote_vec(), prop_oneof![3 => Just(None), 1 => rot_strategy().prop_map(Some)]).prop_map(|(dt_ms, votes, rot)| BlockPlan { dt_ms, votes, rot }),
        3..=max_len,
    );
    let forks = prop::collection::vec(
        (any::<u16>(), 1u8..=3, 1u8..=200, any::<bool>()).prop_map(|(from, len, salt, foreign)| ForkPlan { from, len, salt, foreign }),
        1..=3,
    );
    let perturbs = prop::collection::vec(
        prop_oneof![
            2 => any::<u16>().prop_map(|j| Perturb::ChainId { j }),
            5 => (any::<u16>(), any::<u16>(), delta_strategy()).prop_map(|(j, rel, delta_ns)| Perturb::Retime { j, rel, delta_ns }),
            // same header re-timed relative to itself / its parent: the sharp cases for the height and time clauses
            2 => (any::<u16>(), delta_strategy()).prop_map(|(j, delta_ns)| Perturb::Retime { j, rel: j, delta_ns }),
            2 => (any::<u16>(), any::<u16>()).prop_map(|(j, bit)| Perturb::Parent { j, bit }),
            2 => (any::<u16>(), any::<u16>(), any::<bool>()).prop_map(|(j, victim, replay)| Perturb::ForgedTrust { j, victim, replay }),
        ],
        4..=9,
    );
    let range_op = prop_oneof![
        3 => Just(RangeOp::Honest),
        2 => any::<u16>().prop_map(RangeOp::Remove),
        1 => any::<u16>().prop_map(RangeOp::Dup),
        1 => (any::<u16>(), any::<u16>()).prop_map(|(a, b)| RangeOp::Swap(a, b)),
        1 => Just(RangeOp::Reverse),
        2 => (any::<u16>(), any::<u16>()).prop_map(|(a, b)| RangeOp::Replace(a, b)),
        1 => (any::<u16>(), any::<u16>()).prop_map(|(a, b)| RangeOp::Insert(a, b)),
        1 => Just(RangeOp::Empty),
    ];
    let ranges = prop::collection::vec(
        (any::<u16>(), any::<u16>(), any::<u16>(), range_op).prop_map(|(trusted, start, len, op)| RangePlan { trusted, start, len, op }),
        8..=16,
    );
    (
        (
            any::<u64>(),
            lv_gen::chain::chain_id_strategy(),
            prop_oneof![3 => Just(1u64), 2 => 2u64..1000, 1 => (1u64 << 32)..(1u64 << 40)],
            1u8..=7,
            prop::bool::weighted(0.08),
        ),
        prop::collection::vec(small_power(), 1..=3),
        prop::collection::vec(any::<u16>(), 0..=2),
        prop_oneof![3 => -1i8..=1, 1 => -3i8..=3],
        blocks,
        forks,
        perturbs,
        ranges,
    )
        .prop_map(|((seed, chain_id, start_height, app_version, future), keep, rest, eps, blocks, forks, perturbs, ranges)| Case {
            seed,
            chain_id,
            start_height,
            app_version,
            future,
            keep,
            rest,
            eps,
            blocks,
            forks,
            perturbs,
            ranges,
        })
}

fn chain_spec(case: &Case) -> ChainSpec {
    // set0 = K ∪ R with ΣR = 2ΣK + eps, so the power of K sits on the 1/3 boundary of the first set
    let sk: u64 = case.keep.iter().sum();
    let rtotal = (2 * sk as i128 + case.eps as i128).max(1) as u64;
    let nr = (case.rest.len() as u64 + 1).min(rtotal);
    let mut r = vec![1u64; nr as usize];
    let mut rem = rtotal - nr;
    for (j, sel) in case.rest.iter().enumerate().take(nr as usize - 1) {
        let take = pick(*sel, rem as usize + 1) as u64;
        r[j] += take;
        rem -= take;
    }
    *r.last_mut().unwrap() += rem;
    let nk = case.keep.len() as u8;
    let set0: Vec<(u8, u64)> = case.keep.iter().chain(r.iter()).enumerate().map(|(i, p)| (i as u8, *p)).collect();
    let mut cur = set0.clone();
    let mut next_idx = set0.len() as u8;
    let mut blocks = Vec::new();
    for b in &case.blocks {
        let mut fresh = |extra: &Vec<u64>, out: &mut Vec<(u8, u64)>| {
            for p in extra {
                out.push((next_idx, *p));
                next_idx = next_idx.wrapping_add(1);
            }
        };
        let next_set = b.rot.as_ref().and_then(|rot| {
            let mut out: Vec<(u8, u64)> = Vec::new();
            match rot {
                Rot::KeepK { powers, extra } => {
                    for (j, (idx, _)) in cur.iter().enumerate() {
                        if *idx < nk {
                            out.push((*idx, powers[j % powers.len()]));
                        }
                    }
                    fresh(extra, &mut out);
                }
                Rot::Mask { mask, powers, extra } => {
                    for (j, (idx, _)) in cur.iter().enumerate() {
                        if mask >> (j % 8) & 1 == 1 {
                            out.push((*idx, powers[j % powers.len()]));
                        }
                    }
                    fresh(extra, &mut out);
                }
                Rot::Disjoint { extra } => fresh(extra, &mut out),
            }
            if out.is_empty() { None } else { Some(out) }
        });
        if let Some(ns) = &next_set {
            cur = ns.clone();
        }
        blocks.push(BlockSpec {
            dt_ms: b.dt_ms,
            votes: b.votes.clone(),
            dah: DahKind::Empty,
            next_set,
        });
    }
    ChainSpec {
        seed: case.seed,
        chain_id: case.chain_id.clone(),
        start_height: case.start_height,
        app_version: case.app_version,
        time_base: TimeBase::Fixed(if case.future { 4_200_000_000 } else { 1_600_000_000 } + case.seed % 100_000_000),
        set0,
        blocks,
    }
}

#[derive(Clone, Copy, PartialEq, Eq, Debug)]
enum Kind {
    Honest,
    Fork,
    Perturbed,
    Forged,
}

struct Item {
    h: ExtendedHeader,
    kind: Kind,
    what: String,
}

/// Pins the clock of `ExtendedHeader::verify` on this thread; cleared on drop.
struct ClockGuard;
impl ClockGuard {
    fn set(&self, now: Option<Time>) {
        verif_clock::set(now);
    }
}
impl Drop for ClockGuard {
    fn drop(&mut self) {
        verif_clock::set(None);
    }
}

fn from_nanos(n: i128) -> Time {
    Time::from_unix_timestamp(n.div_euclid(1_000_000_000) as i64, n.rem_euclid(1_000_000_000) as u32).unwrap()
}

fn build_pool(case: &Case, chain: &Chain) -> Vec<Item> {
    let len = chain.headers.len();
    let mut pool: Vec<Item> = Vec::new();
    for (i, h) in chain.headers.iter().enumerate() {
        let mut h = h.clone();
        sign_nil_slots_properly(&mut h, &chain.keys[i]);
        pool.push(Item {
            h,
            kind: Kind::Honest,
            what: format!("H{i}"),
        });
    }
    for f in &case.forks {
        let from = 1 + pick(f.from, len - 1);
        for (k, h) in build_fork(chain, from, f.len as usize, f.salt as u64, f.foreign).into_iter().enumerate() {
            pool.push(Item {
                h,
                kind: Kind::Fork,
                what: format!("fork({}keys)@{}+{k}", if f.foreign { "foreign-" } else { "same-" }, from),
            });
        }
    }
    for p in &case.perturbs {
        let (j, what) = match p {
            Perturb::ChainId { j } | Perturb::Retime { j, .. } | Perturb::Parent { j, .. } | Perturb::ForgedTrust { j, .. } => {
                (pick(*j, len), format!("{p:?}"))
            }
        };
        let mut h = pool[j].h.clone();
        match p {
            Perturb::ChainId { .. } => {
                h.header.chain_id = format!("{}-b", case.chain_id).try_into().unwrap();
            }
            Perturb::Retime { rel, delta_ns, .. } => {
                let r = pick(*rel, len);
                h.header.time = from_nanos(nanos_of(chain.headers[r].header.time) + *delta_ns as i128);
            }
            Perturb::ForgedTrust { .. } => {}
            Perturb::Parent { bit, .. } => {
                if let Some(b) = h.header.last_block_id.as_mut() {
                    let mut x: [u8; 32] = hash_bytes(&b.hash).try_into().unwrap();
                    x[(*bit as usize / 8) % 32] ^= 1 << (bit % 8);
                    b.hash = tendermint::Hash::Sha256(x);
                } else {
                    continue;
                }
            }
        }
        if let Perturb::ForgedTrust { victim, replay, .. } = p {
            let vi = pick(*victim, len);
            let vh = &chain.headers[vi];
            let aseed = case.seed ^ 0xa77ac;
            let akey = key_for(aseed, 220);
            let mut infos = vec![val_info(&akey, 1_000_000)];
            for m in 0..vh.validator_set.validators().len() {
                infos.push(val_info(&key_for(aseed, 221 + m as u8), 1));
            }
            h.validator_set = ValidatorSet::new(infos.clone(), Some(infos[0].clone()));
            let t = h.header.time;
            let mut sigs = vec![CommitSig::BlockIdFlagCommit {
                validator_address: infos[0].address,
                timestamp: t,
                signature: None,
            }];
            for (m, v) in vh.validator_set.validators().iter().enumerate() {
                let garbage = Signature::new(lv_common::Prng::new(aseed ^ m as u64).array::<64>()).unwrap().unwrap();
                let (timestamp, signature) = match (&vh.commit.signatures[m], *replay) {
                    (CommitSig::BlockIdFlagCommit { timestamp, signature: Some(s), .. }, true) => (*timestamp, s.clone()),
                    _ => (t, garbage),
                };
                sigs.push(CommitSig::BlockIdFlagCommit {
                    validator_address: v.address,
                    timestamp,
                    signature: Some(signature),
                });
            }
            h.commit.signatures = sigs;
            h.header.validators_hash = h.validator_set.hash();
            h.header.next_validators_hash = h.validator_set.hash();
            h.header.proposer_address = infos[0].address;
            h.commit.block_id.hash = h.header.hash();
            sign_slot(&mut h, 0, &akey);
            // constructible only while the light rule stops at the quorum point (open finding of C01)
            if h.validate().is_err() {
                continue;
            }
            pool.push(Item {
                h,
                kind: Kind::Forged,
                what: format!("{what}->forged@H{j}"),
            });
            continue;
        }
        seal(&mut h, &chain.keys[j]);
        sign_nil_slots_properly(&mut h, &chain.keys[j]);
        pool.push(Item {
            h,
            kind: Kind::Perturbed,
            what: format!("{what}->H{j}'"),
        });
    }
    pool
}

fn first_failing(rc: &RefConds) -> &'static str {
    rc.failing().first().copied().unwrap_or("none")
}

fn judge_pair(obs: &mut Obs, clock: &ClockGuard, t: &Item, u: &Item, now: Option<Time>, tag: &str) -> Result<bool, Failure> {
    clock.set(now);
    let real_now = Time::now();
    let res = t.h.verify(&u.h);
    let res_adj = t.h.verify_adjacent(&u.h);
    clock.set(None);
    let rc = ref_conds(&t.h, &u.h, now.unwrap_or(real_now));
    let desc = || {
        format!(
            "trusted {} (height {}, time {}) vs untrusted {} (height {}, time {}), now={:?} [{tag}]; reference conditions {rc:?}",
            t.what,
            t.h.height(),
            t.h.time(),
            u.what,
            u.h.height(),
            u.h.time(),
            now
        )
    };
    if res.is_ok() && !rc.ok() {
        obs.fail(&format!("C02:verify-accepted-despite-{}", first_failing(&rc)), format!("verify Ok but {:?} fail(s): {}", rc.failing(), desc()))?;
    }
    if res.is_err() && rc.ok() {
        let wf = trusting_well_formed(&t.h.validator_set, t.h.chain_id().as_str(), &u.h.commit);
        if wf {
            obs.fail(
                "C02:verify-rejected-linked-successor",
                format!("verify Err({}) although every clause of the property holds: {}", res.as_ref().unwrap_err(), desc()),
            )?;
        }
    }
    let want_adj = rc.ok() && rc.adjacent;
    if res_adj.is_ok() != want_adj {
        if res_adj.is_ok() {
            obs.fail(
                &format!("C02:verify-adjacent-accepted-despite-{}", if rc.adjacent { first_failing(&rc) } else { "non-adjacent" }),
                format!("verify_adjacent Ok: {}", desc()),
            )?;
        } else {
            obs.fail("C02:verify-adjacent-rejected-linked-successor", format!("verify_adjacent Err({}): {}", res_adj.as_ref().unwrap_err(), desc()))?;
        }
    }
    Ok(res.is_ok())
}

fn run_case(case: &Case, obs: &mut Obs) -> Result<(), Failure> {
    let spec = chain_spec(case);
    let chain = build_chain(&spec);
    let pool = build_pool(case, &chain);
    for it in &pool {
        it.h.validate().map_err(|e| Failure::new("gen", format!("pool header {} does not validate: {e}", it.what)))?;
    }
    if case.future {
        obs.label("future-chain");
    }
    let clock = ClockGuard;
    let max_t = pool.iter().map(|i| nanos_of(i.h.time())).max().unwrap();
    let far = from_nanos(max_t + 3_600_000_000_000);
    let mut real_clock_budget = 12;
    for t in &pool {
        for u in &pool {
            let rc = ref_conds(&t.h, &u.h, far);
            let special = t.kind != Kind::Honest || u.kind != Kind::Honest;
            let rotated = hash_bytes(&t.h.header.validators_hash) != hash_bytes(&u.h.header.validators_hash);
            let nontrivial = special || (!rc.adjacent && rotated);
            let d = digest_bytes(&[hash_bytes(&t.h.hash()), hash_bytes(&u.h.hash())].concat());
            obs.eval(nontrivial.then_some(d));
            let ok = judge_pair(obs, &clock, t, u, Some(far), "clock far ahead")?;
            // classification
            let failing = rc.failing();
            if ok {
                obs.label(if rc.adjacent { "accept-adjacent" } else { "accept-non-adjacent" });
            } else if failing.len() == 1 {
                obs.label(&format!("reject-only-{}", failing[0]));
            } else {
                obs.label("reject-several");
            }
            if t.kind == Kind::Fork || u.kind == Kind::Fork {
                obs.label("fork-pair");
            }
            if u.kind == Kind::Forged && !rc.adjacent && rc.height_gt && rc.chain_eq && rc.time_later {
                // would be decided by the trusting tally alone
                obs.label("forged-trust-entries");
            }
            if rc.adjacent && rotated && rc.ok() {
                obs.label("rotated-adjacent-pair");
            }
            let others_ok = rc.height_gt && rc.chain_eq && rc.time_later;
            if !rc.adjacent && others_ok {
                let (p, tt) = (rc.trust_power, rc.trust_total);
                if rotated {
                    obs.label("non-adjacent-rotated");
                }
                if 3 * p == tt {
                    obs.label("trust-exact-third");
                }
                if p == tt / 3 {
                    obs.label("trust-boundary-reject");
                }
                if p == tt / 3 + 1 {
                    obs.label("trust-boundary-accept");
                }
                if p == 0 {
                    obs.label("trust-zero");
                }
                if p == tt {
                    obs.label("trust-full");
                }
            }
            // exact clock boundary for every pair that is otherwise a linked successor
            if rc.ok() {
                let ut = nanos_of(u.h.time());
                for (delta, label) in [
                    (-10_000_000_000i128, "clock-exact-boundary"),
                    (-10_000_000_000 + 1, "clock-1ns-inside"),
                    (-10_000_000_000 - 1, "clock-1ns-outside"),
                    (-3_600_000_000_000, "clock-header-1h-ahead"),
                    (-9_000_000_000, "clock-header-9s-ahead"),
                    (0, "clock-header-now"),
                ] {
                    let now = from_nanos(ut + delta);
                    obs.eval(Some(d ^ (delta as u64).wrapping_mul(0x9E3779B97F4A7C15)));
                    let ok = judge_pair(obs, &clock, t, u, Some(now), label)?;
                    obs.label(label);
                    if !ok {
                        obs.label("reject-only-clock");
                    }
                }
                if real_clock_budget > 0 {
                    real_clock_budget -= 1;
                    obs.eval(Some(d ^ 0x7ea1));
                    let ok = judge_pair(obs, &clock, t, u, None, "real clock")?;
                    obs.label(if ok { "real-clock-accept" } else { "real-clock-reject" });
                }
            }
        }
    }

    // ---------------------------------------------------------------- ranges
    let honest: Vec<&Item> = pool.iter().filter(|i| i.kind == Kind::Honest).collect();
    let specials: Vec<&Item> = pool.iter().filter(|i| i.kind != Kind::Honest).collect();
    let len = honest.len();
    clock.set(Some(far));
    for (ri, rp) in case.ranges.iter().enumerate() {
        let ti = pick(rp.trusted, len);
        // mostly ranges that start right after (or shortly after) the trusted header
        let start = match rp.start % 4 {
            0 | 1 => ti + 1,
            2 => ti + 1 + pick(rp.start, 3),
            _ => pick(rp.start, len),
        }
        .min(len);
        let n = pick(rp.len, len - start + 1);
        let mut xs: Vec<ExtendedHeader> = honest[start..start + n].iter().map(|i| i.h.clone()).collect();
        let label = match &rp.op {
            RangeOp::Honest => "range-honest-slice",
            RangeOp::Remove(k) => {
                if !xs.is_empty() {
                    xs.remove(pick(*k, xs.len()));
                }
                "range-removed-one"
            }
            RangeOp::Dup(k) => {
                if !xs.is_empty() {
                    let k = pick(*k, xs.len());
                    xs.insert(k, xs[k].clone());
                }
                "range-duplicated-one"
            }
            RangeOp::Swap(a, b) => {
                if xs.len() >= 2 {
                    let (a, b) = (pick(*a, xs.len()), pick(*b, xs.len()));
                    xs.swap(a, b);
                }
                "range-swapped-two"
            }
            RangeOp::Reverse => {
                xs.reverse();
                "range-reversed"
            }
            RangeOp::Replace(k, s) => {
                if !xs.is_empty() && !specials.is_empty() {
                    let k = pick(*k, xs.len());
                    // prefer a special header of the same height (a same-height fork / perturbed twin)
                    let hgt = xs[k].height();
                    let same: Vec<&&Item> = specials.iter().filter(|i| i.h.height() == hgt).collect();
                    xs[k] = if same.is_empty() { specials[pick(*s, specials.len())].h.clone() } else { same[pick(*s, same.len())].h.clone() };
                }
                "range-perturbed-element"
            }
            RangeOp::Insert(k, s) => {
                if !specials.is_empty() {
                    let k = pick(*k, xs.len() + 1);
                    xs.insert(k, specials[pick(*s, specials.len())].h.clone());
                }
                "range-inserted-element"
            }
            RangeOp::Empty => {
                xs.clear();
                "range-empty"
            }
        };
        let trusted = &honest[ti].h;
        let want = ref_range_ok(trusted, &xs, far, false);
        let want_adj = ref_range_ok(trusted, &xs, far, true);
        let got = trusted.verify_range(&xs);
        let got_adj = trusted.verify_adjacent_range(&xs);
        let heights: Vec<u64> = xs.iter().map(|x| x.height()).collect();
        let d = digest_bytes(&[hash_bytes(&trusted.hash()).to_vec(), xs.iter().flat_map(|x| hash_bytes(&x.hash()).to_vec()).collect::<Vec<u8>>(), vec![ri as u8]].concat());
        obs.eval(Some(d));
        obs.eval(Some(d ^ 1));
        obs.label(label);
        obs.label(if want { "range-accept" } else { "range-reject" });
        // pairwise verifiable but heights not consecutive: only the consecutive-height clause rejects
        let pairwise = {
            let mut prev = trusted;
            let mut ok = true;
            for x in &xs {
                ok &= ref_conds(prev, x, far).ok();
                prev = x;
            }
            ok
        };
        if pairwise && !want {
            obs.label("range-reject-only-non-consecutive");
        }
        if want && !want_adj {
            obs.label("range-first-not-adjacent");
        }
        if got.is_ok() != want {
            let sig = if got.is_ok() { "C02:verify-range-accepted-bad-range" } else { "C02:verify-range-rejected-good-range" };
            clock.set(None);
            obs.fail(
                sig,
                format!(
                    "trusted height {} ({label}), range heights {heights:?}: verify_range -> {:?}, reference accept={want} (pairwise verifiable={pairwise})",
                    trusted.height(),
                    got.as_ref().map_err(|e| e.to_string())
                ),
            )?;
            clock.set(Some(far));
        }
        if got_adj.is_ok() != want_adj {
            let sig = if got_adj.is_ok() { "C02:verify-adjacent-range-accepted-bad-range" } else { "C02:verify-adjacent-range-rejected-good-range" };
            clock.set(None);
            obs.fail(
                sig,
                format!(
                    "trusted height {} ({label}), range heights {heights:?}: verify_adjacent_range -> {:?}, reference accept={want_adj}",
                    trusted.height(),
                    got_adj.as_ref().map_err(|e| e.to_string())
                ),
            )?;
            clock.set(Some(far));
        }
    }
    clock.set(None);
    Ok(())
}

pub fn run(ctx: &mut Ctx) {
    ctx.assume("every header handed to verify* is a validated header (honest, fork or honestly re-sealed perturbation), as the API documentation requires of callers; the hash of a header is tendermint's Header::hash");
    ctx.assume("the local clock is pinned through the additive cfg(eigerco_lumina_verif) hook verif_clock (a thread-local Option<Time> read right after Time::now() in verify); real-clock evaluations use chains >= 3 years in the past or ~80 years in the future");
    ctx.assume("reference trusting tally: ed25519-consensus over lv_gen's hand-encoded canonical vote, u128 arithmetic; VerifiedExtendedHeaders::try_from (lumina-node) is not covered here");
    ctx.essential(&[
        "accept-adjacent",
        "accept-non-adjacent",
        "rotated-adjacent-pair",
        "non-adjacent-rotated",
        "fork-pair",
        "reject-only-height",
        "reject-only-chain-id",
        "reject-only-time-not-later",
        "reject-only-clock",
        "reject-only-parent",
        "reject-only-next-validators",
        "reject-only-trust",
        "trust-exact-third",
        "trust-boundary-reject",
        "trust-boundary-accept",
        "trust-zero",
        "trust-full",
        "clock-exact-boundary",
        "clock-1ns-inside",
        "real-clock-accept",
        "real-clock-reject",
        "range-honest-slice",
        "range-removed-one",
        "range-duplicated-one",
        "range-swapped-two",
        "range-reversed",
        "range-perturbed-element",
        "range-empty",
        "range-accept",
        "range-reject-only-non-consecutive",
        "range-first-not-adjacent",
    ]);
    let max_len = ctx.tier.pick(12, 12);
    let cases = ctx.tier.pick(320, 4000);
    ctx.proptest(
        "pairs-and-ranges",
        "per generated chain of 3..12 headers (first set engineered so that a kept group carries exactly T/3, T/3±1 of its power; rotations keeping that group / a masked subset / nothing; Commit/Nil/Absent mixes) plus same-key and foreign-key forks and honestly re-sealed perturbations (other chain id, time set relative to any header ±0/1ns/1s/±1h, other parent hash) and attacker headers that validate but whose post-quorum commit entries name trusted validators with invalid signatures: verify and verify_adjacent on EVERY ordered pair of the pool (incl. j<=i) against the reference, with the clock pinned far ahead; for every otherwise-linked pair additionally the clock pinned at header time -10s (exact boundary), ±1ns around it, -1h, -9s, 0, and up to 12 evaluations on the real clock; verify_range / verify_adjacent_range on honest slices, with one element removed, duplicated, two swapped, reversed, one replaced by / one inserted fork or perturbed header, and the empty range. Non-trivial = pair involving a fork/perturbed header, non-adjacent pair across a rotation, any pinned-boundary evaluation, any range; distinct by the block hashes involved (and clock offset)",
        cases,
        move || case_strategy(max_len),
        run_case,
    );
}
