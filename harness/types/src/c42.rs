//! C42 — Task join handles resolve exactly when the task ends.
//!
//! Generated task sets on a multi-threaded tokio runtime: plain and cancellable tasks with generated
//! lifetimes (yield counts, short sleeps), generated panics, cancellation at generated points and
//! runtime shutdown with tasks alive. Each task's future owns a sentinel whose `Drop` sets a flag
//! (the future is dropped exactly when the task finished, panicked or was cancelled).

use std::sync::Arc;
use std::sync::atomic::{AtomicBool, AtomicU64, Ordering};
use std::time::Duration;

use lumina_utils::executor::{JoinHandle, spawn, spawn_cancellable};
use lv_common::prelude::*;
use tokio_util::sync::CancellationToken;

#[derive(Clone, Debug, Serialize, Deserialize)]
pub struct TaskSpec {
    pub cancellable: bool,
    /// body: `steps` iterations of (progress += 1; optional panic; yield or sleep)
    pub steps: u16,
    /// every `sleep_every`-th step sleeps 1 ms instead of yielding (0 = never)
    pub sleep_every: u8,
    pub panic_at: Option<u16>,
    /// harness cancels the token after this many harness-side yields (cancellable only)
    pub cancel_after: Option<u8>,
    /// token already cancelled before spawn
    pub pre_cancelled: bool,
    /// number of concurrent joiners
    pub joiners: u8,
    /// never ends on its own (endless loop) — needs cancel or shutdown
    pub endless: bool,
}

#[derive(Clone, Debug, Serialize, Deserialize)]
pub struct Case {
    pub tasks: Vec<TaskSpec>,
    /// drop the runtime while tasks may still be alive, then join from another runtime
    pub shutdown_early: bool,
    pub workers: u8,
}

struct Sentinel(Arc<AtomicBool>);
impl Drop for Sentinel {
    fn drop(&mut self) {
        self.0.store(true, Ordering::SeqCst);
    }
}

struct Running {
    spec: TaskSpec,
    handle: Arc<JoinHandle>,
    ended: Arc<AtomicBool>,
    progress: Arc<AtomicU64>,
    token: Option<CancellationToken>,
}

const GRACE: Duration = Duration::from_secs(30);

fn body(spec: TaskSpec, sentinel: Sentinel, progress: Arc<AtomicU64>) -> impl Future<Output = ()> + Send + 'static {
    async move {
        let _s = sentinel;
        let mut i: u16 = 0;
        loop {
            if !spec.endless && i >= spec.steps {
                break;
            }
            progress.fetch_add(1, Ordering::SeqCst);
            if spec.panic_at == Some(i) {
                panic!("lv-c42 generated task panic");
            }
            if spec.sleep_every != 0 && i % spec.sleep_every as u16 == spec.sleep_every as u16 - 1 {
                tokio::time::sleep(Duration::from_millis(1)).await;
            } else {
                tokio::task::yield_now().await;
            }
            i = i.wrapping_add(1);
        }
    }
}

async fn join_and_check(r: &Running, idx: usize, obs_fail: &std::sync::Mutex<Option<Failure>>) {
    let set = |f: Failure| {
        let mut g = obs_fail.lock().unwrap();
        if g.is_none() {
            *g = Some(f);
        }
    };
    match tokio::time::timeout(GRACE, r.handle.join()).await {
        Ok(()) => {
            // safety: resolved => the task's future is gone
            if !r.ended.load(Ordering::SeqCst) {
                set(Failure::new(
                    "C42:join-resolved-before-task-ended",
                    format!("task {idx} ({:?}): join() returned while the task's future was still alive (progress {})", r.spec, r.progress.load(Ordering::SeqCst)),
                ));
                return;
            }
            // no further progress after join
            let p0 = r.progress.load(Ordering::SeqCst);
            for _ in 0..3 {
                tokio::task::yield_now().await;
            }
            tokio::time::sleep(Duration::from_millis(1)).await;
            let p1 = r.progress.load(Ordering::SeqCst);
            if p0 != p1 {
                set(Failure::new("C42:progress-after-join", format!("task {idx} ({:?}) made progress {p0}->{p1} after join() returned", r.spec)));
                return;
            }
            // second join returns immediately
            let again = futures_now_or_never(r.handle.join());
            if !again {
                set(Failure::new("C42:second-join-not-immediate", format!("task {idx}: a second join() was not immediately ready")));
            }
        }
        Err(_) => {
            // liveness: only a violation when the harness knows the task has ended
            if r.ended.load(Ordering::SeqCst) {
                // re-check once more with another grace period before reporting
                if tokio::time::timeout(GRACE, r.handle.join()).await.is_err() {
                    set(Failure::new(
                        "C42:join-never-resolves",
                        format!("task {idx} ({:?}) ended (its future was dropped) but join() did not resolve within {:?} twice", r.spec, GRACE),
                    ));
                }
            } else if r.token.as_ref().map(|t| t.is_cancelled()).unwrap_or(false) {
                // the harness cancelled this task's token at least GRACE ago; look once more
                if tokio::time::timeout(GRACE, r.handle.join()).await.is_err() && !r.ended.load(Ordering::SeqCst) {
                    set(Failure::new(
                        "C42:cancelled-task-keeps-running",
                        format!("task {idx} ({:?}): its token was cancelled more than {:?} ago but the task is still running (progress {})", r.spec, GRACE * 2, r.progress.load(Ordering::SeqCst)),
                    ));
                }
            } else {
                set(Failure::new("inconclusive:task-still-running", format!("task {idx} ({:?}) still running after {:?}", r.spec, GRACE)));
            }
        }
    }
}

/// minimal join_all (no `futures` crate needed): polls every future until all are ready
async fn futures_join_all<F: Future<Output = ()>>(futs: Vec<F>) {
    use std::pin::Pin;
    use std::task::Poll;
    let mut futs: Vec<Option<Pin<Box<F>>>> = futs.into_iter().map(|f| Some(Box::pin(f))).collect();
    std::future::poll_fn(|cx| {
        let mut pending = false;
        for slot in futs.iter_mut() {
            if let Some(f) = slot {
                match f.as_mut().poll(cx) {
                    Poll::Ready(()) => *slot = None,
                    Poll::Pending => pending = true,
                }
            }
        }
        if pending { Poll::Pending } else { Poll::Ready(()) }
    })
    .await
}

fn futures_now_or_never<F: Future<Output = ()>>(f: F) -> bool {
    use std::pin::pin;
    use std::task::{Context, Poll, Waker};
    let mut f = pin!(f);
    let mut cx = Context::from_waker(Waker::noop());
    matches!(f.as_mut().poll(&mut cx), Poll::Ready(()))
}

fn run_case(case: &Case, obs: &mut Obs) -> Result<(), Failure> {
    let rt = tokio::runtime::Builder::new_multi_thread().worker_threads(case.workers.clamp(1, 4) as usize).enable_all().build().unwrap();
    let fail: Arc<std::sync::Mutex<Option<Failure>>> = Arc::new(std::sync::Mutex::new(None));
    let mut running: Vec<Running> = Vec::new();
    // spawn
    {
        let _g = rt.enter();
        for spec in &case.tasks {
            let ended = Arc::new(AtomicBool::new(false));
            let progress = Arc::new(AtomicU64::new(0));
            let fut = body(spec.clone(), Sentinel(ended.clone()), progress.clone());
            let (handle, token) = if spec.cancellable {
                let t = CancellationToken::new();
                if spec.pre_cancelled {
                    t.cancel();
                }
                (spawn_cancellable(t.clone(), fut), Some(t))
            } else {
                (spawn(fut), None)
            };
            running.push(Running { spec: spec.clone(), handle: Arc::new(handle), ended, progress, token });
        }
    }
    for r in &running {
        obs.label(if r.spec.cancellable { "cancellable-task" } else { "plain-task" });
        if r.spec.panic_at.map(|p| r.spec.endless || p < r.spec.steps).unwrap_or(false) {
            obs.label("panicking-task");
        }
        if r.spec.pre_cancelled && r.spec.cancellable {
            obs.label("pre-cancelled");
        }
    }
    let will_end_alone = |s: &TaskSpec| !s.endless || s.panic_at.is_some() || (s.cancellable && (s.pre_cancelled || s.cancel_after.is_some()));
    if case.shutdown_early {
        obs.label("runtime-shutdown-with-live-tasks");
        // give tasks a moment, issue the cancellations, then drop the runtime
        rt.block_on(async {
            for r in &running {
                if let (Some(t), Some(n)) = (&r.token, r.spec.cancel_after) {
                    for _ in 0..n {
                        tokio::task::yield_now().await;
                    }
                    t.cancel();
                    obs.label("cancelled-mid-flight");
                }
            }
        });
        drop(rt);
        // after shutdown every task's future has been dropped
        let rt2 = tokio::runtime::Builder::new_current_thread().enable_all().build().unwrap();
        rt2.block_on(async {
            let futs: Vec<_> = running.iter().enumerate().map(|(i, r)| join_and_check(r, i, &fail)).collect();
            futures_join_all(futs).await;
        });
    } else {
        rt.block_on(async {
            let mut waiters = Vec::new();
            for (i, r) in running.iter().enumerate() {
                // extra concurrent joiners on worker threads
                for _ in 0..r.spec.joiners.min(3) {
                    let h = r.handle.clone();
                    let ended = r.ended.clone();
                    let fail = fail.clone();
                    let spec = r.spec.clone();
                    waiters.push(tokio::spawn(async move {
                        if tokio::time::timeout(GRACE, h.join()).await.is_ok() && !ended.load(Ordering::SeqCst) {
                            let mut g = fail.lock().unwrap();
                            if g.is_none() {
                                *g = Some(Failure::new("C42:join-resolved-before-task-ended", format!("task {i} ({spec:?}): a concurrent joiner returned while the task's future was still alive")));
                            }
                        }
                    }));
                }
            }
            for r in &running {
                if let (Some(t), Some(n)) = (&r.token, r.spec.cancel_after) {
                    for _ in 0..n {
                        tokio::task::yield_now().await;
                    }
                    t.cancel();
                }
            }
            let mut futs = Vec::new();
            for (i, r) in running.iter().enumerate() {
                if will_end_alone(&r.spec) {
                    futs.push(join_and_check(r, i, &fail));
                }
            }
            futures_join_all(futs).await;
            for w in waiters {
                // joiners of endless tasks are released by the shutdown below
                if w.is_finished() {
                    let _ = w.await;
                } else {
                    w.abort();
                }
            }
        });
        // endless, never-cancelled tasks: end them by shutting the runtime down, then join
        drop(rt);
        let rt2 = tokio::runtime::Builder::new_current_thread().enable_all().build().unwrap();
        rt2.block_on(async {
            for (i, r) in running.iter().enumerate() {
                if !will_end_alone(&r.spec) {
                    join_and_check(r, i, &fail).await;
                }
            }
        });
    }
    for r in &running {
        let nontrivial = r.spec.panic_at.is_some() || r.spec.cancellable || case.shutdown_early;
        obs.eval(nontrivial.then(|| digest_of(&(&r.spec, case.shutdown_early))));
        if r.spec.cancellable && r.spec.pre_cancelled && r.progress.load(Ordering::SeqCst) > 0 {
            obs.note("observation: a task spawned with an already cancelled token polled its body at least once");
        }
    }
    let f = fail.lock().unwrap().take();
    match f {
        None => Ok(()),
        Some(f) if f.sig.starts_with("inconclusive") => {
            obs.label("inconclusive-slow-task");
            obs.note(f.msg);
            Ok(())
        }
        Some(f) => obs.fail(&f.sig.clone(), f.msg),
    }
}

pub fn run(ctx: &mut Ctx) {
    ctx.assume("a task 'ended' is observed through the Drop of a sentinel owned by the task's future (finish, panic and cancellation all drop the future)");
    ctx.assume("liveness is only judged when the harness knows the task ended (or cancelled its token) and join() stays pending for 2 x 30 s of real time");
    ctx.assume("thread interleavings are those the tokio scheduler produces; not exhaustive");
    ctx.essential(&["plain-task", "cancellable-task", "panicking-task", "runtime-shutdown-with-live-tasks", "pre-cancelled"]);
    ctx.set_shrink_iters(6);
    ctx.set_replay_times(300);
    let cases = ctx.tier.pick(1500, 60000);
    ctx.proptest(
        "task-sets",
        "1..24 tasks (spawn / spawn_cancellable) with generated lifetimes (0..300 yields, optional 1 ms sleeps, endless loops), generated panic step, cancellation after a generated number of harness yields or before spawn, 0..3 concurrent joiners, optional runtime shutdown with tasks alive; one evaluation per task. Non-trivial = task that panics, is cancellable, or is killed by runtime shutdown (distinct by task spec)",
        cases,
        || {
            let task = (
                any::<bool>(),
                prop_oneof![3 => 0u16..8, 2 => 0u16..300],
                0u8..5,
                prop::option::weighted(0.25, 0u16..20),
                prop::option::weighted(0.6, 0u8..40),
                prop::bool::weighted(0.1),
                0u8..4,
                prop::bool::weighted(0.15),
            )
                .prop_map(|(cancellable, steps, sleep_every, panic_at, cancel_after, pre_cancelled, joiners, endless)| TaskSpec {
                    cancellable,
                    steps,
                    sleep_every,
                    panic_at,
                    cancel_after: if cancellable { cancel_after } else { None },
                    pre_cancelled: cancellable && pre_cancelled,
                    joiners,
                    endless,
                });
            (prop::collection::vec(task, 1..24), prop::bool::weighted(0.25), 1u8..=4).prop_map(|(tasks, shutdown_early, workers)| Case { tasks, shutdown_early, workers })
        },
        run_case,
    );
}
