//! C14 — Namespaces are validated, ordered and round-trip.
//!
//! Oracle: a reference predicate written from the property statement (not from nmt.rs):
//!   `new(version, id)` is Ok  <=>  (version == 0  and (len == 28 and id[..18] all zero, or len <= 10 [shorthand]))
//!                               or (version == 255 and  len == 28 and id[..27] all 0xff)
//!   and the produced 29 bytes are `version || id` (shorthand: id left-padded with zeros to 28 bytes);
//!   `from_raw(b)` is Ok <=> b.len() == 29 and new(b[0], b[1..]) is Ok (no shorthand is reachable at that length);
//! byte form / serde-JSON form (base64 string, encoded by the harness' own base64) / v0 shorthand round trips;
//! `cmp` == lexicographic comparison of the 29 bytes; `is_reserved` <=> bytes <= 0x00^28 0xff  or  bytes >= 0xff^28 0x00.
use std::cmp::Ordering;

use celestia_types::nmt::Namespace;
use lv_common::prelude::*;

pub const NS: usize = 29;
const B64: &[u8; 64] = b"ABCDEFGHIJKLMNOPQRSTUVWXYZabcdefghijklmnopqrstuvwxyz0123456789+/";

/// harness-owned standard base64 (with padding)
pub fn b64(data: &[u8]) -> String {
    let mut out = String::new();
    for ch in data.chunks(3) {
        let n = (ch[0] as u32) << 16 | (*ch.get(1).unwrap_or(&0) as u32) << 8 | *ch.get(2).unwrap_or(&0) as u32;
        out.push(B64[(n >> 18) as usize & 63] as char);
        out.push(B64[(n >> 12) as usize & 63] as char);
        out.push(if ch.len() > 1 { B64[(n >> 6) as usize & 63] as char } else { '=' });
        out.push(if ch.len() > 2 { B64[n as usize & 63] as char } else { '=' });
    }
    out
}

/// reference: bytes the namespace must consist of, or None when construction must fail
pub fn ref_new(version: u8, id: &[u8]) -> Option<[u8; NS]> {
    let mut out = [0u8; NS];
    match version {
        0 => {
            if id.len() == 28 {
                if id[..18].iter().any(|b| *b != 0) {
                    return None;
                }
                out[1..].copy_from_slice(id);
                Some(out)
            } else if id.len() <= 10 {
                out[NS - id.len()..].copy_from_slice(id);
                Some(out)
            } else {
                None
            }
        }
        255 => {
            if id.len() == 28 && id[..27].iter().all(|b| *b == 0xff) {
                out[0] = 255;
                out[1..].copy_from_slice(id);
                Some(out)
            } else {
                None
            }
        }
        _ => None,
    }
}

pub fn ref_from_raw(raw: &[u8]) -> Option<[u8; NS]> {
    if raw.len() != NS {
        return None;
    }
    ref_new(raw[0], &raw[1..])
}

const MAX_PRIMARY: [u8; NS] = {
    let mut b = [0u8; NS];
    b[NS - 1] = 0xff;
    b
};
const MIN_SECONDARY: [u8; NS] = {
    let mut b = [0xffu8; NS];
    b[NS - 1] = 0;
    b
};

pub fn ref_reserved(b: &[u8; NS]) -> bool {
    b[..] <= MAX_PRIMARY[..] || b[..] >= MIN_SECONDARY[..]
}

#[derive(Clone, Copy, Debug, Serialize, Deserialize, PartialEq)]
pub enum Fill {
    Zeros,
    Ones,
    /// non-zero, non-0xff incrementing pattern
    Pattern,
    /// 18 zero bytes then the pattern (as far as the length reaches)
    V0Shape,
    /// 27 0xff bytes then the pattern
    V255Shape,
}

fn fill_bytes(fill: Fill, len: usize) -> Vec<u8> {
    (0..len)
        .map(|i| {
            let pat = (i as u8 % 200) + 1;
            match fill {
                Fill::Zeros => 0,
                Fill::Ones => 0xff,
                Fill::Pattern => pat,
                Fill::V0Shape => {
                    if i < 18 {
                        0
                    } else {
                        pat
                    }
                }
                Fill::V255Shape => {
                    if i < 27 {
                        0xff
                    } else {
                        pat
                    }
                }
            }
        })
        .collect()
}

#[derive(Clone, Debug, Serialize, Deserialize)]
pub struct GridCase {
    pub version: u8,
    pub len: u8,
    pub fill: Fill,
}

#[derive(Clone, Debug, Serialize, Deserialize)]
pub struct CorruptCase {
    /// true: version 255 base, false: version 0 base
    pub v255: bool,
    /// selects the base namespace's free bytes
    pub base: u8,
    /// raw byte position 0..=18 (v0) / 0..=27 (v255); 0 is the version byte
    pub pos: u8,
    /// replacement value (always different from the original byte)
    pub val: u8,
}

fn base_ns(v255: bool, base: u8) -> [u8; NS] {
    let mut b = [0u8; NS];
    if v255 {
        b = [0xff; NS];
        b[NS - 1] = [0x00, 0xfe, 0xff, 0x5a][base as usize % 4];
    } else {
        let suffix: [u8; 10] = match base % 4 {
            0 => [0; 10],
            1 => [0, 0, 0, 0, 0, 0, 0, 0, 0, 1],
            2 => [0xff; 10],
            _ => [0x12, 0x34, 0x56, 0x78, 0x9a, 0xbc, 0xde, 0xf0, 0x0f, 0x1e],
        };
        b[19..].copy_from_slice(&suffix);
    }
    b
}

/// Everything the property says about one *accepted* namespace.
fn check_accepted(obs: &mut Obs, ns: &Namespace, want: &[u8; NS], how: &str) -> Result<(), Failure> {
    obs.check(ns.as_bytes() == &want[..], "C14:constructed-bytes-differ", || {
        format!("{how}: constructed namespace bytes {:02x?} differ from version||id {:02x?}", ns.as_bytes(), want)
    })?;
    obs.check(ns.version() == want[0] && ns.id() == &want[1..], "C14:accessors", || {
        format!("{how}: version()/id() disagree with the bytes {want:02x?}")
    })?;
    // byte form
    match Namespace::from_raw(ns.as_bytes()) {
        Ok(back) => obs.check(back == *ns, "C14:bytes-roundtrip", || format!("{how}: from_raw(as_bytes()) != ns for {want:02x?}"))?,
        Err(e) => obs.fail("C14:bytes-roundtrip", format!("{how}: from_raw(as_bytes()) failed for {want:02x?}: {e}"))?,
    }
    // serde form: JSON string holding standard base64 of the 29 bytes
    let js = serde_json::to_string(ns).map_err(|e| Failure::new("C14:serde-roundtrip", format!("serialize failed: {e}")))?;
    let want_js = format!("\"{}\"", b64(want));
    obs.check(js == want_js, "C14:serde-form", || format!("{how}: JSON form {js} != {want_js}"))?;
    match serde_json::from_str::<Namespace>(&js) {
        Ok(back) => obs.check(back == *ns, "C14:serde-roundtrip", || format!("{how}: from_str(to_string(ns)) != ns for {want:02x?}"))?,
        Err(e) => obs.fail("C14:serde-roundtrip", format!("{how}: JSON form {js} does not parse back: {e}"))?,
    }
    // version-0 shorthand
    match (want[0], ns.id_v0()) {
        (0, Some(short)) => {
            obs.check(short == &want[19..], "C14:id-v0", || format!("{how}: id_v0() {short:02x?} is not the last 10 bytes of {want:02x?}"))?;
            match Namespace::new_v0(short) {
                Ok(back) => obs.check(back == *ns, "C14:v0-shorthand-roundtrip", || format!("{how}: new_v0(id_v0()) != ns for {want:02x?}"))?,
                Err(e) => obs.fail("C14:v0-shorthand-roundtrip", format!("{how}: new_v0(id_v0()) failed for {want:02x?}: {e}"))?,
            }
        }
        (0, None) => obs.fail("C14:id-v0", format!("{how}: id_v0() is None for the version-0 namespace {want:02x?}"))?,
        (_, Some(s)) => obs.fail("C14:id-v0", format!("{how}: id_v0() = {s:02x?} for the version-{} namespace", want[0]))?,
        (_, None) => {}
    }
    // reserved
    let r = ref_reserved(want);
    obs.check(ns.is_reserved() == r, "C14:is-reserved", || {
        format!("{how}: is_reserved() = {} but bytes {want:02x?} are {}reserved by the byte-order rule", ns.is_reserved(), if r { "" } else { "not " })
    })?;
    Ok(())
}

/// run every raw-bytes constructor on (version, id) and compare with the reference
fn check_constructors(obs: &mut Obs, version: u8, id: &[u8], label_prefix: &str) -> Result<bool, Failure> {
    let want = ref_new(version, id);
    let got = Namespace::new(version, id);
    match (&got, &want) {
        (Ok(ns), Some(w)) => check_accepted(obs, ns, w, "new")?,
        (Err(_), None) => {}
        (Ok(ns), None) => obs.fail(
            "C14:constructed-invalid",
            format!("Namespace::new({version}, {id:02x?}) accepted (bytes {:02x?}) although it is neither v0 with 18 zero bytes nor v255 with 27 0xff bytes", ns.as_bytes()),
        )?,
        (Err(e), Some(_)) => obs.fail("C14:valid-rejected", format!("Namespace::new({version}, {id:02x?}) rejected a valid namespace: {e}"))?,
    }
    // the version-specific constructors
    if version == 0 {
        let g = Namespace::new_v0(id);
        obs.check(g.is_ok() == want.is_some(), "C14:new-v0-disagrees", || format!("new_v0({id:02x?}) ok={} but reference says {}", g.is_ok(), want.is_some()))?;
        if let (Ok(ns), Some(w)) = (&g, &want) {
            check_accepted(obs, ns, w, "new_v0")?;
        }
    }
    if version == 255 {
        let g = Namespace::new_v255(id);
        obs.check(g.is_ok() == want.is_some(), "C14:new-v255-disagrees", || format!("new_v255({id:02x?}) ok={} but reference says {}", g.is_ok(), want.is_some()))?;
        if let (Ok(ns), Some(w)) = (&g, &want) {
            check_accepted(obs, ns, w, "new_v255")?;
        }
    }
    // from_raw on version||id, and the JSON route to from_raw
    let mut raw = vec![version];
    raw.extend_from_slice(id);
    let want_raw = ref_from_raw(&raw);
    let got_raw = Namespace::from_raw(&raw);
    match (&got_raw, &want_raw) {
        (Ok(ns), Some(w)) => check_accepted(obs, ns, w, "from_raw")?,
        (Err(_), None) => {}
        (Ok(ns), None) => obs.fail(
            "C14:constructed-invalid",
            format!("Namespace::from_raw({raw:02x?}) (len {}) accepted, bytes {:02x?}", raw.len(), ns.as_bytes()),
        )?,
        (Err(e), Some(_)) => obs.fail("C14:valid-rejected", format!("Namespace::from_raw({raw:02x?}) rejected a valid namespace: {e}"))?,
    }
    let js = format!("\"{}\"", b64(&raw));
    let got_js = serde_json::from_str::<Namespace>(&js);
    match (&got_js, &want_raw) {
        (Ok(ns), Some(w)) => obs.check(ns.as_bytes() == &w[..], "C14:serde-roundtrip", || format!("JSON {js} parsed to other bytes {:02x?}", ns.as_bytes()))?,
        (Err(_), None) => {}
        (Ok(ns), None) => obs.fail("C14:constructed-invalid", format!("JSON {js} (raw {raw:02x?}) deserialised to a namespace {:02x?}", ns.as_bytes()))?,
        (Err(e), Some(_)) => obs.fail("C14:valid-rejected", format!("JSON {js} of a valid namespace rejected: {e}"))?,
    }
    let accepted = want.is_some();
    match (&want, version, id.len()) {
        (Some(_), 0, 28) => obs.label("accepted-v0-full"),
        (Some(_), 0, _) => obs.label("accepted-v0-short"),
        (Some(_), _, _) => obs.label("accepted-v255"),
        (None, v, _) if v != 0 && v != 255 => obs.label("rejected-version"),
        (None, 0, l) if l != 28 => obs.label("rejected-length"),
        (None, 255, l) if l != 28 => obs.label("rejected-length"),
        (None, _, _) => obs.label(&format!("{label_prefix}rejected-prefix")),
    }
    Ok(accepted)
}

#[derive(Clone, Debug, Serialize, Deserialize)]
pub enum NsSpec {
    /// version 0 with the given 10-byte suffix
    V0([u8; 10]),
    /// version 0, suffix = zeros except the last `n` bytes taken from the value (boundary shaped)
    V0Low(u16),
    V255(u8),
}

impl NsSpec {
    pub fn bytes(&self) -> [u8; NS] {
        let mut b = [0u8; NS];
        match self {
            NsSpec::V0(s) => b[19..].copy_from_slice(s),
            NsSpec::V0Low(v) => b[27..].copy_from_slice(&v.to_be_bytes()),
            NsSpec::V255(x) => {
                b = [0xff; NS];
                b[NS - 1] = *x;
            }
        }
        b
    }
}

pub fn ns_spec_strategy() -> impl Strategy<Value = NsSpec> {
    prop_oneof![
        4 => any::<[u8; 10]>().prop_map(NsSpec::V0),
        // suffixes sharing a long prefix, so that order is decided late
        2 => (any::<[u8; 2]>(), 0usize..9).prop_map(|(x, at)| {
            let mut s = [0x77u8; 10];
            s[at] = x[0];
            s[at + 1] = x[1];
            NsSpec::V0(s)
        }),
        3 => prop_oneof![0u16..=0x0102, any::<u16>()].prop_map(NsSpec::V0Low),
        2 => prop_oneof![Just(0u8), Just(1), Just(0xfe), Just(0xff), any::<u8>()].prop_map(NsSpec::V255),
    ]
}

#[derive(Clone, Debug, Serialize, Deserialize)]
pub struct RandCase {
    pub a: NsSpec,
    pub b: NsSpec,
    /// random raw input: length 0..=40 and payload seed, shaped by `shape`
    pub raw_len: u8,
    pub raw_seed: u64,
    pub shape: u8,
    /// multi-byte corruption of `a`: (position selector, value)
    pub edits: Vec<(u16, u8)>,
    /// short id for the v0 shorthand
    pub short: Vec<u8>,
}

pub fn run(ctx: &mut Ctx) {
    ctx.assume("reference predicate, reserved bounds (0x00^28 0xff, 0xff^28 0x00) and base64 are written in the harness from the property statement");
    ctx.assume("the serde form is exercised through serde_json (the form used on the RPC); postcard is not exercised");
    ctx.essential(&[
        "accepted-v0-full",
        "accepted-v0-short",
        "accepted-v255",
        "rejected-version",
        "rejected-length",
        "grid-rejected-prefix",
        "one-byte-v0-prefix-rejected",
        "one-byte-v255-prefix-rejected",
        "one-byte-version-rejected",
        "reserved-boundary-primary",
        "reserved-boundary-secondary",
        "order-decided-in-last-10-bytes",
        "order-v0-vs-v255",
        "wire-version-above-255-rejected",
    ]);

    // ---- exhaustive grid: all versions x id lengths 0..=40 x fill shapes
    let mut grid = Vec::new();
    for version in 0..=255u8 {
        for len in 0..=40u8 {
            for fill in [Fill::Zeros, Fill::Ones, Fill::Pattern, Fill::V0Shape, Fill::V255Shape] {
                grid.push(GridCase { version, len, fill });
            }
        }
    }
    ctx.enumerate(
        "grid",
        "all 256 versions x every id length 0..=40 x 5 fill shapes (zeros, 0xff, pattern, v0-shaped, v255-shaped) through new/new_v0/new_v255/from_raw/JSON, compared with the reference predicate; accepted namespaces get every round trip. Non-trivial = version 0 or 255 (where the id decides) or id length 28 (distinct by version,len,fill)",
        true,
        grid,
        |c, obs| {
            let id = fill_bytes(c.fill, c.len as usize);
            let nt = c.version == 0 || c.version == 255 || c.len == 28;
            obs.eval(nt.then(|| digest_of(c)));
            check_constructors(obs, c.version, &id, "grid-")?;
            Ok(())
        },
    );

    // ---- exhaustive single-byte corruptions of the mandatory prefix (and of the version byte)
    let mut corr = Vec::new();
    for v255 in [false, true] {
        let last = if v255 { 27u8 } else { 18u8 };
        for base in 0..4u8 {
            let b = base_ns(v255, base);
            for pos in 0..=last {
                for val in 0..=255u8 {
                    if val != b[pos as usize] {
                        corr.push(CorruptCase { v255, base, pos, val });
                    }
                }
            }
        }
    }
    ctx.enumerate(
        "prefix-corruptions",
        "4 valid v0 and 4 valid v255 namespaces x every byte position of the version byte and of the mandatory prefix (18 bytes v0 / 27 bytes v255) x all 255 other byte values; each corrupted 29-byte string must be rejected by from_raw/new/new_v0/new_v255/JSON exactly when the reference predicate rejects it. Non-trivial = every case (all are one byte away from a valid namespace)",
        true,
        corr,
        |c, obs| {
            let base = base_ns(c.v255, c.base);
            // the uncorrupted base must be accepted (generator sanity, also exercised by the grid)
            if Namespace::from_raw(&base).is_err() {
                return Err(Failure::new("C14:valid-rejected", format!("base namespace {base:02x?} rejected")));
            }
            let mut raw = base;
            raw[c.pos as usize] = c.val;
            obs.eval(Some(digest_bytes(&raw)));
            let accepted = check_constructors(obs, raw[0], &raw[1..], "one-byte-")?;
            if c.pos == 0 {
                obs.label(if accepted { "one-byte-version-still-valid" } else { "one-byte-version-rejected" });
            } else if !accepted {
                obs.label(if c.v255 { "one-byte-v255-prefix-rejected" } else { "one-byte-v0-prefix-rejected" });
            } else {
                // a prefix corruption can never leave a valid namespace
                return Err(Failure::new("gen", format!("reference predicate accepted the prefix corruption {raw:02x?}")));
            }
            Ok(())
        },
    );

    // ---- the named constants
    ctx.enumerate(
        "constants",
        "the reserved-range constants are the byte strings the statement names",
        false,
        vec![0u8],
        |_, obs| {
            obs.eval(None);
            obs.check(Namespace::MAX_PRIMARY_RESERVED.as_bytes() == &MAX_PRIMARY[..], "C14:constants", || "MAX_PRIMARY_RESERVED != 0x00^28 0xff".into())?;
            obs.check(Namespace::MIN_SECONDARY_RESERVED.as_bytes() == &MIN_SECONDARY[..], "C14:constants", || "MIN_SECONDARY_RESERVED != 0xff^28 0x00".into())?;
            for (n, c) in [
                ("TRANSACTION", Namespace::TRANSACTION),
                ("PAY_FOR_BLOB", Namespace::PAY_FOR_BLOB),
                ("PRIMARY_RESERVED_PADDING", Namespace::PRIMARY_RESERVED_PADDING),
                ("TAIL_PADDING", Namespace::TAIL_PADDING),
                ("PARITY_SHARE", Namespace::PARITY_SHARE),
                ("MAX_PRIMARY_RESERVED", Namespace::MAX_PRIMARY_RESERVED),
                ("MIN_SECONDARY_RESERVED", Namespace::MIN_SECONDARY_RESERVED),
            ] {
                let b: [u8; NS] = c.as_bytes().try_into().unwrap();
                obs.check(ref_from_raw(&b).is_some(), "C14:constants", || format!("constant {n} is not a valid namespace"))?;
                check_accepted(obs, &c, &b, n)?;
                obs.check(c.is_reserved(), "C14:is-reserved", || format!("constant {n} is not reserved"))?;
            }
            Ok(())
        },
    );

    // ---- wire messages that carry the version as a 32-bit field
    let mut wire = Vec::new();
    for version in [0u32, 1, 254, 255, 256, 257, 511, 512, 0xff00, 0xffff, 0x1_0000, 0x1_00ff, 0x100_0000, 0xffff_ff00, u32::MAX] {
        for fill in [Fill::V0Shape, Fill::V255Shape, Fill::Zeros, Fill::Ones] {
            for len in [28u8, 10, 0] {
                wire.push((version, fill, len));
            }
        }
    }
    ctx.enumerate(
        "wire-version-field",
        "blob wire messages (namespace_version: u32, namespace_id: bytes) with versions around every multiple of 256 x id shapes: a Blob (hence a Namespace) may come out only if the version field itself is 0 or 255 and the id passes the reference predicate. Non-trivial = versions above 255",
        false,
        wire,
        |(version, fill, len), obs| {
            use celestia_types::consts::appconsts::AppVersion;
            let id = fill_bytes(*fill, *len as usize);
            obs.eval((*version > 255).then(|| digest_of(&(version, fill, len))));
            let raw = celestia_types::blob::RawBlob {
                namespace_id: id.clone(),
                namespace_version: *version,
                data: vec![1, 2, 3],
                share_version: 0,
                signer: vec![],
            };
            let want = u8::try_from(*version).ok().and_then(|v| ref_new(v, &id));
            match (celestia_types::Blob::from_raw(raw, AppVersion::V3), want) {
                (Ok(b), Some(w)) => {
                    obs.label("wire-version-accepted");
                    obs.check(b.namespace.as_bytes() == &w[..], "C14:constructed-bytes-differ", || format!("Blob::from_raw(version {version}, id {id:02x?}) built namespace {:02x?}", b.namespace.as_bytes()))?;
                }
                (Ok(b), None) if *version > 255 => {
                    obs.fail(
                        "C14:wire-version-truncated",
                        format!("Blob::from_raw accepted namespace_version {version} (id {id:02x?}) and built the version-{} namespace {:02x?}: the 32-bit version is cut to its low byte", b.namespace.version(), b.namespace.as_bytes()),
                    )?;
                }
                (Ok(b), None) => obs.fail("C14:constructed-invalid", format!("Blob::from_raw(version {version}, id {id:02x?}) built namespace {:02x?}", b.namespace.as_bytes()))?,
                // rejection is always allowed here (reserved namespaces are not blob namespaces)
                (Err(_), _) => obs.label(if *version > 255 { "wire-version-above-255-rejected" } else { "wire-version-rejected" }),
            }
            Ok(())
        },
    );

    // ---- random part: ordering, reserved boundary, random raw inputs, multi-byte corruptions
    let cases = ctx.tier.pick(2_000_000, 12_000_000);
    ctx.proptest(
        "random",
        "random pairs of valid namespaces (random / late-differing / low / v255 suffixes): cmp, partial_cmp, ==, <, <= agree with lexicographic order of the 29 bytes; is_reserved agrees with the byte rule; plus random raw inputs of length 0..=40 (shaped near-valid), multi-byte corruptions and v0 shorthands of length 0..=12 against the reference predicate. Non-trivial = pairs whose order is decided inside the last 10 bytes or across versions, namespaces within 2 of a reserved bound, near-valid raw inputs (distinct by bytes)",
        cases,
        || {
            (
                ns_spec_strategy(),
                ns_spec_strategy(),
                0u8..=40,
                any::<u64>(),
                0u8..6,
                prop::collection::vec((any::<u16>(), any::<u8>()), 1..4),
                prop::collection::vec(any::<u8>(), 0..=12),
            )
                .prop_map(|(a, b, raw_len, raw_seed, shape, edits, short)| RandCase { a, b, raw_len, raw_seed, shape, edits, short })
        },
        |c, obs| {
            let (ab, bb) = (c.a.bytes(), c.b.bytes());
            let mk = |b: &[u8; NS]| Namespace::from_raw(b).map_err(|e| Failure::new("C14:valid-rejected", format!("valid namespace {b:02x?} rejected: {e}")));
            let (a, b) = (mk(&ab)?, mk(&bb)?);
            // ordering
            let want = ab[..].cmp(&bb[..]);
            let first_diff = ab.iter().zip(bb.iter()).position(|(x, y)| x != y);
            let late = matches!(first_diff, Some(p) if p >= 19);
            let cross = ab[0] != bb[0];
            obs.eval((late || cross).then(|| digest_bytes(&[&ab[..], &bb[..]].concat())));
            if late {
                obs.label("order-decided-in-last-10-bytes");
            }
            if cross {
                obs.label("order-v0-vs-v255");
            }
            if first_diff.is_none() {
                obs.label("order-equal");
            }
            obs.check(a.cmp(&b) == want && b.cmp(&a) == want.reverse(), "C14:order-not-lexicographic", || {
                format!("cmp({ab:02x?}, {bb:02x?}) = {:?}, lexicographic byte order says {want:?}", a.cmp(&b))
            })?;
            obs.check(
                a.partial_cmp(&b) == Some(want) && (a == b) == (want == Ordering::Equal) && (a < b) == (want == Ordering::Less) && (a <= b) == (want != Ordering::Greater) && (a > b) == (want == Ordering::Greater) && (a >= b) == (want != Ordering::Less),
                "C14:order-not-lexicographic",
                || format!("comparison operators on ({ab:02x?}, {bb:02x?}) disagree with byte order {want:?}"),
            )?;
            // reserved
            for (ns, bytes) in [(&a, &ab), (&b, &bb)] {
                let near_primary = bytes[0] == 0 && bytes[1..27].iter().all(|x| *x == 0) && u16::from_be_bytes([bytes[27], bytes[28]]).abs_diff(0xff) <= 2;
                let near_secondary = bytes[0] == 0xff && (bytes[28] <= 2);
                let top_v0 = bytes[0] == 0 && bytes[19..].iter().all(|x| *x == 0xff);
                obs.eval((near_primary || near_secondary || top_v0).then(|| digest_bytes(bytes)));
                if near_primary {
                    obs.label("reserved-boundary-primary");
                }
                if near_secondary {
                    obs.label("reserved-boundary-secondary");
                }
                check_accepted(obs, ns, bytes, "random")?;
                obs.label(if ns.is_reserved() { "reserved" } else { "not-reserved" });
            }
            // random raw input near a valid shape
            let mut rng = lv_common::Prng::new(c.raw_seed);
            let len = c.raw_len as usize;
            let mut raw: Vec<u8> = match c.shape {
                0 => rng.bytes(len),
                1 => vec![0u8; len],
                2 => vec![0xffu8; len],
                3 => ab.iter().copied().chain(rng.bytes(40)).take(len).collect(),
                4 => bb.iter().copied().chain(std::iter::repeat(0)).take(len).collect(),
                _ => {
                    let mut v = vec![0u8; len];
                    if len > 19 {
                        rng.fill(&mut v[19..]);
                    }
                    v
                }
            };
            if c.shape == 5 && !raw.is_empty() && rng.below(4) == 0 {
                raw[0] = 0xff;
            }
            obs.eval((len == NS || c.shape >= 3).then(|| digest_bytes(&raw)));
            if raw.is_empty() {
                obs.check(Namespace::from_raw(&raw).is_err(), "C14:constructed-invalid", || "from_raw(empty) accepted".into())?;
                obs.label("rejected-length");
            } else {
                check_constructors(obs, raw[0], &raw[1..], "random-")?;
            }
            // multi-byte corruption of a
            let mut cor = ab;
            for (p, v) in &c.edits {
                cor[pick(*p, NS)] = *v;
            }
            if cor != ab {
                obs.eval(Some(digest_bytes(&cor)));
                let acc = check_constructors(obs, cor[0], &cor[1..], "multi-")?;
                obs.label(if acc { "multi-corruption-still-valid" } else { "multi-corruption-rejected" });
            }
            // v0 shorthand of length 0..=12
            obs.eval(Some(digest_bytes(&c.short) ^ 0x5507));
            check_constructors(obs, 0, &c.short, "short-")?;
            Ok(())
        },
    );
}
