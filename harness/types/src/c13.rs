//! C13 — Merkle, row and share proofs are position-binding and sound.
//!
//! Oracles (all on lv_gen::refs / lv_gen::proofrefs, sha2 only):
//!  * MerkleProof: accepted  =>  index < total, leaf hash matches, and the RFC-6962 recomputation for that
//!    (index, total) from the aunts yields the root; when total is the real leaf count and the root the real root,
//!    accepted => the presented leaf equals leaves[index]. Honest proofs (every index) must verify.
//!  * RowProof: honest proofs of every row range verify against dah.hash(); accepted => list lengths equal, the
//!    span end-start+1 (computed without wrapping) equals the number of roots, every (root, merkle proof) pair passes
//!    the reference, and (under the real hash) every proven root is a root of the DAH.
//!  * ShareProof: honest proofs (NMT range proofs built by the reference, row proofs by the DAH) verify;
//!    accepted => the row-proof conditions, one NMT proof per root, declared ranges non-empty and summing to the
//!    number of shares, and every chunk of presented shares is a contiguous run of real leaves (same namespace)
//!    of the axis with that root; an altered NMT inner node or merkle aunt of an honest proof => rejected.
//!    NOT asserted (DESIGN §7): that merkle indices of a row proof equal start_row+i, nor that the NMT range start
//!    equals the real column (the property does not state position binding for those).
use celestia_proto::celestia::core::v1::proof::{NmtProof as RawNmtProof, Proof as RawMerkleProof, RowProof as RawRowProof, ShareProof as RawShareProof};
use celestia_types::consts::appconsts::AppVersion;
use celestia_types::hash::Hash;
use celestia_types::nmt::NamespacedHashExt;
use celestia_types::{MerkleProof, RowProof, ShareProof};
use lv_common::prelude::*;
use lv_common::{Prng, no_panic};
use lv_gen::proofrefs::{Reject, axis_leaves, axis_nodes, ref_merkle_check, ref_nmt_range_proof, ref_row_proof_check};
use lv_gen::refs;
use lv_gen::square::{Square, SquareSpec, build_square, square_strategy, structured_square_strategy};
use prost::Message;

fn flip(v: &mut [u8], pos: usize, bit: u8) {
    if !v.is_empty() {
        let p = pos % v.len();
        v[p] ^= 1 << (bit % 8);
    }
}

// =================================================================================================== merkle

#[derive(Clone, Copy, Debug, Serialize, Deserialize)]
pub enum LeafKind {
    /// random bytes, length 0..=64
    Random,
    /// length 0..=1: many equal and empty leaves
    Short,
    /// three distinct values only
    Dups,
    /// 32-byte leaves (look like hashes)
    Fixed32,
}

#[derive(Clone, Debug, Serialize, Deserialize)]
pub enum MMut {
    Index(i64),
    IndexRel(i32),
    Total(i64),
    TotalRel(i32),
    TotalMul2,
    IndexAndTotal { di: i32, dt: i32 },
    AuntBit { i: u16, pos: u8, bit: u8 },
    AuntDrop { i: u16 },
    AuntDup { i: u16 },
    AuntSwap { i: u16, j: u16 },
    AuntReverse,
    AuntAppend([u8; 32]),
    AuntFromOther { i: u16, other: u16 },
    AuntsOfOther { other: u16 },
    LeafHashBit { pos: u8, bit: u8 },
    LeafBit { pos: u16, bit: u8 },
    LeafAppend(u8),
    LeafEmpty,
    /// present leaves[j] with the proof of i
    LeafOther { j: u16 },
    /// leaf and leaf_hash of j, index/total/aunts of i
    LeafAndHashOther { j: u16 },
    RootBit { pos: u8, bit: u8 },
    ShortHash,
}

#[derive(Clone, Debug, Serialize, Deserialize)]
pub struct MCase {
    pub n: u16,
    pub kind: LeafKind,
    pub seed: u64,
    pub idx: Vec<u16>,
    pub muts: Vec<MMut>,
}

fn mmut_strategy() -> impl Strategy<Value = MMut> {
    let big = prop_oneof![Just(i64::MAX), Just(u32::MAX as i64), Just(u32::MAX as i64 + 1), Just(-1i64), Just(0i64), Just(1i64), Just(i64::MIN), any::<i64>()];
    prop_oneof![
        2 => big.clone().prop_map(MMut::Index),
        3 => (-4i32..=300).prop_map(MMut::IndexRel),
        2 => big.prop_map(MMut::Total),
        3 => (-3i32..=3).prop_map(MMut::TotalRel),
        1 => Just(MMut::TotalMul2),
        2 => (-3i32..=3, -3i32..=3).prop_map(|(di, dt)| MMut::IndexAndTotal { di, dt }),
        3 => (any::<u16>(), 0u8..32, 0u8..8).prop_map(|(i, pos, bit)| MMut::AuntBit { i, pos, bit }),
        2 => any::<u16>().prop_map(|i| MMut::AuntDrop { i }),
        2 => any::<u16>().prop_map(|i| MMut::AuntDup { i }),
        2 => (any::<u16>(), any::<u16>()).prop_map(|(i, j)| MMut::AuntSwap { i, j }),
        1 => Just(MMut::AuntReverse),
        1 => any::<[u8; 32]>().prop_map(MMut::AuntAppend),
        2 => (any::<u16>(), any::<u16>()).prop_map(|(i, other)| MMut::AuntFromOther { i, other }),
        2 => any::<u16>().prop_map(|other| MMut::AuntsOfOther { other }),
        2 => (0u8..32, 0u8..8).prop_map(|(pos, bit)| MMut::LeafHashBit { pos, bit }),
        2 => (any::<u16>(), 0u8..8).prop_map(|(pos, bit)| MMut::LeafBit { pos, bit }),
        1 => any::<u8>().prop_map(MMut::LeafAppend),
        1 => Just(MMut::LeafEmpty),
        2 => any::<u16>().prop_map(|j| MMut::LeafOther { j }),
        2 => any::<u16>().prop_map(|j| MMut::LeafAndHashOther { j }),
        2 => (0u8..32, 0u8..8).prop_map(|(pos, bit)| MMut::RootBit { pos, bit }),
        1 => Just(MMut::ShortHash),
    ]
}

fn make_leaves(n: usize, kind: LeafKind, seed: u64) -> Vec<Vec<u8>> {
    let mut rng = Prng::new(seed);
    let pool: Vec<Vec<u8>> = (0..3).map(|_| rng.bytes(5)).collect();
    (0..n)
        .map(|_| match kind {
            LeafKind::Random => {
                let l = rng.below(65) as usize;
                rng.bytes(l)
            }
            LeafKind::Short => {
                let l = rng.below(2) as usize;
                rng.bytes(l).iter().map(|b| b & 1).collect()
            }
            LeafKind::Dups => pool[rng.below(3) as usize].clone(),
            LeafKind::Fixed32 => rng.bytes(32),
        })
        .collect()
}

struct Tree {
    leaves: Vec<Vec<u8>>,
    root: [u8; 32],
}

fn honest_raw(t: &Tree, i: usize) -> RawMerkleProof {
    RawMerkleProof {
        total: t.leaves.len() as i64,
        index: i as i64,
        leaf_hash: refs::rfc_leaf(&t.leaves[i]).to_vec(),
        aunts: refs::rfc_proof(&t.leaves, i).into_iter().map(|a| a.to_vec()).collect(),
    }
}

/// Judge one (proof, leaf, root) triple against the reference.
fn judge_merkle(obs: &mut Obs, t: &Tree, raw: &RawMerkleProof, leaf: &[u8], root: [u8; 32], honest_index: usize, label: &str, changed: bool) -> Result<(), Failure> {
    let d = digest_bytes(&raw.encode_to_vec()) ^ digest_bytes(leaf).rotate_left(17) ^ digest_bytes(&root).rotate_left(41);
    obs.eval(changed.then_some(d));
    obs.label(label);
    let wellformed = raw.index >= 0 && raw.total > 0;
    if wellformed && raw.index >= raw.total {
        obs.label("index>=total");
    } else if wellformed && raw.index != honest_index as i64 {
        obs.label("wrong-index<total");
    }
    if wellformed && raw.total != t.leaves.len() as i64 {
        obs.label("wrong-total");
    }
    let p = match MerkleProof::try_from(raw.clone()) {
        Ok(p) => p,
        Err(_) => {
            obs.label("merkle-decode-rejected");
            return Ok(());
        }
    };
    let accepted = match no_panic(|| p.verify(leaf, root).is_ok()) {
        Ok(a) => a,
        Err(rec) => {
            obs.label("panicked-instead-of-rejecting");
            obs.note(format!("MerkleProof::verify panicked on an adversarial proof (treated as not accepted; never-panics is C16's): {rec}"));
            false
        }
    };
    let reference = ref_merkle_check(raw, leaf, &root);
    if accepted {
        obs.label("merkle-accepted");
        let what = || format!("index={} total={} aunts={} (real tree: {} leaves, honest index {honest_index}), mutation {label}", raw.index, raw.total, raw.aunts.len(), t.leaves.len());
        match &reference {
            Ok(()) => {}
            Err(Reject::IndexGeTotal) => obs.fail("C13:merkle-index-ge-total", format!("MerkleProof::verify accepted a proof whose index is not below its leaf count: {}", what()))?,
            Err(r) => obs.fail("C13:merkle-accepts-unsound-proof", format!("MerkleProof::verify accepted a proof the RFC-6962 reference rejects ({r:?}): {}", what()))?,
        }
        // position binding against the real tree (independent of the reference recomputation)
        if raw.total == t.leaves.len() as i64 && root == t.root && raw.index >= 0 && (raw.index as usize) < t.leaves.len() && t.leaves[raw.index as usize] != leaf {
            obs.fail("C13:merkle-position-not-bound", format!("accepted leaf is not the leaf at the proof's index of the real tree: {}", what()))?;
        }
    } else if reference.is_ok() {
        // not required by the property for mutated proofs; honest ones are asserted by the caller
        obs.label("reference-valid-but-rejected");
    }
    if !changed && !accepted {
        obs.fail("C13:merkle-honest-rejected", format!("honest proof for index {honest_index} of {} leaves rejected", t.leaves.len()))?;
    }
    Ok(())
}

fn check_merkle(case: &MCase, obs: &mut Obs) -> Result<(), Failure> {
    let n = case.n.max(1) as usize;
    let leaves = make_leaves(n, case.kind, case.seed);
    let t = Tree { root: refs::rfc_root(&leaves), leaves };
    let indices: Vec<usize> = if n <= 64 {
        (0..n).collect()
    } else {
        let mut v: Vec<usize> = case.idx.iter().map(|s| pick(*s, n)).collect();
        v.extend([0, n - 1, refs::split_point(n) - 1, refs::split_point(n)]);
        v.sort();
        v.dedup();
        v
    };
    obs.label(if n <= 64 { "tree<=64-every-index" } else { "tree>64-sampled-indices" });
    for &i in &indices {
        let honest = honest_raw(&t, i);
        // the code's own prover agrees with the reference
        match MerkleProof::new(i, &t.leaves) {
            Ok((p, root)) => {
                let same = root == t.root && RawMerkleProof::from(p) == honest;
                obs.check(same, "C13:merkle-new-differs-from-rfc6962", || format!("MerkleProof::new({i}, {n} leaves) differs from the RFC-6962 reference proof/root"))?;
            }
            Err(e) => obs.fail("C13:merkle-new-failed", format!("MerkleProof::new({i}, {n} leaves) failed: {e}"))?,
        }
        judge_merkle(obs, &t, &honest, &t.leaves[i], t.root, i, "honest", false)?;

        // systematic: index and total
        let mut idx_vals: Vec<i64> = if n <= 64 { (0..2 * n as i64 + 2).collect() } else { vec![0, i as i64 + 1, i as i64 - 1, n as i64 - 1, n as i64, n as i64 + 1, 2 * n as i64] };
        idx_vals.extend([u32::MAX as i64, i64::MAX]);
        // aliases: same low bits beyond the tree
        idx_vals.extend([i as i64 + refs::round_up_pow2(n as u64) as i64, i as i64 + 2 * refs::round_up_pow2(n as u64) as i64, i as i64 + n as i64]);
        for v in idx_vals {
            if v == i as i64 || v < 0 {
                continue;
            }
            let mut r = honest.clone();
            r.index = v;
            judge_merkle(obs, &t, &r, &t.leaves[i], t.root, i, "sys-index", true)?;
        }
        for v in [n as i64 - 1, n as i64 + 1, 2 * n as i64, 1, refs::round_up_pow2(n as u64) as i64, i as i64, i as i64 + 1, u32::MAX as i64 + 1, i64::MAX, 0, -1] {
            if v == n as i64 {
                continue;
            }
            let mut r = honest.clone();
            r.total = v;
            judge_merkle(obs, &t, &r, &t.leaves[i], t.root, i, "sys-total", true)?;
        }
        // every other leaf presented with this proof (small trees)
        if n <= 16 {
            for j in 0..n {
                if t.leaves[j] != t.leaves[i] {
                    judge_merkle(obs, &t, &honest, &t.leaves[j], t.root, i, "sys-other-leaf", true)?;
                }
            }
        }
        // generated mutations
        for m in &case.muts {
            let mut r = honest.clone();
            let mut leaf = t.leaves[i].clone();
            let mut root = t.root;
            let label: &str;
            match m {
                MMut::Index(v) => {
                    r.index = *v;
                    label = "index-abs";
                }
                MMut::IndexRel(d) => {
                    r.index += *d as i64;
                    label = "index-rel";
                }
                MMut::Total(v) => {
                    r.total = *v;
                    label = "total-abs";
                }
                MMut::TotalRel(d) => {
                    r.total += *d as i64;
                    label = "total-rel";
                }
                MMut::TotalMul2 => {
                    r.total *= 2;
                    label = "total-x2";
                }
                MMut::IndexAndTotal { di, dt } => {
                    r.index += *di as i64;
                    r.total += *dt as i64;
                    label = "index-and-total";
                }
                MMut::AuntBit { i: a, pos, bit } => {
                    if r.aunts.is_empty() {
                        continue;
                    }
                    let k = pick(*a, r.aunts.len());
                    flip(&mut r.aunts[k], *pos as usize, *bit);
                    label = "aunt-altered";
                }
                MMut::AuntDrop { i: a } => {
                    if r.aunts.is_empty() {
                        continue;
                    }
                    let k = pick(*a, r.aunts.len());
                    r.aunts.remove(k);
                    label = "aunt-dropped";
                }
                MMut::AuntDup { i: a } => {
                    if r.aunts.is_empty() {
                        continue;
                    }
                    let k = pick(*a, r.aunts.len());
                    let x = r.aunts[k].clone();
                    r.aunts.insert(k, x);
                    label = "aunt-duplicated";
                }
                MMut::AuntSwap { i: a, j: b } => {
                    if r.aunts.len() < 2 {
                        continue;
                    }
                    let (x, y) = (pick(*a, r.aunts.len()), pick(*b, r.aunts.len()));
                    r.aunts.swap(x, y);
                    label = "aunts-reordered";
                }
                MMut::AuntReverse => {
                    r.aunts.reverse();
                    label = "aunts-reordered";
                }
                MMut::AuntAppend(x) => {
                    r.aunts.push(x.to_vec());
                    label = "aunt-appended";
                }
                MMut::AuntFromOther { i: a, other } => {
                    let o = honest_raw(&t, pick(*other, n));
                    if r.aunts.is_empty() || o.aunts.is_empty() {
                        continue;
                    }
                    let k = pick(*a, r.aunts.len().min(o.aunts.len()));
                    r.aunts[k] = o.aunts[k].clone();
                    label = "aunt-from-other-proof";
                }
                MMut::AuntsOfOther { other } => {
                    r.aunts = honest_raw(&t, pick(*other, n)).aunts;
                    label = "aunts-of-other-proof";
                }
                MMut::LeafHashBit { pos, bit } => {
                    flip(&mut r.leaf_hash, *pos as usize, *bit);
                    label = "leaf-hash-altered";
                }
                MMut::LeafBit { pos, bit } => {
                    if leaf.is_empty() {
                        continue;
                    }
                    flip(&mut leaf, *pos as usize, *bit);
                    label = "leaf-altered";
                }
                MMut::LeafAppend(x) => {
                    leaf.push(*x);
                    label = "leaf-altered";
                }
                MMut::LeafEmpty => {
                    leaf.clear();
                    label = "leaf-altered";
                }
                MMut::LeafOther { j } => {
                    leaf = t.leaves[pick(*j, n)].clone();
                    label = "other-leaf-same-proof";
                }
                MMut::LeafAndHashOther { j } => {
                    leaf = t.leaves[pick(*j, n)].clone();
                    r.leaf_hash = refs::rfc_leaf(&leaf).to_vec();
                    label = "other-leaf-and-hash";
                }
                MMut::RootBit { pos, bit } => {
                    flip(&mut root, *pos as usize, *bit);
                    label = "root-altered";
                }
                MMut::ShortHash => {
                    r.leaf_hash.pop();
                    label = "short-hash";
                }
            }
            let changed = r != honest || leaf != t.leaves[i] || root != t.root;
            if !changed {
                obs.label("noop-mutation-skipped");
                continue;
            }
            judge_merkle(obs, &t, &r, &leaf, root, i, label, true)?;
        }
    }
    Ok(())
}

// =================================================================================================== row proofs

#[derive(Clone, Debug, Serialize, Deserialize)]
pub enum RMut {
    AlterRoot { i: u16, pos: u8, bit: u8 },
    AlterAunt { i: u16, j: u16, pos: u8, bit: u8 },
    AlterLeafHash { i: u16, pos: u8, bit: u8 },
    DropRoot { i: u16 },
    DropProof { i: u16 },
    DropPair { i: u16 },
    DupPair { i: u16 },
    ShiftStart(i8),
    ShiftEnd(i8),
    ShiftBoth(i8),
    SetSpan { start: u32, end: u32 },
    SwapRoots { i: u16, j: u16 },
    SwapPairs { i: u16, j: u16 },
    /// root i replaced by the root of another row (proof kept)
    RootOfOtherRow { i: u16, row: u16 },
    /// root and proof i replaced by the consistent pair of another row / of a column
    PairOfOtherRow { i: u16, row: u16 },
    PairOfColumn { i: u16, col: u16 },
    MerkleIndex { i: u16, index: i64 },
    MerkleTotal { i: u16, total: i64 },
    HashBit { pos: u8, bit: u8 },
    HashNone,
    /// the whole proof taken from another square
    OtherSquare,
    /// start 0, end 65535, no roots, no proofs
    Empty65535,
    EmptyLists,
}

fn rmut_strategy() -> impl Strategy<Value = RMut> {
    prop_oneof![
        4 => (any::<u16>(), 0u8..90, 0u8..8).prop_map(|(i, pos, bit)| RMut::AlterRoot { i, pos, bit }),
        4 => (any::<u16>(), any::<u16>(), 0u8..32, 0u8..8).prop_map(|(i, j, pos, bit)| RMut::AlterAunt { i, j, pos, bit }),
        2 => (any::<u16>(), 0u8..32, 0u8..8).prop_map(|(i, pos, bit)| RMut::AlterLeafHash { i, pos, bit }),
        2 => any::<u16>().prop_map(|i| RMut::DropRoot { i }),
        2 => any::<u16>().prop_map(|i| RMut::DropProof { i }),
        3 => any::<u16>().prop_map(|i| RMut::DropPair { i }),
        2 => any::<u16>().prop_map(|i| RMut::DupPair { i }),
        2 => (-3i8..=3).prop_map(RMut::ShiftStart),
        2 => (-3i8..=3).prop_map(RMut::ShiftEnd),
        1 => (-3i8..=3).prop_map(RMut::ShiftBoth),
        2 => (prop_oneof![0u32..40, Just(65535u32), Just(65536u32), any::<u32>()], prop_oneof![0u32..40, Just(65535u32), Just(65536u32), any::<u32>()]).prop_map(|(start, end)| RMut::SetSpan { start, end }),
        2 => (any::<u16>(), any::<u16>()).prop_map(|(i, j)| RMut::SwapRoots { i, j }),
        1 => (any::<u16>(), any::<u16>()).prop_map(|(i, j)| RMut::SwapPairs { i, j }),
        2 => (any::<u16>(), any::<u16>()).prop_map(|(i, row)| RMut::RootOfOtherRow { i, row }),
        1 => (any::<u16>(), any::<u16>()).prop_map(|(i, row)| RMut::PairOfOtherRow { i, row }),
        1 => (any::<u16>(), any::<u16>()).prop_map(|(i, col)| RMut::PairOfColumn { i, col }),
        2 => (any::<u16>(), prop_oneof![0i64..140, Just(i64::MAX), Just(u32::MAX as i64)]).prop_map(|(i, index)| RMut::MerkleIndex { i, index }),
        2 => (any::<u16>(), prop_oneof![1i64..140, Just(i64::MAX), Just(u32::MAX as i64 + 1)]).prop_map(|(i, total)| RMut::MerkleTotal { i, total }),
        2 => (0u8..32, 0u8..8).prop_map(|(pos, bit)| RMut::HashBit { pos, bit }),
        1 => Just(RMut::HashNone),
        1 => Just(RMut::OtherSquare),
        1 => Just(RMut::Empty65535),
        1 => Just(RMut::EmptyLists),
    ]
}

struct RowTruth<'a> {
    sq: &'a Square,
    other: Option<&'a Square>,
    /// row roots then column roots, raw 90-byte encodings
    all_roots: Vec<Vec<u8>>,
    hash: [u8; 32],
}

fn row_truth<'a>(sq: &'a Square, other: Option<&'a Square>) -> Result<RowTruth<'a>, Failure> {
    let all_roots: Vec<Vec<u8>> = sq.dah.row_roots().iter().chain(sq.dah.column_roots()).map(|r| r.to_array().to_vec()).collect();
    let Hash::Sha256(hash) = sq.dah.hash() else { return Err(Failure::new("gen", "dah.hash() is None")) };
    // the DAH hash itself against the reference (RFC-6962 over row then column roots)
    if refs::rfc_root(&all_roots) != hash {
        return Err(Failure::new("C13:dah-hash-differs-from-rfc6962", "DataAvailabilityHeader::hash differs from the RFC-6962 root over row and column roots"));
    }
    Ok(RowTruth { sq, other, all_roots, hash })
}

fn pair_of(t: &RowTruth, leaf_index: usize) -> (Vec<u8>, RawMerkleProof) {
    let r = t.all_roots[leaf_index].clone();
    let p = RawMerkleProof {
        total: t.all_roots.len() as i64,
        index: leaf_index as i64,
        leaf_hash: refs::rfc_leaf(&r).to_vec(),
        aunts: refs::rfc_proof(&t.all_roots, leaf_index).into_iter().map(|a| a.to_vec()).collect(),
    };
    (r, p)
}

/// Apply a row-proof mutation; None when it does not apply to this proof.
fn apply_rmut(raw: &mut RawRowProof, root: &mut Option<[u8; 32]>, m: &RMut, t: &RowTruth) -> Option<&'static str> {
    let n = raw.row_roots.len();
    let w = t.sq.dah.row_roots().len();
    Some(match m {
        RMut::AlterRoot { i, pos, bit } => {
            if n == 0 {
                return None;
            }
            let k = pick(*i, n);
            flip(&mut raw.row_roots[k], *pos as usize, *bit);
            "row:root-altered"
        }
        RMut::AlterAunt { i, j, pos, bit } => {
            if raw.proofs.is_empty() {
                return None;
            }
            let k = pick(*i, raw.proofs.len());
            if raw.proofs[k].aunts.is_empty() {
                return None;
            }
            let a = pick(*j, raw.proofs[k].aunts.len());
            flip(&mut raw.proofs[k].aunts[a], *pos as usize, *bit);
            "row:inner-node-altered"
        }
        RMut::AlterLeafHash { i, pos, bit } => {
            if raw.proofs.is_empty() {
                return None;
            }
            let k = pick(*i, raw.proofs.len());
            flip(&mut raw.proofs[k].leaf_hash, *pos as usize, *bit);
            "row:leaf-hash-altered"
        }
        RMut::DropRoot { i } => {
            if n == 0 {
                return None;
            }
            raw.row_roots.remove(pick(*i, n));
            "row:root-dropped"
        }
        RMut::DropProof { i } => {
            if raw.proofs.is_empty() {
                return None;
            }
            let k = pick(*i, raw.proofs.len());
            raw.proofs.remove(k);
            "row:proof-dropped"
        }
        RMut::DropPair { i } => {
            if n == 0 || raw.proofs.len() != n {
                return None;
            }
            let k = pick(*i, n);
            raw.row_roots.remove(k);
            raw.proofs.remove(k);
            "row:pair-dropped-span-kept"
        }
        RMut::DupPair { i } => {
            if n == 0 || raw.proofs.len() != n {
                return None;
            }
            let k = pick(*i, n);
            let (r, p) = (raw.row_roots[k].clone(), raw.proofs[k].clone());
            raw.row_roots.insert(k, r);
            raw.proofs.insert(k, p);
            "row:pair-duplicated-span-kept"
        }
        RMut::ShiftStart(d) => {
            if *d == 0 {
                return None;
            }
            raw.start_row = (raw.start_row as i64 + *d as i64).max(0) as u32;
            "row:start-shifted"
        }
        RMut::ShiftEnd(d) => {
            if *d == 0 {
                return None;
            }
            raw.end_row = (raw.end_row as i64 + *d as i64).max(0) as u32;
            "row:end-shifted"
        }
        RMut::ShiftBoth(d) => {
            if *d == 0 || (raw.start_row as i64 + *d as i64) < 0 {
                return None;
            }
            raw.start_row = (raw.start_row as i64 + *d as i64) as u32;
            raw.end_row = (raw.end_row as i64 + *d as i64) as u32;
            "row:both-shifted-span-kept"
        }
        RMut::SetSpan { start, end } => {
            raw.start_row = *start;
            raw.end_row = *end;
            "row:span-set"
        }
        RMut::SwapRoots { i, j } => {
            if n < 2 {
                return None;
            }
            raw.row_roots.swap(pick(*i, n), pick(*j, n));
            "row:roots-swapped"
        }
        RMut::SwapPairs { i, j } => {
            if n < 2 || raw.proofs.len() != n {
                return None;
            }
            let (a, b) = (pick(*i, n), pick(*j, n));
            raw.row_roots.swap(a, b);
            raw.proofs.swap(a, b);
            "row:pairs-swapped"
        }
        RMut::RootOfOtherRow { i, row } => {
            if n == 0 {
                return None;
            }
            raw.row_roots[pick(*i, n)] = t.all_roots[pick(*row, w)].clone();
            "row:root-of-other-row"
        }
        RMut::PairOfOtherRow { i, row } => {
            if n == 0 || raw.proofs.len() != n {
                return None;
            }
            let k = pick(*i, n);
            let (r, p) = pair_of(t, pick(*row, w));
            raw.row_roots[k] = r;
            raw.proofs[k] = p;
            "row:consistent-pair-of-other-row"
        }
        RMut::PairOfColumn { i, col } => {
            if n == 0 || raw.proofs.len() != n {
                return None;
            }
            let k = pick(*i, n);
            let (r, p) = pair_of(t, w + pick(*col, w));
            raw.row_roots[k] = r;
            raw.proofs[k] = p;
            "row:consistent-pair-of-column"
        }
        RMut::MerkleIndex { i, index } => {
            if raw.proofs.is_empty() {
                return None;
            }
            let k = pick(*i, raw.proofs.len());
            raw.proofs[k].index = *index;
            "row:merkle-index"
        }
        RMut::MerkleTotal { i, total } => {
            if raw.proofs.is_empty() {
                return None;
            }
            let k = pick(*i, raw.proofs.len());
            raw.proofs[k].total = *total;
            "row:merkle-total"
        }
        RMut::HashBit { pos, bit } => {
            let mut h = (*root)?;
            flip(&mut h, *pos as usize, *bit);
            *root = Some(h);
            "row:data-hash-altered"
        }
        RMut::HashNone => {
            *root = None;
            "row:data-hash-none"
        }
        RMut::OtherSquare => {
            let o = t.other?;
            let ow = o.dah.row_roots().len() as u16;
            let e = (raw.end_row.min(ow as u32 - 1)) as u16;
            let s = (raw.start_row as u16).min(e);
            *raw = RawRowProof::from(o.dah.row_proof(s..=e).ok()?);
            "row:proof-of-other-square"
        }
        RMut::Empty65535 => {
            *raw = RawRowProof { row_roots: vec![], proofs: vec![], root: vec![], start_row: 0, end_row: 65535 };
            "row:empty-0..65535"
        }
        RMut::EmptyLists => {
            raw.row_roots.clear();
            raw.proofs.clear();
            "row:lists-emptied"
        }
    })
}

fn row_reject_sig(r: &Reject) -> &'static str {
    match r {
        Reject::Span | Reject::ListLengths => "C13:rowproof-span-mismatch-accepted",
        Reject::IndexGeTotal => "C13:merkle-index-ge-total",
        _ => "C13:rowproof-accepts-unsound-proof",
    }
}

/// Judge a (possibly mutated) row proof against `root`. Returns whether it was accepted.
fn judge_row(obs: &mut Obs, t: &RowTruth, raw: &RawRowProof, root: Option<[u8; 32]>, label: &str, changed: bool) -> Result<bool, Failure> {
    let d = digest_bytes(&raw.encode_to_vec()) ^ root.map(|r| digest_bytes(&r)).unwrap_or(7).rotate_left(29);
    obs.eval(changed.then_some(d));
    obs.label(label);
    let reference = ref_row_proof_check(raw, root.as_ref());
    if changed && matches!(reference, Err(Reject::Span | Reject::ListLengths)) {
        obs.label("span/roots-mismatch");
    }
    let p = match RowProof::try_from(raw.clone()) {
        Ok(p) => p,
        Err(_) => {
            obs.label("row-decode-rejected");
            return Ok(false);
        }
    };
    let hash = root.map(Hash::Sha256).unwrap_or(Hash::None);
    let what = || format!("start_row={} end_row={} roots={} proofs={} ({label}; DAH width {})", raw.start_row, raw.end_row, raw.row_roots.len(), raw.proofs.len(), t.sq.dah.row_roots().len());
    let accepted = match no_panic(|| p.verify(hash).is_ok()) {
        Ok(a) => a,
        Err(rec) => {
            if rec.contains("overflow") && rec.contains("data_availability_header") {
                // with overflow checks off the same arithmetic wraps and the span test passes
                obs.fail(
                    "C13:rowproof-span-u16-overflow",
                    format!("RowProof::verify overflowed computing end_row - start_row + 1 in u16 ({rec}); in builds without overflow checks the span wraps to 0 and an empty proof is accepted for 65536 rows: {}", what()),
                )?;
            } else {
                obs.label("panicked-instead-of-rejecting");
                obs.note(format!("RowProof::verify panicked on an adversarial proof (treated as not accepted; never-panics is C16's): {rec}"));
            }
            false
        }
    };
    if accepted {
        if changed {
            obs.label("row-mutant-accepted");
        }
        if let Err(r) = &reference {
            obs.fail(row_reject_sig(r), format!("RowProof::verify accepted a proof the reference rejects ({r:?}): {}", what()))?;
        }
        if root == Some(t.hash) {
            if let Some(bad) = raw.row_roots.iter().position(|r| !t.all_roots.contains(r)) {
                obs.fail("C13:rowproof-proves-foreign-root", format!("accepted row proof contains root #{bad} that is not a root of the DAH: {}", what()))?;
            }
        }
    } else if !changed {
        obs.fail("C13:rowproof-honest-rejected", format!("honest row proof rejected: {}", what()))?;
    }
    Ok(accepted)
}

#[derive(Clone, Debug, Serialize, Deserialize)]
pub struct RCase {
    pub square: SquareSpec,
    pub other: SquareSpec,
    pub ranges: Vec<(u16, u16)>,
    pub muts: Vec<RMut>,
}

fn check_rows(case: &RCase, obs: &mut Obs) -> Result<(), Failure> {
    let sq = build_square(&case.square, AppVersion::V3);
    let other = build_square(&case.other, AppVersion::V3);
    let t = row_truth(&sq, Some(&other))?;
    let w = sq.dah.row_roots().len() as u16;
    obs.label(&format!("dah-width-{w}"));
    let all_ranges = w <= obs.tier.pick(16, 32);
    let sampled: Vec<(u16, u16)> = case
        .ranges
        .iter()
        .map(|(a, b)| {
            let (a, b) = (pick(*a, w as usize) as u16, pick(*b, w as usize) as u16);
            (a.min(b), a.max(b))
        })
        .collect();
    let mut ranges: Vec<(u16, u16)> = if all_ranges { (0..w).flat_map(|s| (s..w).map(move |e| (s, e))).collect() } else { sampled.clone() };
    if !all_ranges {
        ranges.extend([(0, 0), (0, w - 1), (w - 1, w - 1), (w / 2 - 1, w / 2)]);
    }
    ranges.sort();
    ranges.dedup();
    obs.label(if all_ranges { "every-row-range" } else { "sampled-row-ranges" });
    for (ri, &(s, e)) in ranges.iter().enumerate() {
        let p = match sq.dah.row_proof(s..=e) {
            Ok(p) => p,
            Err(err) => {
                obs.fail("C13:row-proof-build-failed", format!("dah.row_proof({s}..={e}) failed on a DAH of width {w}: {err}"))?;
                continue;
            }
        };
        // directly, as built
        obs.eval(None);
        obs.label("row:honest-direct");
        if let Err(err) = p.verify(sq.dah.hash()) {
            obs.fail("C13:rowproof-honest-rejected", format!("dah.row_proof({s}..={e}).verify(dah.hash()) failed (width {w}): {err}"))?;
        }
        let honest = RawRowProof::from(p);
        if e > s {
            obs.label("row:multi-row-range");
        }
        // through the wire form, judged by the reference too
        judge_row(obs, &t, &honest, Some(t.hash), "row:honest", false)?;
        // mutations: on the sampled ranges (all ranges of small DAHs, every 7th otherwise)
        let mutate_here = w <= 4 || sampled.contains(&(s, e)) || ri % 7 == 0;
        if !mutate_here {
            continue;
        }
        // systematic: one-sided span changes, dropped last pair
        let sys = [RMut::ShiftEnd(1), RMut::ShiftEnd(-1), RMut::ShiftStart(1), RMut::ShiftStart(-1), RMut::DropPair { i: 65535 }, RMut::DropRoot { i: 0 }, RMut::DropProof { i: 65535 }];
        for m in sys.iter().chain(case.muts.iter()) {
            let mut raw = honest.clone();
            let mut root = Some(t.hash);
            let Some(label) = apply_rmut(&mut raw, &mut root, m, &t) else { continue };
            if raw == honest && root == Some(t.hash) {
                obs.label("noop-mutation-skipped");
                continue;
            }
            judge_row(obs, &t, &raw, root, label, true)?;
        }
    }
    // once per DAH: the (0, 65535) empty proof
    let mut raw = RawRowProof::default();
    let mut root = Some(t.hash);
    let label = apply_rmut(&mut raw, &mut root, &RMut::Empty65535, &t).unwrap();
    judge_row(obs, &t, &raw, root, label, true)?;
    Ok(())
}

// =================================================================================================== share proofs

#[derive(Clone, Debug, Serialize, Deserialize)]
pub enum SMut {
    AlterShare { i: u16, pos: u16, bit: u8 },
    SwapShares { i: u16, j: u16 },
    DropShare { i: u16 },
    DupShare { i: u16 },
    /// share i replaced by the share at ODS position (r, c)
    ShareFromElsewhere { i: u16, r: u16, c: u16 },
    AlterNmtNode { p: u16, i: u16, pos: u8, bit: u8 },
    DropNmtNode { p: u16, i: u16 },
    DupNmtNode { p: u16, i: u16 },
    SwapNmtNodes { p: u16, i: u16, j: u16 },
    ShiftNmtRange { p: u16, ds: i8, de: i8 },
    HugeNmtRanges,
    DropShareProof { p: u16 },
    DupShareProof { p: u16 },
    AbsenceLeaf { p: u16 },
    NamespaceBit { pos: u8, bit: u8 },
    NamespaceVersion(u32),
    Row(RMut),
    NoRowProof,
}

fn smut_strategy() -> impl Strategy<Value = SMut> {
    prop_oneof![
        5 => (any::<u16>(), 0u16..512, 0u8..8).prop_map(|(i, pos, bit)| SMut::AlterShare { i, pos, bit }),
        2 => (any::<u16>(), any::<u16>()).prop_map(|(i, j)| SMut::SwapShares { i, j }),
        2 => any::<u16>().prop_map(|i| SMut::DropShare { i }),
        1 => any::<u16>().prop_map(|i| SMut::DupShare { i }),
        2 => (any::<u16>(), any::<u16>(), any::<u16>()).prop_map(|(i, r, c)| SMut::ShareFromElsewhere { i, r, c }),
        5 => (any::<u16>(), any::<u16>(), 0u8..90, 0u8..8).prop_map(|(p, i, pos, bit)| SMut::AlterNmtNode { p, i, pos, bit }),
        2 => (any::<u16>(), any::<u16>()).prop_map(|(p, i)| SMut::DropNmtNode { p, i }),
        1 => (any::<u16>(), any::<u16>()).prop_map(|(p, i)| SMut::DupNmtNode { p, i }),
        1 => (any::<u16>(), any::<u16>(), any::<u16>()).prop_map(|(p, i, j)| SMut::SwapNmtNodes { p, i, j }),
        4 => (any::<u16>(), -2i8..=2, -2i8..=2).prop_map(|(p, ds, de)| SMut::ShiftNmtRange { p, ds, de }),
        1 => Just(SMut::HugeNmtRanges),
        2 => any::<u16>().prop_map(|p| SMut::DropShareProof { p }),
        1 => any::<u16>().prop_map(|p| SMut::DupShareProof { p }),
        1 => any::<u16>().prop_map(|p| SMut::AbsenceLeaf { p }),
        2 => (0u8..28, 0u8..8).prop_map(|(pos, bit)| SMut::NamespaceBit { pos, bit }),
        1 => prop_oneof![Just(255u32), Just(1u32), Just(256u32)].prop_map(SMut::NamespaceVersion),
        8 => rmut_strategy().prop_map(SMut::Row),
        1 => Just(SMut::NoRowProof),
    ]
}

#[derive(Clone, Debug, Serialize, Deserialize)]
pub struct SCase {
    pub square: SquareSpec,
    pub other: SquareSpec,
    /// (namespace run selector, start selector, end selector)
    pub picks: Vec<(u16, u16, u16)>,
    pub muts: Vec<SMut>,
}

/// maximal runs of equal-namespace shares in the row-major ODS
fn ns_runs(sq: &Square) -> Vec<(usize, usize)> {
    let mut out = Vec::new();
    let mut s = 0;
    for i in 1..=sq.ods.len() {
        if i == sq.ods.len() || sq.ods[i][..refs::NS] != sq.ods[s][..refs::NS] {
            out.push((s, i));
            s = i;
        }
    }
    out
}

/// Honest share proof for ODS positions [x, y) (one namespace): NMT range proofs from the reference, row proof from the DAH.
fn honest_share_proof(sq: &Square, x: usize, y: usize) -> Result<RawShareProof, Failure> {
    let k = sq.dah.row_roots().len() / 2;
    let (r0, r1) = (x / k, (y - 1) / k);
    let mut share_proofs = Vec::new();
    for r in r0..=r1 {
        let c0 = if r == r0 { x % k } else { 0 };
        let c1 = if r == r1 { (y - 1) % k + 1 } else { k };
        let leaves = axis_leaves(&sq.eds, true, r as u16);
        let nodes = axis_nodes(&leaves);
        // the reference row root must be the DAH's (guards the oracle itself)
        if refs::nmt_root(&nodes).to_bytes().to_vec() != sq.dah.row_root(r as u16).unwrap().to_array().to_vec() {
            return Err(Failure::new("gen", format!("reference NMT root of row {r} differs from the DAH's")));
        }
        share_proofs.push(RawNmtProof {
            start: c0 as i32,
            end: c1 as i32,
            nodes: ref_nmt_range_proof(&nodes, c0, c1).iter().map(|n| n.to_bytes().to_vec()).collect(),
            leaf_hash: vec![],
        });
    }
    let ns = &sq.ods[x][..refs::NS];
    let row_proof = sq.dah.row_proof(r0 as u16..=r1 as u16).map_err(|e| Failure::new("C13:row-proof-build-failed", format!("row_proof({r0}..={r1}): {e}")))?;
    Ok(RawShareProof {
        data: sq.ods[x..y].to_vec(),
        share_proofs,
        namespace_id: ns[1..].to_vec(),
        row_proof: Some(RawRowProof::from(row_proof)),
        namespace_version: ns[0] as u32,
    })
}

fn nmt_bounds(p: &RawNmtProof) -> (u32, u32) {
    // the decoding rule of the code under test: i32 -> i64 -> u32
    ((p.start as i64) as u32, (p.end as i64) as u32)
}

/// Why an accepted share proof is unsound (None = fine). Only meaningful under the real DAH hash.
fn share_unsound(t: &RowTruth, raw: &RawShareProof, root: Option<[u8; 32]>) -> Option<(&'static str, String)> {
    let Some(rp) = &raw.row_proof else { return Some(("C13:shareproof-structure-mismatch-accepted", "no row proof".into())) };
    if let Err(r) = ref_row_proof_check(rp, root.as_ref()) {
        return Some((row_reject_sig(&r), format!("its row proof is rejected by the reference ({r:?})")));
    }
    if raw.share_proofs.len() != rp.row_roots.len() {
        return Some(("C13:shareproof-structure-mismatch-accepted", format!("{} NMT proofs for {} row roots", raw.share_proofs.len(), rp.row_roots.len())));
    }
    let mut need = 0u64;
    for p in &raw.share_proofs {
        let (s, e) = nmt_bounds(p);
        if s >= e || !p.leaf_hash.is_empty() {
            return Some(("C13:shareproof-structure-mismatch-accepted", format!("NMT proof with empty range or absence leaf ({s}..{e})")));
        }
        need += (e - s) as u64;
    }
    if need != raw.data.len() as u64 {
        return Some(("C13:shareproof-structure-mismatch-accepted", format!("ranges cover {need} shares, {} presented", raw.data.len())));
    }
    if root != Some(t.hash) {
        return None;
    }
    let mut ns = vec![raw.namespace_version as u8];
    ns.extend_from_slice(&raw.namespace_id);
    let w = t.sq.dah.row_roots().len();
    let mut at = 0usize;
    for (pi, (p, rr)) in raw.share_proofs.iter().zip(&rp.row_roots).enumerate() {
        let (s, e) = nmt_bounds(p);
        let chunk = &raw.data[at..at + (e - s) as usize];
        at += (e - s) as usize;
        // every axis (row or column) of the real square with this root
        let axes: Vec<usize> = (0..2 * w).filter(|i| &t.all_roots[*i] == rr).collect();
        if axes.is_empty() {
            return Some(("C13:rowproof-proves-foreign-root", format!("root #{pi} is not a root of the DAH")));
        }
        let found = axes.iter().any(|&ax| {
            let leaves = axis_leaves(&t.sq.eds, ax < w, (ax % w) as u16);
            (0..leaves.len()).any(|o| o + chunk.len() <= leaves.len() && chunk.iter().enumerate().all(|(j, sh)| leaves[o + j].0[..] == ns[..] && &leaves[o + j].1 == sh))
        });
        if !found {
            return Some((
                "C13:shareproof-accepts-shares-not-in-rows",
                format!("the {} shares presented for root #{pi} (declared range {s}..{e}) are not a contiguous run of leaves of that row in namespace {}", chunk.len(), hex::encode(&ns)),
            ));
        }
    }
    None
}

fn apply_smut(raw: &mut RawShareProof, root: &mut Option<[u8; 32]>, m: &SMut, t: &RowTruth) -> Option<&'static str> {
    let nd = raw.data.len();
    let np = raw.share_proofs.len();
    Some(match m {
        SMut::AlterShare { i, pos, bit } => {
            let k = pick(*i, nd);
            flip(&mut raw.data[k], *pos as usize, *bit);
            "share:share-altered"
        }
        SMut::SwapShares { i, j } => {
            if nd < 2 {
                return None;
            }
            raw.data.swap(pick(*i, nd), pick(*j, nd));
            "share:shares-swapped"
        }
        SMut::DropShare { i } => {
            raw.data.remove(pick(*i, nd));
            "share:share-dropped"
        }
        SMut::DupShare { i } => {
            let k = pick(*i, nd);
            let s = raw.data[k].clone();
            raw.data.insert(k, s);
            "share:share-duplicated"
        }
        SMut::ShareFromElsewhere { i, r, c } => {
            let k = t.sq.dah.row_roots().len() / 2;
            let s = t.sq.ods[pick(*r, k) * k + pick(*c, k)].clone();
            raw.data[pick(*i, nd)] = s;
            "share:share-from-elsewhere"
        }
        SMut::AlterNmtNode { p, i, pos, bit } => {
            let q = &mut raw.share_proofs[pick(*p, np)];
            if q.nodes.is_empty() {
                return None;
            }
            let k = pick(*i, q.nodes.len());
            flip(&mut q.nodes[k], *pos as usize, *bit);
            "share:nmt-inner-node-altered"
        }
        SMut::DropNmtNode { p, i } => {
            let q = &mut raw.share_proofs[pick(*p, np)];
            if q.nodes.is_empty() {
                return None;
            }
            let k = pick(*i, q.nodes.len());
            q.nodes.remove(k);
            "share:nmt-node-dropped"
        }
        SMut::DupNmtNode { p, i } => {
            let q = &mut raw.share_proofs[pick(*p, np)];
            if q.nodes.is_empty() {
                return None;
            }
            let k = pick(*i, q.nodes.len());
            let x = q.nodes[k].clone();
            q.nodes.insert(k, x);
            "share:nmt-node-duplicated"
        }
        SMut::SwapNmtNodes { p, i, j } => {
            let q = &mut raw.share_proofs[pick(*p, np)];
            if q.nodes.len() < 2 {
                return None;
            }
            let (a, b) = (pick(*i, q.nodes.len()), pick(*j, q.nodes.len()));
            q.nodes.swap(a, b);
            "share:nmt-nodes-swapped"
        }
        SMut::ShiftNmtRange { p, ds, de } => {
            if *ds == 0 && *de == 0 {
                return None;
            }
            let q = &mut raw.share_proofs[pick(*p, np)];
            q.start += *ds as i32;
            q.end += *de as i32;
            "share:nmt-range-shifted"
        }
        SMut::HugeNmtRanges => {
            for q in &mut raw.share_proofs {
                q.start = 0;
                q.end = -1;
            }
            "share:nmt-ranges-huge"
        }
        SMut::DropShareProof { p } => {
            raw.share_proofs.remove(pick(*p, np));
            "share:nmt-proof-dropped"
        }
        SMut::DupShareProof { p } => {
            let k = pick(*p, np);
            let x = raw.share_proofs[k].clone();
            raw.share_proofs.insert(k, x);
            "share:nmt-proof-duplicated"
        }
        SMut::AbsenceLeaf { p } => {
            let k = pick(*p, np);
            raw.share_proofs[k].leaf_hash = t.all_roots[0].clone();
            "share:absence-leaf-added"
        }
        SMut::NamespaceBit { pos, bit } => {
            flip(&mut raw.namespace_id, *pos as usize, *bit);
            "share:namespace-altered"
        }
        SMut::NamespaceVersion(v) => {
            if raw.namespace_version == *v {
                return None;
            }
            raw.namespace_version = *v;
            "share:namespace-version-altered"
        }
        SMut::Row(rm) => {
            let rp = raw.row_proof.as_mut()?;
            apply_rmut(rp, root, rm, t)?
        }
        SMut::NoRowProof => {
            raw.row_proof = None;
            "share:row-proof-removed"
        }
    })
}

fn judge_share(obs: &mut Obs, t: &RowTruth, raw: &RawShareProof, root: Option<[u8; 32]>, label: &str, changed: bool, inner_node_altered: bool) -> Result<(), Failure> {
    let d = digest_bytes(&raw.encode_to_vec()) ^ root.map(|r| digest_bytes(&r)).unwrap_or(7).rotate_left(29);
    obs.eval(changed.then_some(d));
    if label.starts_with("row:") {
        obs.label(&format!("share/{label}"));
    } else {
        obs.label(label);
    }
    let p = match ShareProof::try_from(raw.clone()) {
        Ok(p) => p,
        Err(_) => {
            obs.label("share-decode-rejected");
            return Ok(());
        }
    };
    let rows = raw.row_proof.as_ref().map(|r| r.row_roots.len()).unwrap_or(0);
    let what = || format!("{} shares, {} NMT proofs (ranges {:?}), {rows} row roots, mutation {label}, ODS width {}", raw.data.len(), raw.share_proofs.len(), raw.share_proofs.iter().map(nmt_bounds).collect::<Vec<_>>(), t.sq.dah.row_roots().len() / 2);
    let hash = root.map(Hash::Sha256).unwrap_or(Hash::None);
    let accepted = match no_panic(|| p.verify(hash).is_ok()) {
        Ok(a) => a,
        Err(rec) => {
            if rec.contains("overflow") && rec.contains("data_availability_header") {
                obs.fail("C13:rowproof-span-u16-overflow", format!("RowProof::verify (inside ShareProof::verify) overflowed computing the span in u16 ({rec}): {}", what()))?;
            } else {
                obs.label("panicked-instead-of-rejecting");
                obs.note(format!("ShareProof::verify panicked on an adversarial proof (treated as not accepted; never-panics is C16's): {rec}"));
            }
            false
        }
    };
    if accepted {
        if changed {
            obs.label("share-mutant-accepted");
        }
        if inner_node_altered {
            obs.fail("C13:shareproof-altered-inner-node-accepted", format!("ShareProof::verify accepted although an inner node was altered: {}", what()))?;
        }
        if let Some((sig, why)) = share_unsound(t, raw, root) {
            obs.fail(sig, format!("ShareProof::verify accepted an unsound proof: {why}: {}", what()))?;
        }
    } else if !changed {
        obs.fail("C13:shareproof-honest-rejected", format!("honest share proof rejected: {}", what()))?;
    }
    Ok(())
}

fn check_shares(case: &SCase, obs: &mut Obs) -> Result<(), Failure> {
    let sq = build_square(&case.square, AppVersion::V3);
    let other = build_square(&case.other, AppVersion::V3);
    let t = row_truth(&sq, Some(&other))?;
    let k = sq.dah.row_roots().len() / 2;
    let runs = ns_runs(&sq);
    let mut ranges: Vec<(usize, usize)> = Vec::new();
    // every whole namespace run (bounded), plus generated sub-ranges
    for r in runs.iter().take(6) {
        ranges.push(*r);
    }
    for (rs, a, b) in &case.picks {
        let (s, e) = runs[pick(*rs, runs.len())];
        let (a, b) = (s + pick(*a, e - s), s + pick(*b, e - s));
        ranges.push((a.min(b), a.max(b) + 1));
    }
    ranges.sort();
    ranges.dedup();
    for &(x, y) in &ranges {
        let honest = honest_share_proof(&sq, x, y)?;
        let multi_row = x / k != (y - 1) / k;
        obs.label(if multi_row { "share:multi-row-range" } else { "share:single-row-range" });
        let nsb = &sq.ods[x][..refs::NS];
        obs.label(if nsb[0] == 0 && nsb[1..19].iter().all(|b| *b == 0) && nsb[19..28].iter().any(|b| *b != 0) { "share:user-namespace" } else { "share:reserved-namespace" });
        judge_share(obs, &t, &honest, Some(t.hash), "share:honest", false, false)?;
        for m in &case.muts {
            let mut raw = honest.clone();
            let mut root = Some(t.hash);
            let Some(label) = apply_smut(&mut raw, &mut root, m, &t) else { continue };
            if raw == honest && root == Some(t.hash) {
                obs.label("noop-mutation-skipped");
                continue;
            }
            let inner = matches!(m, SMut::AlterNmtNode { .. } | SMut::Row(RMut::AlterAunt { .. }));
            judge_share(obs, &t, &raw, root, label, true, inner)?;
        }
    }
    Ok(())
}

// =================================================================================================== run

pub fn run(ctx: &mut Ctx) {
    ctx.assume("reference = lv_gen::refs (RFC-6962 root/proof/recomputation, NMT hashing with ignore-max-namespace) and lv_gen::proofrefs (reference verifiers, NMT range-proof builder); sha256 collisions and second preimages are excluded");
    ctx.assume("squares are built by lv_gen::square and extended by ExtendedDataSquare::from_ods (code under test); the reference recomputes every row root used and the DAH hash and refuses to run on a mismatch");
    ctx.assume("a panic inside verify on an adversarial proof counts as 'not accepted' here (never-panics is property C16's), except the u16 span arithmetic of RowProof::verify, whose overflow is an acceptance in builds without overflow checks");
    ctx.assume("not asserted (DESIGN §7): merkle indices of a row proof equal start_row+i; NMT range start equals the real column; extremes of index/total go through RawMerkleProof so the documented decoding rules apply");
    ctx.essential(&[
        "index>=total",
        "wrong-index<total",
        "wrong-total",
        "aunt-altered",
        "aunt-dropped",
        "aunt-duplicated",
        "aunts-reordered",
        "leaf-altered",
        "leaf-hash-altered",
        "tree<=64-every-index",
        "tree>64-sampled-indices",
        "every-row-range",
        "row:multi-row-range",
        "span/roots-mismatch",
        "row:root-altered",
        "row:inner-node-altered",
        "row:empty-0..65535",
        "share:multi-row-range",
        "share:single-row-range",
        "share:user-namespace",
        "share:share-altered",
        "share:nmt-inner-node-altered",
        "share:nmt-range-shifted",
        "share/row:root-altered",
        "share/row:inner-node-altered",
    ]);

    let mcases = ctx.tier.pick(1500, 40_000);
    ctx.proptest(
        "merkle",
        "leaf lists of 1..=300 items (random sizes 0..64, very short, three-value, 32-byte), every index for <= 64 leaves, sampled above; per index: honest proof (code's prover == reference, must verify), every other index value in 0..2n+1 plus aliases and huge values, totals n+-1, 2n, 1, pow2, huge, 0, -1, other leaves under the same proof, and 6..14 generated mutations (aunt altered/dropped/duplicated/reordered/appended/foreign, leaf or leaf_hash altered, root altered, index/total absolute and relative). accepted => reference accepts and (real total/root) leaf == leaves[index]. Non-trivial = any mutated triple (distinct by encoded proof+leaf+root)",
        mcases,
        || {
            (
                prop_oneof![3 => 1u16..=16, 3 => 1u16..=64, 2 => 65u16..=300],
                prop_oneof![4 => Just(LeafKind::Random), 1 => Just(LeafKind::Short), 1 => Just(LeafKind::Dups), 1 => Just(LeafKind::Fixed32)],
                any::<u64>(),
                prop::collection::vec(any::<u16>(), 4..10),
                prop::collection::vec(mmut_strategy(), 6..14),
            )
                .prop_map(|(n, kind, seed, idx, muts)| MCase { n, kind, seed, idx, muts })
        },
        check_merkle,
    );

    let rcases = ctx.tier.pick(400, 4000);
    let rmax = ctx.tier.pick(4u8, 5u8);
    ctx.proptest(
        "row-proofs",
        "DAHs of generated squares (EDS width 2..32; thorough 64): every row range (width <= 16; thorough <= 32) or sampled ranges: dah.row_proof(range) verifies directly and through its wire form; on a subset of ranges 7 systematic + 10..20 generated mutations (root / aunt / leaf_hash altered, root/proof/pair dropped or duplicated, start/end shifted or set incl. 65535/65536, roots swapped, root or consistent pair of another row/column, merkle index/total, data hash altered/None, proof of another square, emptied lists) plus the (0, 65535) empty proof: accepted => reference accepts (lengths, unwrapped span, every merkle pair) and all roots are DAH roots. Non-trivial = mutated proof (distinct by encoding+hash)",
        rcases,
        move || {
            (square_strategy(0, rmax), square_strategy(0, 2), prop::collection::vec((any::<u16>(), any::<u16>()), 3..8), prop::collection::vec(rmut_strategy(), 10..20))
                .prop_map(|(square, other, ranges, muts)| RCase { square, other, ranges, muts })
        },
        check_rows,
    );

    let scases = ctx.tier.pick(700, 10_000);
    let smax = ctx.tier.pick(4u8, 5u8);
    ctx.proptest(
        "share-proofs",
        "structured and dummy squares (ODS width 2..16; thorough 32): share proofs for whole namespace runs (user and reserved namespaces) and generated sub-ranges, single- and multi-row, NMT range proofs built by the reference, row proof by the DAH, decoded from the wire form: honest must verify; 12..24 generated mutations each (share altered/swapped/dropped/duplicated/foreign, NMT node altered/dropped/duplicated/swapped, NMT range shifted or huge, NMT proof dropped/duplicated/absence leaf, namespace altered, every row-proof mutation, row proof removed): accepted => structure consistent, row proof passes the reference, every chunk is a contiguous run of real leaves of an axis with that root; altered inner node => rejected. Non-trivial = mutated proof",
        scases,
        move || {
            (
                prop_oneof![3 => structured_square_strategy(1, smax), 1 => square_strategy(1, smax)],
                square_strategy(0, 2),
                prop::collection::vec((any::<u16>(), any::<u16>(), any::<u16>()), 2..6),
                prop::collection::vec(smut_strategy(), 12..24),
            )
                .prop_map(|(square, other, picks, muts)| SCase { square, other, picks, muts })
        },
        check_shares,
    );
}
