//! C08 — The extended square is a two-dimensional erasure code.
use celestia_types::consts::appconsts::AppVersion;
use celestia_types::nmt::NamespacedHashExt;
use celestia_types::{DataAvailabilityHeader, ExtendedDataSquare};
use lv_common::Prng;
use lv_common::prelude::*;
use lv_gen::refs::{self, NS, SHARE};
use lv_gen::square::{SquareSpec, build_ods, square_strategy, structured_square_strategy, user_ns};
use lv_gen::sqx::{RawSquare, rs_parity, rs_reconstruct};

#[derive(Clone, Debug, Serialize, Deserialize)]
pub struct Case {
    pub square: SquareSpec,
    pub seed: u64,
    pub axes: Vec<u16>,
}

#[derive(Clone, Debug, Serialize, Deserialize)]
pub enum Bad {
    /// `n` valid shares where n is not a perfect square
    NonSquareCount { n: u16 },
    /// k*k valid shares, k not a power of two
    NonPow2Width { k: u8 },
    Empty,
    /// one share of the ODS resized
    OneShareSize { pos: u16, len: u16 },
    /// every share resized to the same wrong size
    AllSharesSize { len: u16 },
    /// two shares with different namespaces of one row exchanged
    UnsortedRow { r: u16, a: u16, b: u16 },
    /// two whole rows exchanged: every row stays sorted, columns do not
    UnsortedCol { r1: u16, r2: u16 },
    /// share version 1 in a square built for an app version < 3
    ShareVersionOne { pos: u16, app: u8 },
    /// invalid namespace bytes in one ODS share
    BadNamespace { pos: u16, version: u8 },
    /// `ExtendedDataSquare::new` only: more shares than the app version allows (shares left empty: the bound is checked first)
    TooManyShares { app: u8 },
    /// `ExtendedDataSquare::new` only: fewer shares than the minimum
    TooFewShares { n: u8 },
    /// `ExtendedDataSquare::new` only: EDS of a non power-of-two width
    NewNonPow2 { w: u8 },
    /// `ExtendedDataSquare::new` only: count is not a square
    NewNonSquare { n: u16 },
}

#[derive(Clone, Debug, Serialize, Deserialize)]
pub struct BadCase {
    pub square: SquareSpec,
    pub bad: Bad,
}

fn bad_strategy() -> impl Strategy<Value = Bad> {
    prop_oneof![
        2 => (2u16..300).prop_map(|n| Bad::NonSquareCount { n }),
        2 => prop::sample::select(vec![3u8, 5, 6, 7, 9, 12]).prop_map(|k| Bad::NonPow2Width { k }),
        1 => Just(Bad::Empty),
        3 => (any::<u16>(), prop::sample::select(vec![0u16, 1, 64, 448, 511, 513, 576, 1024])).prop_map(|(pos, len)| Bad::OneShareSize { pos, len }),
        2 => prop::sample::select(vec![0u16, 64, 128, 448, 500, 576, 1024]).prop_map(|len| Bad::AllSharesSize { len }),
        4 => (any::<u16>(), any::<u16>(), any::<u16>()).prop_map(|(r, a, b)| Bad::UnsortedRow { r, a, b }),
        4 => (any::<u16>(), any::<u16>()).prop_map(|(r1, r2)| Bad::UnsortedCol { r1, r2 }),
        2 => (any::<u16>(), 1u8..3).prop_map(|(pos, app)| Bad::ShareVersionOne { pos, app }),
        2 => (any::<u16>(), 1u8..255).prop_map(|(pos, version)| Bad::BadNamespace { pos, version }),
        1 => (1u8..=7).prop_map(|app| Bad::TooManyShares { app }),
        1 => (0u8..4).prop_map(|n| Bad::TooFewShares { n }),
        1 => prop::sample::select(vec![3u8, 5, 6, 7, 9, 10, 12]).prop_map(|w| Bad::NewNonPow2 { w }),
        1 => (5u16..300).prop_map(|n| Bad::NewNonSquare { n }),
    ]
}

fn app_of(v: u8) -> AppVersion {
    match v {
        1 => AppVersion::V1,
        2 => AppVersion::V2,
        3 => AppVersion::V3,
        4 => AppVersion::V4,
        5 => AppVersion::V5,
        6 => AppVersion::V6,
        _ => AppVersion::V7,
    }
}

fn is_square(n: usize) -> bool {
    let r = (n as f64).sqrt().round() as usize;
    r * r == n
}

fn dummy_share(ns: &[u8; NS], rng: &mut Prng) -> Vec<u8> {
    let mut s = vec![0u8; SHARE];
    s[..NS].copy_from_slice(ns);
    s[NS] = 1;
    s[NS + 1..NS + 5].copy_from_slice(&(refs::FIRST_CAP_V0 as u32).to_be_bytes());
    rng.fill(&mut s[NS + 5..]);
    s
}

fn expect_err<T>(obs: &mut Obs, what: &str, sig: &str, detail: String, f: impl FnOnce() -> celestia_types::Result<T>) -> Result<(), Failure> {
    match lv_common::no_panic(f) {
        Ok(Err(_)) => Ok(()),
        Ok(Ok(_)) => obs.fail(sig, format!("{what} accepted a malformed input: {detail}")),
        Err(rec) => obs.fail(&format!("C08:{}", lv_gen::sqx::panic_site(&rec)), format!("{what} panicked instead of returning an error on {detail}: {rec}")),
    }
}

fn check_square(case: &Case, obs: &mut Obs) -> Result<(), Failure> {
    let (ods, _) = build_ods(&case.square);
    let k = 1usize << case.square.ods_log2;
    let app = AppVersion::V3;
    let eds = match lv_common::no_panic(|| ExtendedDataSquare::from_ods(ods.clone(), app)) {
        Ok(Ok(e)) => e,
        Ok(Err(e)) => return obs.fail("C08:valid-ods-rejected", format!("from_ods rejected a valid ODS of width {k}: {e}")),
        Err(rec) => return obs.fail("C08:valid-ods-panicked", format!("from_ods panicked on a valid ODS of width {k}: {rec}")),
    };
    let raw = RawSquare::from_eds(&eds);
    let w = raw.w;
    obs.check(w == 2 * k && eds.square_width() as usize == w && raw.shares.len() == w * w, "C08:wrong-eds-width", || format!("ODS width {k} extended to width {w}"))?;
    obs.label(&format!("ods-width-{k}"));

    // (1) first quadrant is the ODS, byte for byte
    obs.eval(None);
    for r in 0..k {
        for c in 0..k {
            obs.check(raw.share(r, c) == &ods[r * k + c], "C08:first-quadrant-differs", || format!("share ({r},{c}) of the EDS differs from the ODS share (ODS width {k})"))?;
            obs.check(eds.share(r as u16, c as u16).map(|s| s.to_vec()).ok().as_ref() == Some(&ods[r * k + c]), "C08:first-quadrant-differs", || format!("eds.share({r},{c}) differs from the ODS share"))?;
        }
    }

    // (2) independent re-extension in another pass order: Q2 = rows(Q1), Q3 = cols(Q1), Q4 = rows(Q3) = cols(Q2)
    let q = |r: usize, c: usize| raw.share(r, c).clone();
    let mut q2 = vec![vec![Vec::new(); k]; k]; // [row][col-k]
    for r in 0..k {
        let data: Vec<Vec<u8>> = (0..k).map(|c| ods[r * k + c].clone()).collect();
        q2[r] = rs_parity(&data);
    }
    let mut q3 = vec![vec![Vec::new(); k]; k]; // [row-k][col]
    for c in 0..k {
        let data: Vec<Vec<u8>> = (0..k).map(|r| ods[r * k + c].clone()).collect();
        for (j, p) in rs_parity(&data).into_iter().enumerate() {
            q3[j][c] = p;
        }
    }
    obs.eval(Some(digest_of(&("requadrant", &case.square))));
    obs.label("quadrant-commutation");
    for j in 0..k {
        let q4_rows = rs_parity(&q3[j]); // row k+j of Q4
        let col_data: Vec<Vec<u8>> = (0..k).map(|r| q2[r][j].clone()).collect();
        let q4_col = rs_parity(&col_data); // column k+j of Q4
        for i in 0..k {
            obs.check(q(j, k + i) == q2[j][i], "C08:q2-not-row-extension", || format!("Q2 share ({j},{}) is not the row extension of the ODS (width {k})", k + i))?;
            obs.check(q(k + j, i) == q3[j][i], "C08:q3-not-column-extension", || format!("Q3 share ({},{i}) is not the column extension of the ODS (width {k})", k + j))?;
            obs.check(q(k + j, k + i) == q4_rows[i], "C08:q4-not-row-extension-of-q3", || format!("Q4 share ({},{}) is not the row extension of Q3 (width {k})", k + j, k + i))?;
            obs.check(q(k + i, k + j) == q4_col[i], "C08:q4-not-column-extension-of-q2", || format!("Q4 share ({},{}) is not the column extension of Q2 (width {k})", k + i, k + j))?;
        }
    }

    // (3) every axis (sampled above EDS width 32): any half of the shares reconstructs the axis
    let idxs: Vec<usize> = if w <= 32 {
        (0..w).collect()
    } else {
        let mut v = vec![0, k - 1, k, w - 1];
        v.extend(case.axes.iter().map(|s| pick(*s, w)));
        v.sort();
        v.dedup();
        v
    };
    let mut rng = Prng::new(case.seed);
    for row_axis in [true, false] {
        for &idx in &idxs {
            let axis = raw.axis(row_axis, idx);
            let mut patterns: Vec<(Vec<bool>, bool)> = vec![((0..w).map(|i| i < k).collect(), true), ((0..w).map(|i| i >= k).collect(), true)];
            for _ in 0..3 {
                // exactly k present positions, uniformly chosen
                let mut pos: Vec<usize> = (0..w).collect();
                for i in 0..k {
                    let j = i + rng.below((w - i) as u64) as usize;
                    pos.swap(i, j);
                }
                let mut p = vec![false; w];
                for &i in &pos[..k] {
                    p[i] = true;
                }
                let canonical = p[..k].iter().all(|b| *b) || p[k..].iter().all(|b| *b);
                patterns.push((p, canonical));
            }
            for (present, canonical) in patterns {
                let parity_axis = !row_axis || idx >= k;
                let nontrivial = parity_axis && !canonical;
                let pd = present.iter().fold(0u64, |a, b| a.rotate_left(1) ^ *b as u64);
                obs.eval(nontrivial.then(|| digest_of(&(&case.square.seed, case.square.ods_log2, row_axis, idx, pd)) ^ digest_bytes(&axis[w - 1])));
                obs.label(match (row_axis, idx >= k) {
                    (true, false) => "axis-data-row",
                    (true, true) => "axis-parity-row",
                    (false, false) => "axis-data-col",
                    (false, true) => "axis-parity-col",
                });
                if !canonical {
                    obs.label("erasure-mixed-half");
                }
                match rs_reconstruct(&axis, &present) {
                    Ok(rec) => obs.check(rec == axis, "C08:axis-not-a-codeword", || {
                        format!(
                            "{} {idx} of the EDS (width {w}) is not reconstructed from the half {:?}: not a codeword",
                            if row_axis { "row" } else { "column" },
                            present.iter().map(|b| *b as u8).collect::<Vec<_>>()
                        )
                    })?,
                    Err(e) => obs.fail("C08:axis-reconstruct-error", format!("reconstructing {} {idx} (width {w}) from exactly half of its shares failed: {e}", if row_axis { "row" } else { "column" }))?,
                }
            }
        }
    }

    // (4) DAH roots equal the reference NMT roots
    let dah = DataAvailabilityHeader::from_eds(&eds);
    obs.eval(None);
    obs.label("dah-roots");
    obs.check(dah.square_width() as usize == w && dah.row_roots().len() == w && dah.column_roots().len() == w, "C08:dah-width", || format!("DAH of an EDS of width {w} has {} row roots / {} column roots", dah.row_roots().len(), dah.column_roots().len()))?;
    for i in 0..w {
        let rr = raw.axis_root(true, i).to_bytes();
        let cr = raw.axis_root(false, i).to_bytes();
        obs.check(dah.row_root(i as u16).map(|h| h.to_array()) == Some(rr), "C08:dah-row-root-differs", || format!("row root {i} (width {w}) differs from the reference NMT root"))?;
        obs.check(dah.column_root(i as u16).map(|h| h.to_array()) == Some(cr), "C08:dah-col-root-differs", || format!("column root {i} (width {w}) differs from the reference NMT root"))?;
    }
    // the same square through `new` (no encoding) is accepted and equal
    match lv_common::no_panic(|| ExtendedDataSquare::new(raw.shares.clone(), "Leopard".into(), app)) {
        Ok(Ok(e2)) => obs.check(e2 == eds, "C08:new-differs-from-from-ods", || "ExtendedDataSquare::new(shares of from_ods) differs".to_string())?,
        Ok(Err(e)) => obs.fail("C08:valid-eds-rejected", format!("ExtendedDataSquare::new rejected the shares produced by from_ods (width {w}): {e}"))?,
        Err(rec) => obs.fail("C08:valid-eds-panicked", format!("ExtendedDataSquare::new panicked: {rec}"))?,
    }
    Ok(())
}

fn check_bad(case: &BadCase, obs: &mut Obs) -> Result<(), Failure> {
    let (ods, _) = build_ods(&case.square);
    let k = 1usize << case.square.ods_log2;
    let mut rng = Prng::new(case.square.seed ^ 0xbad);
    let ns = lv_gen::square::ns_bytes(&user_ns(7));
    let v3 = AppVersion::V3;
    let tag = digest_of(&case.bad) ^ case.square.seed;
    let from_ods_err = |obs: &mut Obs, shares: Vec<Vec<u8>>, app: AppVersion, sig: &str, detail: String| -> Result<(), Failure> {
        obs.eval(Some(tag));
        expect_err(obs, "ExtendedDataSquare::from_ods", sig, detail, move || ExtendedDataSquare::from_ods(shares, app))
    };
    let new_err = |obs: &mut Obs, shares: Vec<Vec<u8>>, app: AppVersion, sig: &str, detail: String| -> Result<(), Failure> {
        obs.eval(Some(tag ^ 1));
        expect_err(obs, "ExtendedDataSquare::new", sig, detail, move || ExtendedDataSquare::new(shares, "Leopard".into(), app))
    };
    // extend a (possibly malformed) ODS by hand so that `new` sees a correctly encoded square
    let extend = |ods: &[Vec<u8>], k: usize| -> Option<Vec<Vec<u8>>> {
        if ods.iter().any(|s| s.len() != SHARE) || k == 0 || k * k != ods.len() || k > 128 {
            return None;
        }
        let w = 2 * k;
        let mut sq = vec![vec![0u8; SHARE]; w * w];
        for r in 0..k {
            let data: Vec<Vec<u8>> = ods[r * k..(r + 1) * k].to_vec();
            let p = rs_parity(&data);
            for c in 0..k {
                sq[r * w + c] = data[c].clone();
                sq[r * w + k + c] = p[c].clone();
            }
        }
        for c in 0..w {
            let data: Vec<Vec<u8>> = (0..k).map(|r| sq[r * w + c].clone()).collect();
            for (j, p) in rs_parity(&data).into_iter().enumerate() {
                sq[(k + j) * w + c] = p;
            }
        }
        Some(sq)
    };
    match &case.bad {
        Bad::NonSquareCount { n } => {
            let mut n = *n as usize;
            while is_square(n) {
                n += 1;
            }
            obs.label("bad-non-square-count");
            let shares: Vec<Vec<u8>> = (0..n).map(|_| dummy_share(&ns, &mut rng)).collect();
            from_ods_err(obs, shares, v3, "C08:accepted-non-square", format!("{n} shares (not a perfect square)"))?;
        }
        Bad::NonPow2Width { k } => {
            let k = *k as usize;
            obs.label("bad-non-pow2-width");
            let shares: Vec<Vec<u8>> = (0..k * k).map(|_| dummy_share(&ns, &mut rng)).collect();
            if let Some(sq) = extend(&shares, k) {
                new_err(obs, sq, v3, "C08:accepted-non-pow2-width", format!("correctly extended square of ODS width {k}"))?;
            }
            from_ods_err(obs, shares, v3, "C08:accepted-non-pow2-width", format!("ODS of width {k} (not a power of two)"))?;
        }
        Bad::Empty => {
            obs.label("bad-empty");
            from_ods_err(obs, vec![], v3, "C08:accepted-empty", "no shares".into())?;
            new_err(obs, vec![], v3, "C08:accepted-empty", "no shares".into())?;
        }
        Bad::OneShareSize { pos, len } => {
            obs.label("bad-one-share-size");
            let mut s = ods.clone();
            let p = pick(*pos, s.len());
            s[p].resize(*len as usize, 0);
            from_ods_err(obs, s, v3, "C08:accepted-wrong-share-size", format!("share {p} of an ODS of width {k} resized to {len} bytes"))?;
            // the same through `new`: a correctly extended square with one share resized
            if let Some(mut sq) = extend(&ods, k) {
                let p = pick(*pos, sq.len());
                sq[p].resize(*len as usize, 0);
                new_err(obs, sq, v3, "C08:accepted-wrong-share-size", format!("share {p} of an EDS of width {} resized to {len} bytes", 2 * k))?;
            }
        }
        Bad::AllSharesSize { len } => {
            obs.label("bad-all-shares-size");
            let s: Vec<Vec<u8>> = ods
                .iter()
                .map(|x| {
                    let mut y = x.clone();
                    y.resize(*len as usize, 0);
                    y
                })
                .collect();
            from_ods_err(obs, s, v3, "C08:accepted-wrong-share-size", format!("all shares of an ODS of width {k} resized to {len} bytes"))?;
        }
        Bad::UnsortedRow { r, a, b } => {
            let r = pick(*r, k);
            let a = pick(*a, k);
            // prefer a partner with a different namespace
            let others: Vec<usize> = (0..k).filter(|&c| ods[r * k + c][..NS] != ods[r * k + a][..NS]).collect();
            let b = if others.is_empty() { pick(*b, k) } else { others[pick(*b, others.len())] };
            if ods[r * k + a][..NS] == ods[r * k + b][..NS] {
                obs.label("bad-unsorted-row-noop");
                return Ok(());
            }
            obs.label("bad-unsorted-row");
            let mut s = ods.clone();
            s.swap(r * k + a, r * k + b);
            let sq = extend(&s, k).unwrap();
            from_ods_err(obs, s, v3, "C08:accepted-unsorted-row", format!("ODS width {k}: shares {a} and {b} of row {r} (different namespaces) exchanged"))?;
            new_err(obs, sq, v3, "C08:accepted-unsorted-row", format!("EDS of ODS width {k}: shares {a} and {b} of row {r} exchanged before extension"))?;
        }
        Bad::UnsortedCol { r1, r2 } => {
            let (r1, r2) = (pick(*r1, k), pick(*r2, k));
            let (lo, hi) = (r1.min(r2), r1.max(r2));
            // exchanging two rows breaks column order iff some column strictly increases between them
            let breaks = (0..k).any(|c| ods[lo * k + c][..NS] < ods[hi * k + c][..NS]);
            if !breaks {
                obs.label("bad-unsorted-col-noop");
                return Ok(());
            }
            let mut s = ods.clone();
            for c in 0..k {
                s.swap(lo * k + c, hi * k + c);
            }
            let rows_sorted = (0..k).all(|r| (1..k).all(|c| s[r * k + c - 1][..NS] <= s[r * k + c][..NS]));
            obs.label(if rows_sorted { "bad-unsorted-col-only" } else { "bad-unsorted-col-and-row" });
            let sq = extend(&s, k).unwrap();
            from_ods_err(obs, s, v3, "C08:accepted-unsorted-column", format!("ODS width {k}: rows {lo} and {hi} exchanged (rows sorted: {rows_sorted}, some column now decreases)"))?;
            new_err(obs, sq, v3, "C08:accepted-unsorted-column", format!("EDS of ODS width {k}: rows {lo} and {hi} exchanged before extension"))?;
        }
        Bad::ShareVersionOne { pos, app } => {
            obs.label("bad-share-version-one");
            let mut s = ods.clone();
            let p = pick(*pos, s.len());
            s[p][NS] = (1 << 1) | (s[p][NS] & 1);
            let sq = extend(&s, k).unwrap();
            from_ods_err(obs, s, app_of(*app), "C08:accepted-share-v1-before-v3", format!("share {p} with share version 1 under app version {app}"))?;
            new_err(obs, sq, app_of(*app), "C08:accepted-share-v1-before-v3", format!("share {p} with share version 1 under app version {app}"))?;
        }
        Bad::BadNamespace { pos, version } => {
            obs.label("bad-namespace");
            let mut s = ods.clone();
            let p = pick(*pos, s.len());
            // namespace versions other than 0 and 255 do not exist; version 255 requires an all-0xff prefix
            s[p][0] = *version;
            if *version == 255 {
                s[p][1] = 0;
            }
            let sq = extend(&s, k).unwrap();
            from_ods_err(obs, s, v3, "C08:accepted-invalid-namespace", format!("share {p} with namespace version {version}"))?;
            new_err(obs, sq, v3, "C08:accepted-invalid-namespace", format!("share {p} with namespace version {version}"))?;
        }
        Bad::TooManyShares { app } => {
            obs.label("bad-too-many-shares");
            let a = app_of(*app);
            let max_w = celestia_types::consts::appconsts::square_size_upper_bound(a) * 2;
            // a power-of-two square above the bound where that stays small, else bound + 1
            let n = if max_w <= 256 { (2 * max_w) * (2 * max_w) } else { max_w * max_w + 1 };
            new_err(obs, vec![Vec::new(); n], a, "C08:accepted-oversized", format!("{n} (empty) shares, above the bound {max_w}^2 of app version {app}"))?;
        }
        Bad::TooFewShares { n } => {
            obs.label("bad-too-few-shares");
            let shares: Vec<Vec<u8>> = (0..*n).map(|_| vec![0xffu8; SHARE]).collect();
            new_err(obs, shares, v3, "C08:accepted-undersized", format!("{n} shares"))?;
        }
        Bad::NewNonPow2 { w } => {
            obs.label("bad-new-non-pow2");
            let w = *w as usize;
            // all-parity-looking shares except valid first quadrant of one namespace
            let h = w / 2;
            let shares: Vec<Vec<u8>> = (0..w * w)
                .map(|i| {
                    let (r, c) = (i / w, i % w);
                    if r < h && c < h { dummy_share(&ns, &mut rng) } else { rng.bytes(SHARE) }
                })
                .collect();
            new_err(obs, shares, v3, "C08:accepted-non-pow2-width", format!("{w}x{w} shares"))?;
        }
        Bad::NewNonSquare { n } => {
            let mut n = *n as usize;
            while is_square(n) {
                n += 1;
            }
            obs.label("bad-new-non-square");
            let shares: Vec<Vec<u8>> = (0..n).map(|_| rng.bytes(SHARE)).collect();
            new_err(obs, shares, v3, "C08:accepted-non-square", format!("{n} shares (not a perfect square)"))?;
        }
    }
    Ok(())
}

pub fn run(ctx: &mut Ctx) {
    ctx.assume("Reed-Solomon ground truth = leopard_codec (the codec the property names) driven directly by the harness: encode for re-extension in a different pass order, reconstruct for erasure patterns; an error shared by leopard's encoder and decoder would not be seen");
    ctx.assume("NMT reference = lv_gen::refs (sha2 only)");
    ctx.essential(&[
        "axis-parity-row",
        "axis-data-col",
        "axis-parity-col",
        "erasure-mixed-half",
        "quadrant-commutation",
        "dah-roots",
        "bad-non-square-count",
        "bad-non-pow2-width",
        "bad-one-share-size",
        "bad-all-shares-size",
        "bad-unsorted-row",
        "bad-unsorted-col-only",
        "bad-share-version-one",
        "bad-too-many-shares",
        "bad-empty",
    ]);
    let rule = "per generated valid ODS (structured namespaces or dummy): from_ods must succeed; first quadrant == ODS byte for byte; Q2/Q3/Q4 equal a harness re-extension (rows(Q1), cols(Q1), rows(Q3) == cols(Q2)); for every axis (sampled above EDS width 32) the two canonical halves and 3 random subsets of exactly half the positions must reconstruct the whole axis; DAH roots == reference NMT roots. Non-trivial = column or parity-row axis with a non-canonical (mixed) erasure pattern, and the re-extension comparison (distinct by square, axis, pattern)";
    // small and medium squares
    let hi = ctx.tier.pick(4, 5);
    let cases = ctx.tier.pick(2000, 20000);
    ctx.proptest(
        "squares",
        rule,
        cases,
        move || (square_strategy(0, hi), any::<u64>(), prop::collection::vec(any::<u16>(), 12)).prop_map(|(square, seed, axes)| Case { square, seed, axes }),
        check_square,
    );
    // large squares: ODS 32 and 64 (thorough: also 128)
    let big_hi = ctx.tier.pick(6, 7);
    let big_cases = ctx.tier.pick(40, 160);
    ctx.proptest(
        "squares-large",
        rule,
        big_cases,
        move || (square_strategy(5, big_hi), any::<u64>(), prop::collection::vec(any::<u16>(), 12)).prop_map(|(square, seed, axes)| Case { square, seed, axes }),
        check_square,
    );
    let bad_cases = ctx.tier.pick(20000, 200000);
    ctx.proptest(
        "malformed",
        "malformed inputs to from_ods / new must give Err and never panic: non-square counts, widths 3,5,6,7,9,12, empty, one share of a wrong size, all shares of a wrong (also 64-multiple) size, namespaces unsorted along a row, along a column only (two rows exchanged), share version 1 under app < V3, invalid namespace, too many / too few shares. Every case is non-trivial (distinct by kind+parameters+square seed)",
        bad_cases,
        || (structured_square_strategy(1, 3), bad_strategy()).prop_map(|(square, bad)| BadCase { square, bad }),
        check_bad,
    );
    if ctx.tier == Tier::Thorough {
        // ODS wider than any app version's leopard-encodable bound: 256x256 shares (33 MB)
        ctx.enumerate("oversized-ods", "one ODS of width 256 (above the 128 bound of app versions <= 5 and above what GF(2^8) leopard can extend) must be rejected by from_ods", true, vec![256usize], |k, obs| {
            let ns = lv_gen::square::ns_bytes(&user_ns(7));
            let mut rng = Prng::new(1);
            let shares: Vec<Vec<u8>> = (0..k * k).map(|_| dummy_share(&ns, &mut rng)).collect();
            obs.eval(Some(*k as u64));
            obs.label("bad-oversized-ods");
            expect_err(obs, "ExtendedDataSquare::from_ods", "C08:accepted-oversized", format!("ODS of width {k} under app version 3"), move || ExtendedDataSquare::from_ods(shares, AppVersion::V3))
        });
        // an EDS above the app version's bound, otherwise well formed: 512x512 shares (134 MB) under app
        // version 3 (bound 256x256). Only the size bound can reject it.
        ctx.enumerate("oversized-eds", "one 512x512 EDS (valid single-namespace first quadrant, parity-looking rest) under app version 3, whose bound is 256x256, must be rejected by ExtendedDataSquare::new", true, vec![512usize], |w, obs| {
            let ns = lv_gen::square::ns_bytes(&user_ns(7));
            let mut rng = Prng::new(2);
            let data = dummy_share(&ns, &mut rng);
            let parity = vec![0xabu8; SHARE];
            let h = w / 2;
            let shares: Vec<Vec<u8>> = (0..w * w).map(|i| if i / w < h && i % w < h { data.clone() } else { parity.clone() }).collect();
            obs.eval(Some(*w as u64));
            obs.label("bad-oversized-eds");
            expect_err(obs, "ExtendedDataSquare::new", "C08:accepted-oversized", format!("EDS of width {w} under app version 3 (bound 256)"), move || ExtendedDataSquare::new(shares, "Leopard".into(), AppVersion::V3))
        });
    }
}
