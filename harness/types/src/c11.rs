//! C11 — Blob share encoding round-trips and is sized correctly.
//!
//! Oracles: (1) the independent sparse-share splitter `lv_gen::refs::ref_split_blob` (bytes and count),
//! (2) round trip `reconstruct(to_shares(b)) == b`, also from the reference splitter's shares,
//! (3) `shares_len() == to_shares().len()`, (4) `reconstruct_all` over the concatenation of several blobs'
//! shares interleaved with reserved-namespace shares returns the blobs in order.
use celestia_types::consts::appconsts::AppVersion;
use celestia_types::nmt::Namespace;
use celestia_types::{Blob, Share};
use lv_common::Prng;
use lv_common::prelude::*;
use lv_gen::blob::{BlobSpec, Fill, app_version, blob_spec_strategy, boundary_lens, near_capacity_boundary};
use lv_gen::refs;

// ------------------------------------------------------------------------------------------------ single blob

fn describe_diff(a: &Blob, b: &Blob) -> String {
    let mut d = Vec::new();
    if a.namespace != b.namespace {
        d.push("namespace".to_string());
    }
    if a.data != b.data {
        d.push(format!("data (len {} vs {})", a.data.len(), b.data.len()));
    }
    if a.share_version != b.share_version {
        d.push(format!("share_version ({} vs {})", a.share_version, b.share_version));
    }
    if a.commitment != b.commitment {
        d.push("commitment".to_string());
    }
    if a.index != b.index {
        d.push("index".to_string());
    }
    if a.signer != b.signer {
        d.push("signer".to_string());
    }
    d.join(", ")
}

/// Build the blob of a spec with the code under test and apply every single-blob oracle.
/// Returns the blob and its shares for use by the list check (None when a known finding cut the case short).
fn check_single(spec: &BlobSpec, app: AppVersion, obs: &mut Obs) -> Result<Option<(Blob, Vec<Share>)>, Failure> {
    let ns = spec.namespace();
    let data = spec.data();
    let signer = spec.signer_addr();
    let signed = spec.signed();
    let len = data.len();
    let near = near_capacity_boundary(len, signed);
    let what = format!("len={len} signed={signed} app={app:?} ns={} fill={:?}", hex::encode(ns.as_bytes()), spec.fill);

    obs.eval((near || signed).then(|| digest_of(&(spec, app.as_u64()))));
    obs.label(if signed { "signed" } else { "unsigned" });
    if near {
        obs.label(if signed { "signed-boundary" } else { "unsigned-boundary" });
    }
    if signed && len > refs::FIRST_CAP_V1 && len <= refs::FIRST_CAP_V0 {
        obs.label("signed-len-459..478");
    }
    if !matches!(spec.fill, Fill::Random) {
        obs.label("payload-with-zero-or-ff-runs");
    }

    let blob = match Blob::new(ns, data.clone(), signer, app) {
        Ok(b) => b,
        Err(e) => {
            obs.fail("C11:blob-new-failed", format!("Blob::new failed for a valid blob ({what}): {e}"))?;
            return Ok(None);
        }
    };
    obs.check(
        blob.namespace == ns && blob.data == data && blob.signer == signer && blob.share_version == signed as u8 && blob.index.is_none(),
        "C11:blob-new-fields",
        || format!("Blob::new did not keep the given fields ({what})"),
    )?;

    // --- split, compared with the independent splitter
    let shares = match blob.to_shares() {
        Ok(s) => s,
        Err(e) => {
            obs.fail("C11:to-shares-failed", format!("to_shares failed ({what}): {e}"))?;
            return Ok(None);
        }
    };
    let ref_shares = spec.ref_shares();
    let ref_count = refs::ref_share_count(len, signed);
    if ref_shares.len() != ref_count {
        return Err(Failure::new("gen", format!("reference splitter and reference count disagree ({what})")));
    }
    if shares.len() > 1 {
        obs.label("multi-share");
    }
    obs.check(shares.len() == ref_count, "C11:share-count-differs-from-spec", || {
        format!("to_shares produced {} shares, the share format needs {ref_count} ({what})", shares.len())
    })?;
    if shares.len() == ref_count {
        for (i, (s, r)) in shares.iter().zip(&ref_shares).enumerate() {
            if s.as_ref() != &r[..] {
                let at = s.as_ref().iter().zip(r.iter()).position(|(a, b)| a != b).unwrap_or(0);
                obs.fail(
                    "C11:share-bytes-differ-from-spec",
                    format!("share {i} differs from the independent splitter at byte {at}: got {:#04x} want {:#04x} ({what})", s.as_ref()[at], r[at]),
                )?;
                break;
            }
        }
    }

    // --- reported size
    let reported = blob.shares_len();
    if reported != shares.len() {
        let sig = if signed && reported == refs::ref_share_count(len, false) { "C11:shares-len-ignores-signer" } else { "C11:shares-len-mismatch" };
        obs.fail(sig, format!("shares_len() = {reported} but to_shares() produced {} shares ({what})", shares.len()))?;
    }

    // --- share accessors on the produced shares
    if let Some(first) = shares.first() {
        let acc_ok = first.sequence_length() == Some(len as u32)
            && first.signer() == signer
            && shares.iter().all(|s| s.namespace() == ns && !s.is_parity())
            && shares.iter().skip(1).all(|s| s.sequence_length().is_none() && s.signer().is_none())
            && shares.iter().all(|s| s.info_byte().map(|i| i.version()) == Some(signed as u8));
        obs.check(acc_ok, "C11:share-accessors", || format!("share accessors (sequence_length/signer/namespace/version) disagree with the blob ({what})"))?;
    }

    // --- round trip
    match Blob::reconstruct(&shares, app) {
        Ok(back) => obs.check(back == blob, "C11:reconstruct-differs", || {
            format!("reconstruct(to_shares(b)) != b: differing fields: {} ({what})", describe_diff(&back, &blob))
        })?,
        Err(e) => obs.fail("C11:reconstruct-failed", format!("reconstruct(to_shares(b)) failed: {e} ({what})"))?,
    }
    // round trip starting from the reference splitter's shares (what another implementation would put on chain)
    let spec_shares: Result<Vec<Share>, _> = ref_shares.iter().map(|r| Share::from_raw(r)).collect();
    match spec_shares {
        Ok(ss) => match Blob::reconstruct(&ss, app) {
            Ok(back) => obs.check(back == blob, "C11:reconstruct-from-spec-shares-differs", || {
                format!("reconstruct(reference shares) != b: differing fields: {} ({what})", describe_diff(&back, &blob))
            })?,
            Err(e) => obs.fail("C11:reconstruct-from-spec-shares-failed", format!("reconstruct(reference shares) failed: {e} ({what})"))?,
        },
        Err(e) => obs.fail("C11:share-from-raw-failed", format!("Share::from_raw rejected a reference share: {e} ({what})"))?,
    }
    Ok(Some((blob, shares)))
}

// ------------------------------------------------------------------------------------------------ lists

#[derive(Clone, Debug, Serialize, Deserialize)]
pub enum Filler {
    Tx(u8),
    Pfb(u8),
    PrimaryPadding(u8),
    TailPadding(u8),
    Parity(u8),
    /// other primary reserved namespace 0x00..00<id>
    Primary { id: u8, n: u8 },
    /// secondary reserved namespace (version 255) with the given last byte
    Secondary { id: u8, n: u8 },
}

#[derive(Clone, Debug, Serialize, Deserialize)]
pub struct ListCase {
    pub app: u8,
    pub blobs: Vec<BlobSpec>,
    /// reserved-namespace shares placed before blob i (index blobs.len() = after the last blob)
    pub gaps: Vec<Vec<Filler>>,
    pub seed: u64,
    /// observation only: additionally place a namespace padding share after this blob
    pub ns_padding_after: Option<u16>,
}

fn reserved_share(ns: Namespace, seq_start: bool, rng: &mut Prng) -> Share {
    let mut b = vec![0u8; refs::SHARE];
    b[..refs::NS].copy_from_slice(ns.as_bytes());
    b[refs::NS] = seq_start as u8;
    rng.fill(&mut b[refs::NS + 1..]);
    if seq_start {
        b[refs::NS + 1..refs::NS + 5].copy_from_slice(&(300u32).to_be_bytes());
    }
    Share::from_raw(&b).expect("reserved share must parse")
}

fn filler_shares(f: &Filler, rng: &mut Prng) -> Vec<Share> {
    let (ns, n) = match f {
        Filler::Tx(n) => (Namespace::TRANSACTION, *n),
        Filler::Pfb(n) => (Namespace::PAY_FOR_BLOB, *n),
        Filler::PrimaryPadding(n) => (Namespace::PRIMARY_RESERVED_PADDING, *n),
        Filler::TailPadding(n) => (Namespace::TAIL_PADDING, *n),
        Filler::Primary { id, n } => (Namespace::const_v0([0, 0, 0, 0, 0, 0, 0, 0, 0, *id]), *n),
        Filler::Secondary { id, n } => (Namespace::const_v255(*id), *n),
        Filler::Parity(n) => {
            return (0..*n).map(|_| Share::parity(&rng.bytes(refs::SHARE)).expect("parity share")).collect();
        }
    };
    (0..n).map(|i| reserved_share(ns, i == 0, rng)).collect()
}

fn filler_strategy() -> impl Strategy<Value = Filler> {
    prop_oneof![
        2 => (1u8..4).prop_map(Filler::Tx),
        2 => (1u8..4).prop_map(Filler::Pfb),
        2 => (1u8..3).prop_map(Filler::PrimaryPadding),
        2 => (1u8..4).prop_map(Filler::TailPadding),
        1 => (1u8..3).prop_map(Filler::Parity),
        1 => (any::<u8>(), 1u8..3).prop_map(|(id, n)| Filler::Primary { id, n }),
        1 => (any::<u8>(), 1u8..3).prop_map(|(id, n)| Filler::Secondary { id, n }),
    ]
}

fn list_strategy(max_blobs: usize, max_len: u32) -> impl Strategy<Value = ListCase> {
    (
        1u8..=7,
        prop::collection::vec(blob_spec_strategy(max_len), 1..=max_blobs),
        prop::collection::vec(prop::collection::vec(filler_strategy(), 0..3), max_blobs + 1),
        any::<u64>(),
        prop::option::weighted(0.15, any::<u16>()),
    )
        .prop_map(|(app, blobs, gaps, seed, ns_padding_after)| ListCase { app, blobs, gaps, seed, ns_padding_after })
}

fn check_list(case: &ListCase, obs: &mut Obs) -> Result<(), Failure> {
    let app = app_version(case.app);
    let mut rng = Prng::new(case.seed);
    let mut blobs = Vec::new();
    let mut all: Vec<Share> = Vec::new();
    let mut fillers = 0usize;
    let mut blob_ends = Vec::new();
    for (i, spec) in case.blobs.iter().enumerate() {
        for f in case.gaps.get(i).map(|g| g.as_slice()).unwrap_or(&[]) {
            let s = filler_shares(f, &mut rng);
            fillers += s.len();
            all.extend(s);
        }
        // one app version for the whole list: signers exist from V3 on
        let mut spec = spec.clone();
        if app < AppVersion::V3 {
            spec.signer = None;
        }
        let Some((blob, shares)) = check_single(&spec, app, obs)? else { return Ok(()) };
        all.extend(shares);
        blob_ends.push(all.len());
        blobs.push(blob);
    }
    for f in case.gaps.get(case.blobs.len()).map(|g| g.as_slice()).unwrap_or(&[]) {
        let s = filler_shares(f, &mut rng);
        fillers += s.len();
        all.extend(s);
    }
    let adjacent_same_ns = blobs.windows(2).any(|w| w[0].namespace == w[1].namespace);
    let nontrivial = blobs.len() >= 2 || fillers > 0;
    obs.eval(nontrivial.then(|| digest_of(case)));
    obs.label(if blobs.len() >= 2 { "list-multi-blob" } else { "list-single-blob" });
    if fillers > 0 {
        obs.label("list-with-reserved-filler");
    }
    if adjacent_same_ns {
        obs.label("list-adjacent-blobs-same-namespace");
    }
    let what = format!("{} blobs (lens {:?}), {} reserved shares, {} shares total, app {app:?}", blobs.len(), blobs.iter().map(|b| b.data.len()).collect::<Vec<_>>(), fillers, all.len());
    match Blob::reconstruct_all(&all, app) {
        Ok(back) => {
            if back != blobs {
                let first = back.iter().zip(&blobs).position(|(a, b)| a != b).unwrap_or(back.len().min(blobs.len()));
                obs.fail(
                    "C11:reconstruct-all-differs",
                    format!("reconstruct_all returned {} blobs, expected {}; first difference at blob {first} ({what})", back.len(), blobs.len()),
                )?;
            }
        }
        Err(e) => obs.fail("C11:reconstruct-all-failed", format!("reconstruct_all failed: {e} ({what})"))?,
    }

    // Observation only (not part of the property: a namespace padding share lives in the *user* namespace):
    // what does reconstruct_all do with a namespace padding share between blobs?
    if let Some(sel) = case.ns_padding_after {
        let i = pick(sel, blobs.len());
        let pad = Share::from_raw(&refs::padding_share(&blobs[i].namespace.as_bytes().try_into().unwrap())).expect("padding share");
        let mut with_pad = all.clone();
        with_pad.insert(blob_ends[i], pad);
        match lv_common::no_panic(|| Blob::reconstruct_all(&with_pad, app)) {
            Ok(Ok(back)) if back == blobs => obs.label("obs:namespace-padding-ignored"),
            Ok(Ok(back)) => {
                obs.label("obs:namespace-padding-yields-extra-blob");
                obs.note(format!(
                    "observation (outside C11's statement): a namespace padding share between blobs makes reconstruct_all return {} blobs instead of {} (an extra blob with {} data bytes)",
                    back.len(),
                    blobs.len(),
                    back.get(i + 1).map(|b| b.data.len()).unwrap_or(0)
                ));
            }
            Ok(Err(e)) => {
                obs.label("obs:namespace-padding-makes-reconstruct-all-fail");
                obs.note(format!("observation (outside C11's statement): a namespace padding share between blobs makes reconstruct_all fail: {e}"));
            }
            Err(p) => {
                obs.label("obs:namespace-padding-panics");
                obs.note(format!("observation (outside C11's statement): namespace padding share makes reconstruct_all panic: {p}"));
            }
        }
    }
    Ok(())
}

// ------------------------------------------------------------------------------------------------ run

fn enumerated_specs() -> Vec<BlobSpec> {
    let mut out = Vec::new();
    for signed in [false, true] {
        let mut lens: Vec<usize> = (1..=1100).collect();
        lens.extend(boundary_lens(signed, 9));
        lens.sort();
        lens.dedup();
        for len in lens {
            let mut rng = Prng::new((len as u64) << 1 | signed as u64);
            let fill = match len % 11 {
                0 => Fill::Zeros,
                1 | 2 => Fill::ZeroTail,
                3 => Fill::Ones,
                _ => Fill::Random,
            };
            out.push(BlobSpec {
                ns_id: rng.array::<10>(),
                len: len as u32,
                signer: signed.then(|| rng.array::<20>()),
                app: if signed { 3 + (len % 5) as u8 } else { 1 + (len % 7) as u8 },
                fill,
                seed: rng.next_u64(),
            });
        }
    }
    out
}

pub fn run(ctx: &mut Ctx) {
    ctx.assume("reference = lv_gen::refs::ref_split_blob / ref_share_count, written from the celestia share format (29-byte namespace, info byte, 4-byte big-endian sequence length, 20-byte signer for share version 1, zero padding); sha2 only");
    ctx.assume("signed blobs are generated only with app version >= 3 (signers do not exist before); blob equality is the derived PartialEq on all six fields (commitment recomputed by reconstruct)");
    ctx.assume("lists interleave shares of RESERVED namespaces only (tx, pfb, primary padding, other primary/secondary reserved, tail padding, parity), placed between blobs; namespace padding shares (user namespace) are outside the statement and only observed");
    ctx.essential(&[
        "signed-len-459..478",
        "unsigned-boundary",
        "signed-boundary",
        "multi-share",
        "list-with-reserved-filler",
        "list-multi-blob",
        "list-adjacent-blobs-same-namespace",
    ]);

    ctx.enumerate(
        "all-lengths",
        "every data length 1..=1100 plus every length within +-2 of first_capacity(signer)+k*482 for k<=9, each without and with signer (namespace/payload/app version derived from the length). Per blob: to_shares bytes and count == independent splitter, shares_len == count, reconstruct(to_shares) == blob, reconstruct(reference shares) == blob, share accessors. Non-trivial = length within +-2 of a share-capacity boundary, or a signed blob",
        true,
        enumerated_specs(),
        |spec, obs| check_single(spec, spec.app(), obs).map(|_| ()),
    );

    let max_len = ctx.tier.pick(8192u32, 16_384u32);
    let singles = ctx.tier.pick(1_000_000, 1_500_000);
    ctx.proptest(
        "random-blobs",
        "random non-reserved namespaces (incl. smallest/largest), signers, app versions 1..7 (signed: 3..7), payload fills (random / zeros / zero tail / 0xff), lengths biased to capacity boundaries and uniform up to the tier's maximum; same oracles as all-lengths. Non-trivial = boundary length or signed blob (distinct by recipe)",
        singles,
        move || blob_spec_strategy(max_len),
        |spec, obs| check_single(spec, spec.app(), obs).map(|_| ()),
    );

    let lists = ctx.tier.pick(250_000, 400_000);
    let max_blobs = ctx.tier.pick(6usize, 10usize);
    let list_max_len = ctx.tier.pick(4096u32, 8192u32);
    ctx.proptest(
        "blob-lists",
        "1..6 (thorough 10) blobs under one app version, their shares concatenated in order with 0..2 runs of reserved-namespace shares before/between/after them: reconstruct_all == the blobs in order (each blob also passes the single-blob oracles). Non-trivial = at least two blobs or at least one reserved share present",
        lists,
        move || list_strategy(max_blobs, list_max_len),
        check_list,
    );
}
