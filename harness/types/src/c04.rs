//! C04 — A verified sample is the share at the requested coordinates.
use bytes::BytesMut;
use celestia_proto::proof::pb::Proof as RawProof;
use celestia_proto::shwap::{Sample as RawSample, Share as RawShare};
use celestia_types::consts::appconsts::AppVersion;
use celestia_types::sample::{Sample, SampleId};
use celestia_types::{AxisType, ExtendedDataSquare};
use lv_common::prelude::*;
use lv_gen::square::{SquareSpec, build_square, square_strategy};
use prost::Message;

#[derive(Clone, Debug, Serialize, Deserialize)]
pub enum Adv {
    /// honest (share, proof) of another position presented under the id
    OtherPos { r: u16, c: u16 },
    /// share bytes altered
    AlterShare { pos: u16, bit: u8 },
    /// proof range shifted
    ShiftRange { ds: i8, de: i8 },
    DropSibling { i: u16 },
    DupSibling { i: u16 },
    SwapSiblings { i: u16, j: u16 },
    /// sibling replaced by a sibling of the proof of another position
    ForeignSibling { i: u16, r: u16, c: u16 },
    /// axis flag flipped keeping the proof
    FlipAxis,
    /// honest share, proof taken from a different (smaller/larger) square
    OtherTree { other: SquareSpec, r: u16, c: u16 },
    /// share of another position with the proof of the requested position
    ShareOnly { r: u16, c: u16 },
    FlipIgnoreMaxNs,
}

#[derive(Clone, Debug, Serialize, Deserialize)]
pub struct Case {
    pub square: SquareSpec,
    pub coords: Vec<(u16, u16)>,
    pub advs: Vec<Adv>,
}

fn adv_strategy() -> impl Strategy<Value = Adv> {
    prop_oneof![
        4 => (any::<u16>(), any::<u16>()).prop_map(|(r, c)| Adv::OtherPos { r, c }),
        2 => (any::<u16>(), 0u8..8).prop_map(|(pos, bit)| Adv::AlterShare { pos, bit }),
        2 => (-2i8..=2, -2i8..=2).prop_map(|(ds, de)| Adv::ShiftRange { ds, de }),
        1 => any::<u16>().prop_map(|i| Adv::DropSibling { i }),
        1 => any::<u16>().prop_map(|i| Adv::DupSibling { i }),
        1 => (any::<u16>(), any::<u16>()).prop_map(|(i, j)| Adv::SwapSiblings { i, j }),
        1 => (any::<u16>(), any::<u16>(), any::<u16>()).prop_map(|(i, r, c)| Adv::ForeignSibling { i, r, c }),
        1 => Just(Adv::FlipAxis),
        1 => (square_strategy(0, 3), any::<u16>(), any::<u16>()).prop_map(|(other, r, c)| Adv::OtherTree { other, r, c }),
        2 => (any::<u16>(), any::<u16>()).prop_map(|(r, c)| Adv::ShareOnly { r, c }),
        1 => Just(Adv::FlipIgnoreMaxNs),
    ]
}

fn raw_of(s: &Sample) -> RawSample {
    RawSample::from(s.clone())
}

fn encode_raw(r: &RawSample) -> Vec<u8> {
    r.encode_to_vec()
}

fn axis_flip(a: i32) -> i32 {
    if a == AxisType::Row as i32 { AxisType::Col as i32 } else { AxisType::Row as i32 }
}

/// decode + verify under `id`; returns the accepted share bytes when accepted
/// A panic inside decode/verify is "not accepted" here (C16 owns the never-panics obligation);
/// it is counted under the label `panicked-instead-of-rejecting`.
fn accept(obs: &mut Obs, id: SampleId, bytes: &[u8], sq: &lv_gen::square::Square) -> Option<Vec<u8>> {
    let r = lv_common::no_panic(|| {
        let s = Sample::decode(id, bytes).ok()?;
        s.verify(id, &sq.dah).ok()?;
        Some(s.share.to_vec())
    });
    match r {
        Ok(v) => v,
        Err(rec) => {
            obs.label("panicked-instead-of-rejecting");
            obs.note(format!("panic while verifying an adversarial sample (owned by C16): {rec}"));
            None
        }
    }
}

fn check_adv(
    obs: &mut Obs,
    sq: &lv_gen::square::Square,
    eds: &ExtendedDataSquare,
    r: u16,
    c: u16,
    axis: AxisType,
    label: &str,
    raw: RawSample,
) -> Result<(), Failure> {
    let id = SampleId::new(r, c, 7).unwrap();
    let bytes = encode_raw(&raw);
    let expected = eds.share(r, c).unwrap().to_vec();
    let presented = raw.share.as_ref().map(|s| s.data.clone()).unwrap_or_default();
    let differs = presented != expected;
    obs.eval(differs.then(|| digest_bytes(&bytes) ^ ((r as u64) << 48 | (c as u64) << 32)));
    obs.label(label);
    if differs {
        obs.label("adversarial-share-differs");
    }
    if let Some(acc) = accept(obs, id, &bytes, sq) {
        if acc != expected {
            let w = eds.square_width();
            obs.fail(
                "C04:accepted-share-not-at-coordinates",
                format!(
                    "sample accepted for id ({r},{c}) axis {axis:?} (width {w}) but its share is not the share at ({r},{c}); adversarial kind {label}"
                ),
            )?;
        }
    }
    Ok(())
}

pub fn run(ctx: &mut Ctx) {
    ctx.assume("EDS built by ExtendedDataSquare::from_ods (the code under test); ground truth = eds.share(r,c) bytes");
    ctx.essential(&["honest-row", "honest-col", "same-row-other-col-rowproof", "same-col-other-row-colproof"]);
    let max_log2 = ctx.tier.pick(4, 6); // ODS width up to 16 (EDS 32) quick, 64 (EDS 128) thorough
    let cases = ctx.tier.pick(1600, 40000);
    let strat = move || (
        square_strategy(0, max_log2),
        prop::collection::vec((any::<u16>(), any::<u16>()), 6..12),
        prop::collection::vec(adv_strategy(), 10..24),
    )
        .prop_map(|(square, coords, advs)| Case { square, coords, advs });
    ctx.proptest(
        "samples",
        "per generated EDS: every coordinate (EDS width<=8) or sampled coordinates x both proof axes; honest sample via encode->decode->verify must be accepted with the right share; adversarial samples (other position's share+proof, altered share, shifted range, sibling edits, axis flip, foreign tree) accepted => share bytes equal eds.share(r,c). Non-trivial = adversarial case whose presented share differs from the share at the claimed coordinates (distinct by encoded bytes+id)",
        cases,
        strat,
        |case, obs| {
            let sq = build_square(&case.square, AppVersion::V3);
            let eds = &sq.eds;
            let w = eds.square_width();
            let coords: Vec<(u16, u16)> = if w <= 8 {
                (0..w).flat_map(|r| (0..w).map(move |c| (r, c))).collect()
            } else {
                case.coords.iter().map(|(a, b)| (pick(*a, w as usize) as u16, pick(*b, w as usize) as u16)).collect()
            };
            for &(r, c) in &coords {
                for axis in [AxisType::Row, AxisType::Col] {
                    let id = SampleId::new(r, c, 7).unwrap();
                    let honest = Sample::new(r, c, axis, eds).map_err(|e| Failure::new("gen", format!("Sample::new failed: {e}")))?;
                    // honest: encode -> decode -> verify
                    let mut buf = BytesMut::new();
                    honest.encode(&mut buf);
                    obs.eval(None);
                    obs.label(if axis == AxisType::Row { "honest-row" } else { "honest-col" });
                    match accept(obs, id, &buf, &sq) {
                        Some(sh) if sh == eds.share(r, c).unwrap().to_vec() => {}
                        Some(_) => obs.fail("C04:honest-wrong-share", format!("honest sample ({r},{c}) decoded to another share"))?,
                        None => obs.fail(
                            "C04:honest-rejected",
                            format!("honest sample ({r},{c}) axis {axis:?} width {w} rejected after encode/decode"),
                        )?,
                    }
                    let hraw = raw_of(&honest);
                    // systematic: same axis-line other positions (all for small squares, 3 sampled otherwise)
                    let others: Vec<u16> = if w <= 8 { (0..w).collect() } else { vec![0, w / 2, w - 1, (c + 1) % w, (r + 1) % w] };
                    for o in others {
                        let (r2, c2) = match axis {
                            AxisType::Row => (r, o),
                            AxisType::Col => (o, c),
                        };
                        if (r2, c2) == (r, c) {
                            continue;
                        }
                        let other = Sample::new(r2, c2, axis, eds).unwrap();
                        let label = if axis == AxisType::Row { "same-row-other-col-rowproof" } else { "same-col-other-row-colproof" };
                        check_adv(obs, &sq, eds, r, c, axis, label, raw_of(&other))?;
                    }
                    if w > 8 || (r + c) % 3 == 0 {
                        for adv in &case.advs {
                            let mut raw = hraw.clone();
                            let label: &str;
                            match adv {
                                Adv::OtherPos { r: a, c: b } => {
                                    let (r2, c2) = (pick(*a, w as usize) as u16, pick(*b, w as usize) as u16);
                                    raw = raw_of(&Sample::new(r2, c2, axis, eds).unwrap());
                                    label = "other-pos";
                                }
                                Adv::AlterShare { pos, bit } => {
                                    let sh = raw.share.as_mut().unwrap();
                                    let p = pick(*pos, sh.data.len());
                                    sh.data[p] ^= 1 << bit;
                                    label = "alter-share";
                                }
                                Adv::ShiftRange { ds, de } => {
                                    let p = raw.proof.as_mut().unwrap();
                                    p.start += *ds as i64;
                                    p.end += *de as i64;
                                    label = "shift-range";
                                }
                                Adv::DropSibling { i } => {
                                    let p = raw.proof.as_mut().unwrap();
                                    if !p.nodes.is_empty() {
                                        let k = pick(*i, p.nodes.len());
                                        p.nodes.remove(k);
                                    }
                                    label = "drop-sibling";
                                }
                                Adv::DupSibling { i } => {
                                    let p = raw.proof.as_mut().unwrap();
                                    if !p.nodes.is_empty() {
                                        let k = pick(*i, p.nodes.len());
                                        let n = p.nodes[k].clone();
                                        p.nodes.insert(k, n);
                                    }
                                    label = "dup-sibling";
                                }
                                Adv::SwapSiblings { i, j } => {
                                    let p = raw.proof.as_mut().unwrap();
                                    if p.nodes.len() >= 2 {
                                        let a = pick(*i, p.nodes.len());
                                        let b = pick(*j, p.nodes.len());
                                        p.nodes.swap(a, b);
                                    }
                                    label = "swap-siblings";
                                }
                                Adv::ForeignSibling { i, r: a, c: b } => {
                                    let (r2, c2) = (pick(*a, w as usize) as u16, pick(*b, w as usize) as u16);
                                    let f: RawProof = raw_of(&Sample::new(r2, c2, axis, eds).unwrap()).proof.unwrap();
                                    let p = raw.proof.as_mut().unwrap();
                                    if !p.nodes.is_empty() && !f.nodes.is_empty() {
                                        let k = pick(*i, p.nodes.len().min(f.nodes.len()));
                                        p.nodes[k] = f.nodes[k].clone();
                                    }
                                    label = "foreign-sibling";
                                }
                                Adv::FlipAxis => {
                                    raw.proof_type = axis_flip(raw.proof_type);
                                    label = "flip-axis";
                                }
                                Adv::OtherTree { other, r: a, c: b } => {
                                    let osq = build_square(other, AppVersion::V3);
                                    let ow = osq.eds.square_width();
                                    let (r2, c2) = (pick(*a, ow as usize) as u16, pick(*b, ow as usize) as u16);
                                    let o = raw_of(&Sample::new(r2, c2, axis, &osq.eds).unwrap());
                                    raw.proof = o.proof;
                                    label = "other-tree-proof";
                                }
                                Adv::ShareOnly { r: a, c: b } => {
                                    let (r2, c2) = (pick(*a, w as usize) as u16, pick(*b, w as usize) as u16);
                                    raw.share = Some(RawShare { data: eds.share(r2, c2).unwrap().to_vec() });
                                    label = "share-only";
                                }
                                Adv::FlipIgnoreMaxNs => {
                                    let p = raw.proof.as_mut().unwrap();
                                    p.is_max_namespace_ignored = !p.is_max_namespace_ignored;
                                    label = "flip-ignore-max-ns";
                                }
                            }
                            check_adv(obs, &sq, eds, r, c, axis, label, raw)?;
                        }
                    }
                }
            }
            Ok(())
        },
    );
}
