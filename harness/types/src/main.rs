//! lv-types: checks that need only celestia-types (C01–C08, C11–C15, C42, C46, C47, types half of C16).
use lv_common::{Ctx, parse_args};

mod c04;

fn main() {
    let args = parse_args();
    let level = "exploration";
    let mut ctx = Ctx::from_args(&args, level);
    match args.prop.as_str() {
        "C04" => c04::run(&mut ctx),
        other => {
            eprintln!("lv-types: unknown property {other}");
            std::process::exit(2);
        }
    }
    ctx.finish();
}
