//! lv-types: dispatcher. One module per property; each exposes `pub fn run(ctx: &mut Ctx)`.
use lv_common::{Ctx, parse_args};

mod c01;
mod c02;
mod c03;
mod c04;
mod c05;
mod c06;
mod c07;
mod c08;
mod c11;
mod c12;
mod c13;
mod c14;
mod c15;
mod c42;
mod c46;
mod c47;

fn main() {
    let args = parse_args();
    let level = "exploration";
    let mut ctx = Ctx::from_args(&args, level);
    match args.prop.as_str() {
        "C01" => c01::run(&mut ctx),
        "C02" => c02::run(&mut ctx),
        "C03" => c03::run(&mut ctx),
        "C04" => c04::run(&mut ctx),
        "C05" => c05::run(&mut ctx),
        "C06" => c06::run(&mut ctx),
        "C07" => c07::run(&mut ctx),
        "C08" => c08::run(&mut ctx),
        "C11" => c11::run(&mut ctx),
        "C12" => c12::run(&mut ctx),
        "C13" => c13::run(&mut ctx),
        "C14" => c14::run(&mut ctx),
        "C15" => c15::run(&mut ctx),
        "C42" => c42::run(&mut ctx),
        "C46" => c46::run(&mut ctx),
        "C47" => c47::run(&mut ctx),
        other => {
            eprintln!("lv-types: unknown property {other}");
            std::process::exit(2);
        }
    }
    ctx.finish();
}
