//! C01 — Header validation binds signatures, validator set and DAH.
//!
//! Per generated chain, for every header: (i) the honest header validates and survives the protobuf and JSON
//! round trips; (ii) every single-field mutant of every family at every applicable site fails `validate()` and
//! `decode_and_validate(encode(mutant))`. A surviving mutant is classified by a predicate computed from the case:
//! commit-signature sites that the light rule never examines (entry not Commit-flagged, or the Commit power
//! before it already exceeds 2/3) are the keyed open finding `C01:commit-sig-field-after-quorum`; anything else
//! is a violation.
use celestia_types::nmt::{NamespacedHash, NamespacedHashExt};
use celestia_types::{DataAvailabilityHeader, ExtendedHeader, ValidatorSet};
use ed25519_consensus::SigningKey;
use lv_common::Prng;
use lv_common::prelude::*;
use lv_gen::chain::{BlockSpec, ChainSpec, DahKind, TimeBase, VoteKind, build_chain, key_for, seal, val_info};
use lv_gen::hdrref::{ref_light_power, ref_light_power_before, sign_nil_slots_properly, sum_power};
use lv_gen::square::square_strategy;
use tendermint::block::{CommitSig, Id as BlockId, parts};
use tendermint::hash::{AppHash, Hash};
use tendermint::{Signature, Time, account};
use tendermint_proto::Protobuf;

#[derive(Clone, Debug, Serialize, Deserialize)]
pub struct Case {
    pub chain: ChainSpec,
    /// selectors for the sampled choices inside families (bit positions, swap partners)
    pub sels: Vec<u16>,
}

fn set_strategy() -> impl Strategy<Value = Vec<(u8, u64)>> {
    prop_oneof![
        // equal powers with a member count divisible by 3: dropping one vote lands exactly on 2/3
        2 => (prop_oneof![Just(3usize), Just(6usize)], prop_oneof![Just(1u64), 1u64..=1000]).prop_map(|(n, p)| (0..n as u8).map(|i| (i, p)).collect()),
        2 => prop::collection::vec((0u8..24, 1u64..=3), 1..=8),
        4 => lv_gen::chain::set_strategy(8),
    ]
}

fn block_strategy(max_log2: u8) -> impl Strategy<Value = BlockSpec> {
    let votes = prop_oneof![
        2 => Just(vec![]),
        3 => prop::collection::vec(lv_gen::chain::vote_strategy(), 0..=8),
        1 => prop::collection::vec(prop_oneof![Just(VoteKind::Nil), Just(VoteKind::Absent), Just(VoteKind::Commit)], 8),
    ];
    (
        1u32..600_000,
        votes,
        prop_oneof![2 => Just(DahKind::Empty), 3 => square_strategy(0, max_log2).prop_map(DahKind::Square)],
        prop_oneof![3 => Just(None), 1 => set_strategy().prop_map(Some)],
    )
        .prop_map(|(dt_ms, votes, dah, next_set)| BlockSpec {
            dt_ms,
            votes,
            dah,
            next_set,
        })
}

fn case_strategy(max_log2: u8) -> impl Strategy<Value = Case> {
    (
        any::<u64>(),
        lv_gen::chain::chain_id_strategy(),
        prop_oneof![3 => Just(1u64), 2 => 2u64..1000, 1 => (1u64 << 32)..(1u64 << 40)],
        1u8..=7,
        set_strategy(),
        prop::collection::vec(block_strategy(max_log2), 2..=6),
        prop::collection::vec(any::<u16>(), 48),
    )
        .prop_map(|(seed, chain_id, start_height, app_version, set0, blocks, sels)| Case {
            chain: ChainSpec {
                seed,
                chain_id,
                start_height,
                app_version,
                time_base: TimeBase::Fixed(1_600_000_000 + (seed % 100_000_000)),
                set0,
                blocks,
            },
            sels,
        })
}

fn flip_hash(h: &Hash, bit: u16) -> Hash {
    match h {
        Hash::Sha256(b) => {
            let mut b = *b;
            b[(bit as usize / 8) % 32] ^= 1 << (bit % 8);
            Hash::Sha256(b)
        }
        Hash::None => Hash::Sha256([0x5a; 32]),
    }
}

fn flip_addr(a: &account::Id, bit: u16) -> account::Id {
    let mut b: [u8; 20] = a.as_bytes().try_into().unwrap();
    b[(bit as usize / 8) % 20] ^= 1 << (bit % 8);
    account::Id::new(b)
}

fn flip_root(r: &NamespacedHash, bit: u16) -> NamespacedHash {
    let mut raw = r.to_array();
    // flip inside the 32-byte digest part (namespace-range bytes are covered by the swap/append families)
    let off = raw.len() - 32 + (bit as usize / 8) % 32;
    raw[off] ^= 1 << (bit % 8);
    NamespacedHash::from_raw(&raw).expect("90-byte root")
}

fn plus_nanos(t: Time, n: u64) -> Time {
    (t + std::time::Duration::from_nanos(n)).unwrap()
}

struct Judge<'a> {
    honest: &'a ExtendedHeader,
    honest_key: Vec<u8>,
}

impl Judge<'_> {
    /// `sig_idx` = the commit-signature entry the mutation touched (None for every other family).
    fn judge(&self, obs: &mut Obs, family: &'static str, site: &str, m: ExtendedHeader, sig_idx: Option<usize>) -> Result<(), Failure> {
        if m == *self.honest {
            obs.label("noop-skipped");
            return Ok(());
        }
        obs.label(family);
        let mut key = self.honest_key.clone();
        key.extend_from_slice(family.as_bytes());
        key.extend_from_slice(site.as_bytes());
        obs.eval(Some(digest_bytes(&key)));
        let accepted = match lv_common::no_panic(|| m.validate()) {
            Ok(r) => r.is_ok(),
            Err(rec) => {
                obs.label("panicked-instead-of-rejecting");
                obs.note(format!("panic while validating a mutant ({family}): {rec}"));
                false
            }
        };
        if accepted {
            self.classify(obs, family, site, &m, sig_idx, "validate()")?;
        }
        // wire form
        let wire = lv_common::no_panic(|| {
            let enc = m.clone().encode_vec();
            ExtendedHeader::decode_and_validate(&enc)
        });
        match wire {
            Ok(Ok(d)) => {
                if d == *self.honest {
                    obs.label("wire-noop");
                } else if !accepted {
                    // decoding normalised something but the result still differs from the honest header
                    self.classify(obs, family, site, &d, sig_idx, "decode_and_validate(encode(mutant))")?;
                }
            }
            Ok(Err(_)) => {}
            Err(rec) => {
                obs.label("panicked-instead-of-rejecting");
                obs.note(format!("panic while encoding/decoding a mutant ({family}): {rec}"));
            }
        }
        Ok(())
    }

    fn classify(&self, obs: &mut Obs, family: &str, site: &str, m: &ExtendedHeader, sig_idx: Option<usize>, via: &str) -> Result<(), Failure> {
        let cid = m.header.chain_id.as_str();
        let total = sum_power(&m.validator_set);
        let p = ref_light_power(&m.validator_set, cid, &m.commit);
        let h = self.honest.height();
        if 3 * p <= 2 * total {
            return obs.fail(
                "C01:accepted-without-two-thirds",
                format!("height {h}: mutant [{family} @ {site}] accepted by {via} although valid Commit power is {p} of {total} (not > 2/3)"),
            );
        }
        // which commit entries differ from the honest header, and does anything else differ?
        let hs = &self.honest.commit.signatures;
        let ms = &m.commit.signatures;
        let mut only_sigs = ms.len() == hs.len();
        if only_sigs {
            let mut probe = m.clone();
            probe.commit.signatures = hs.clone();
            only_sigs = probe == *self.honest;
        }
        if only_sigs {
            let differing: Vec<usize> = (0..ms.len()).filter(|&i| ms[i] != hs[i]).collect();
            if let Some(i) = sig_idx {
                if !differing.contains(&i) {
                    return obs.fail("gen", format!("mutant [{family} @ {site}] does not differ at entry {i}"));
                }
            }
            let unexamined = |i: usize| {
                let commit_flagged = matches!(ms.get(i), Some(CommitSig::BlockIdFlagCommit { .. }));
                !commit_flagged || 3 * ref_light_power_before(&m.validator_set, cid, &m.commit, i) > 2 * total
            };
            if !differing.is_empty() && differing.iter().all(|&i| unexamined(i)) {
                obs.label("survivor-unexamined-sig-site");
                return obs.fail(
                    "C01:commit-sig-field-after-quorum",
                    format!(
                        "height {h}: mutant [{family} @ {site}] accepted by {via}: it differs from the honest header only in commit entries {differing:?}, each either not Commit-flagged (skipped) or after the 2/3 quorum point (total {total})"
                    ),
                );
            }
        }
        if family == "sig-address" {
            return obs.fail(
                "C01:commit-sig-address-unbound",
                format!("height {h}: mutant [{family} @ {site}] accepted by {via}: the validator_address of an examined Commit vote is bound by nothing"),
            );
        }
        obs.fail(
            &format!("C01:mutant-accepted:{family}"),
            format!("height {h}: mutant [{family} @ {site}] accepted by {via} (set of {} validators, total power {total})", m.validator_set.validators().len()),
        )
    }
}

fn with_set(h: &ExtendedHeader, validators: Vec<tendermint::validator::Info>) -> Option<ExtendedHeader> {
    let total: u64 = validators.iter().map(|v| v.power()).sum();
    let mut m = h.clone();
    m.validator_set = ValidatorSet {
        validators,
        proposer: h.validator_set.proposer().clone(),
        total_voting_power: total.try_into().ok()?,
    };
    Some(m)
}

fn with_dah(h: &ExtendedHeader, rows: Vec<NamespacedHash>, cols: Vec<NamespacedHash>) -> ExtendedHeader {
    let mut m = h.clone();
    m.dah = DataAvailabilityHeader::new_unchecked(rows, cols);
    m
}

fn check_header(case: &Case, obs: &mut Obs, hi: usize, h: &ExtendedHeader, keys: &[SigningKey]) -> Result<(), Failure> {
    let seed = case.chain.seed;
    let sel = |k: usize| case.sels[(k + hi * 7) % case.sels.len()];
    let n = h.validator_set.validators().len();
    let cid = h.header.chain_id.as_str().to_string();
    let total = sum_power(&h.validator_set);
    if n > 1 {
        obs.label("multi-validator");
    }
    if h.commit.signatures.iter().any(|s| !matches!(s, CommitSig::BlockIdFlagCommit { .. })) {
        obs.label("non-commit-vote-present");
    }
    obs.label(&format!("dah-width-{}", h.dah.square_width()));

    // ---------------------------------------------------------------- (i) honest header
    obs.eval(None);
    obs.label("honest");
    h.validate().map_err(|e| Failure::new("C01:honest-rejected", format!("honest header {hi} (height {}) rejected by validate(): {e}", h.height())))?;
    let enc = h.clone().encode_vec();
    let d = ExtendedHeader::decode_and_validate(&enc)
        .map_err(|e| Failure::new("C01:honest-rejected", format!("honest header {hi} rejected by decode_and_validate after encode_vec: {e}")))?;
    obs.check(d == *h, "C01:honest-roundtrip-differs", || format!("protobuf round trip changed header {hi}: {h:?} -> {d:?}"))?;
    let js = serde_json::to_string(h).map_err(|e| Failure::new("C01:honest-rejected", format!("JSON serialisation failed: {e}")))?;
    let dj: ExtendedHeader =
        serde_json::from_str(&js).map_err(|e| Failure::new("C01:honest-rejected", format!("honest header {hi} rejected by the JSON round trip: {e}")))?;
    obs.check(dj == *h, "C01:honest-roundtrip-differs", || format!("JSON round trip changed header {hi}"))?;
    dj.validate().map_err(|e| Failure::new("C01:honest-rejected", format!("header {hi} after JSON round trip rejected: {e}")))?;

    let j = Judge {
        honest: h,
        honest_key: lv_gen::chain::hash_bytes(&h.hash()).to_vec(),
    };

    // ---------------------------------------------------------------- header fields covered by the block hash
    {
        let mut hf = |site: &'static str, f: &dyn Fn(&mut tendermint::block::Header)| -> Result<(), Failure> {
            let mut m = h.clone();
            f(&mut m.header);
            j.judge(obs, "hdr-field", site, m, None)
        };
        hf("version.block", &|x| x.version.block += 1)?;
        hf("version.app", &|x| x.version.app = if x.version.app < 7 { x.version.app + 1 } else { x.version.app - 1 })?;
        hf("chain_id", &|x| x.chain_id = format!("{}x", x.chain_id).try_into().unwrap())?;
        hf("height+1", &|x| x.height = (x.height.value() + 1).try_into().unwrap())?;
        if h.height() > 1 {
            hf("height-1", &|x| x.height = (x.height.value() - 1).try_into().unwrap())?;
        }
        hf("time+1ns", &|x| x.time = plus_nanos(x.time, 1))?;
        hf("time+1s", &|x| x.time = plus_nanos(x.time, 1_000_000_000))?;
        if h.header.last_block_id.is_some() {
            hf("last_block_id.hash", &|x| {
                let b = x.last_block_id.as_mut().unwrap();
                b.hash = flip_hash(&b.hash, sel(0));
            })?;
            hf("last_block_id.parts.total", &|x| x.last_block_id.as_mut().unwrap().part_set_header.total += 1)?;
            hf("last_block_id.parts.hash", &|x| {
                let b = x.last_block_id.as_mut().unwrap();
                b.part_set_header.hash = flip_hash(&b.part_set_header.hash, sel(1));
            })?;
            hf("last_block_id=None", &|x| x.last_block_id = None)?;
        } else {
            hf("last_block_id=Some", &|x| {
                x.last_block_id = Some(BlockId {
                    hash: Hash::Sha256([7; 32]),
                    part_set_header: parts::Header::new(1, Hash::Sha256([8; 32])).unwrap(),
                })
            })?;
        }
        hf("last_commit_hash", &|x| x.last_commit_hash = Some(flip_hash(&x.last_commit_hash.unwrap_or_default(), sel(2))))?;
        hf("last_commit_hash=None", &|x| x.last_commit_hash = None)?;
        hf("data_hash", &|x| x.data_hash = Some(flip_hash(&x.data_hash.unwrap_or_default(), sel(3))))?;
        hf("data_hash=None", &|x| x.data_hash = None)?;
        hf("validators_hash", &|x| x.validators_hash = flip_hash(&x.validators_hash, sel(4)))?;
        hf("next_validators_hash", &|x| x.next_validators_hash = flip_hash(&x.next_validators_hash, sel(5)))?;
        hf("consensus_hash", &|x| x.consensus_hash = flip_hash(&x.consensus_hash, sel(6)))?;
        hf("app_hash.flip", &|x| {
            let mut b = x.app_hash.as_bytes().to_vec();
            let k = pick(sel(7), b.len());
            b[k] ^= 1 << (sel(8) % 8);
            x.app_hash = AppHash::try_from(b).unwrap();
        })?;
        hf("app_hash.append", &|x| {
            let mut b = x.app_hash.as_bytes().to_vec();
            b.push(0);
            x.app_hash = AppHash::try_from(b).unwrap();
        })?;
        hf("app_hash.truncate", &|x| {
            let mut b = x.app_hash.as_bytes().to_vec();
            b.pop();
            x.app_hash = AppHash::try_from(b).unwrap();
        })?;
        hf("last_results_hash", &|x| x.last_results_hash = Some(flip_hash(&x.last_results_hash.unwrap_or_default(), sel(9))))?;
        hf("last_results_hash=None", &|x| x.last_results_hash = None)?;
        hf("evidence_hash", &|x| x.evidence_hash = Some(flip_hash(&x.evidence_hash.unwrap_or_default(), sel(10))))?;
        hf("evidence_hash=None", &|x| x.evidence_hash = None)?;
        hf("proposer_address", &|x| x.proposer_address = flip_addr(&x.proposer_address, sel(11)))?;
    }

    // ---------------------------------------------------------------- DAH roots
    let rows = h.dah.row_roots().to_vec();
    let cols = h.dah.column_roots().to_vec();
    let w = rows.len();
    for i in 0..w {
        let mut r = rows.clone();
        r[i] = flip_root(&r[i], sel(12 + i));
        j.judge(obs, "dah-root-flip", &format!("row{i}"), with_dah(h, r, cols.clone()), None)?;
        let mut c = cols.clone();
        c[i] = flip_root(&c[i], sel(13 + i));
        j.judge(obs, "dah-root-flip", &format!("col{i}"), with_dah(h, rows.clone(), c), None)?;
    }
    for k in 0..6 {
        let (a, b) = (pick(sel(20 + k), w), pick(sel(26 + k), w));
        let mut r = rows.clone();
        let mut c = cols.clone();
        let site = match k % 3 {
            0 => {
                r.swap(a, b);
                format!("row{a}<->row{b}")
            }
            1 => {
                c.swap(a, b);
                format!("col{a}<->col{b}")
            }
            _ => {
                std::mem::swap(&mut r[a], &mut c[b]);
                format!("row{a}<->col{b}")
            }
        };
        j.judge(obs, "dah-root-swap", &site, with_dah(h, r, c), None)?;
    }
    {
        let mut r = rows.clone();
        r.pop();
        j.judge(obs, "dah-drop-append", "drop-last-row", with_dah(h, r, cols.clone()), None)?;
        let mut c = cols.clone();
        c.pop();
        j.judge(obs, "dah-drop-append", "drop-last-col", with_dah(h, rows.clone(), c), None)?;
        let mut r = rows.clone();
        r.push(rows[w - 1].clone());
        j.judge(obs, "dah-drop-append", "append-row", with_dah(h, r, cols.clone()), None)?;
        let mut c = cols.clone();
        c.push(cols[w - 1].clone());
        j.judge(obs, "dah-drop-append", "append-col", with_dah(h, rows.clone(), c), None)?;
        let mut r = rows.clone();
        let mut c = cols.clone();
        r.pop();
        c.pop();
        j.judge(obs, "dah-drop-append", "drop-last-row-and-col", with_dah(h, r, c), None)?;
    }
    // re-sealed malformed DAH: honestly hashed and signed over a DAH whose shape validate_basic forbids
    {
        let mut variants: Vec<(&str, Vec<NamespacedHash>, Vec<NamespacedHash>)> = Vec::new();
        let mut c = cols.clone();
        c.pop();
        variants.push(("rows!=cols(drop col)", rows.clone(), c));
        let mut r = rows.clone();
        r.push(rows[0].clone());
        variants.push(("rows!=cols(extra row)", r, cols.clone()));
        variants.push(("width-1", rows[..1].to_vec(), cols[..1].to_vec()));
        variants.push(("width-0", vec![], vec![]));
        for (site, r, c) in variants {
            let mut m = with_dah(h, r, c);
            seal(&mut m, keys);
            sign_nil_slots_properly(&mut m, keys);
            obs.label("resealed-malformed-dah");
            obs.eval(Some(digest_bytes(&[j.honest_key.as_slice(), site.as_bytes()].concat())));
            let ok = lv_common::no_panic(|| m.validate()).map(|r| r.is_ok()).unwrap_or(false);
            obs.check(!ok, "C01:malformed-dah-accepted", || {
                format!("height {}: header honestly sealed over a malformed DAH ({site}) accepted by validate()", h.height())
            })?;
        }
    }

    // ---------------------------------------------------------------- validator set
    let vals = h.validator_set.validators().clone();
    for i in 0..n {
        // key replaced (address follows the key, so the set also survives protobuf decoding)
        let mut v = vals.clone();
        v[i] = val_info(&key_for(seed ^ 0x6b6579, 200 + i as u8), v[i].power());
        if let Some(m) = with_set(h, v) {
            j.judge(obs, "val-key", &format!("v{i}"), m, None)?;
        }
        // key replaced, address kept
        let mut v = vals.clone();
        v[i].pub_key = val_info(&key_for(seed ^ 0x6b6579, 200 + i as u8), 1).pub_key;
        if let Some(m) = with_set(h, v) {
            j.judge(obs, "val-key", &format!("v{i}-keep-address"), m, None)?;
        }
        for (d, name) in [(1i64, "+1"), (-1, "-1")] {
            let p = vals[i].power() as i64 + d;
            if p < 0 {
                continue;
            }
            let mut v = vals.clone();
            v[i].power = (p as u64).try_into().unwrap();
            if let Some(m) = with_set(h, v) {
                j.judge(obs, "val-power", &format!("v{i}{name}"), m, None)?;
            }
        }
        if n > 1 {
            let mut v = vals.clone();
            v.remove(i);
            if let Some(m) = with_set(h, v) {
                j.judge(obs, "valset-remove", &format!("v{i}"), m, None)?;
            }
            // removal together with its commit entry (keeps the lengths consistent)
            let mut v = vals.clone();
            v.remove(i);
            if let Some(mut m) = with_set(h, v) {
                m.commit.signatures.remove(i);
                j.judge(obs, "valset-remove", &format!("v{i}+entry"), m, None)?;
            }
        }
        if i + 1 < n {
            let mut v = vals.clone();
            v.swap(i, i + 1);
            if let Some(m) = with_set(h, v) {
                j.judge(obs, "valset-reorder", &format!("v{i}<->v{}", i + 1), m, None)?;
            }
            // validators and their commit entries swapped together
            let mut v = vals.clone();
            v.swap(i, i + 1);
            if let Some(mut m) = with_set(h, v) {
                m.commit.signatures.swap(i, i + 1);
                j.judge(obs, "valset-reorder", &format!("v{i}<->v{}+entries", i + 1), m, None)?;
            }
        }
    }
    for (pos, name) in [(n, "end"), (0, "front")] {
        let extra = val_info(&key_for(seed ^ 0xadd, 210), 1 + (sel(30) as u64 % 5));
        let mut v = vals.clone();
        v.insert(pos, extra.clone());
        if let Some(m) = with_set(h, v.clone()) {
            j.judge(obs, "valset-add", name, m, None)?;
        }
        if let Some(mut m) = with_set(h, v) {
            m.commit.signatures.insert(pos, CommitSig::BlockIdFlagAbsent);
            j.judge(obs, "valset-add", &format!("{name}+absent-entry"), m, None)?;
        }
    }

    // ---------------------------------------------------------------- commit-level fields
    {
        let mut cf = |family: &'static str, site: &str, f: &dyn Fn(&mut tendermint::block::Commit)| -> Result<(), Failure> {
            let mut m = h.clone();
            f(&mut m.commit);
            j.judge(obs, family, site, m, None)
        };
        cf("commit-block-id", "hash", &|c| c.block_id.hash = flip_hash(&c.block_id.hash, sel(31)))?;
        cf("commit-block-id", "parts.total", &|c| c.block_id.part_set_header.total += 1)?;
        cf("commit-block-id", "parts.hash", &|c| c.block_id.part_set_header.hash = flip_hash(&c.block_id.part_set_header.hash, sel(32)))?;
        cf("commit-height", "+1", &|c| c.height = (c.height.value() + 1).try_into().unwrap())?;
        if h.height() > 1 {
            cf("commit-height", "-1", &|c| c.height = (c.height.value() - 1).try_into().unwrap())?;
        }
        cf("commit-round", "+1", &|c| c.round = ((c.round.value() + 1) as u16).into())?;
    }

    // ---------------------------------------------------------------- per commit-signature entry
    for i in 0..n {
        let entry = h.commit.signatures[i].clone();
        let before = ref_light_power_before(&h.validator_set, &cid, &h.commit, i);
        let examined = matches!(entry, CommitSig::BlockIdFlagCommit { .. }) && 3 * before <= 2 * total;
        obs.label(if examined { "sig-site-examined" } else { "sig-site-unexamined" });
        let own = h.validator_set.validators()[i].address;
        let mut sf = |family: &'static str, site: String, e: CommitSig| -> Result<(), Failure> {
            let mut m = h.clone();
            m.commit.signatures[i] = e;
            j.judge(obs, family, &site, m, Some(i))
        };
        let rnd_sig = Signature::new(Prng::new(seed ^ (hi as u64) << 8 ^ i as u64).array::<64>()).unwrap().unwrap();
        match &entry {
            CommitSig::BlockIdFlagCommit {
                validator_address,
                timestamp,
                signature,
            }
            | CommitSig::BlockIdFlagNil {
                validator_address,
                timestamp,
                signature,
            } => {
                let is_commit = matches!(entry, CommitSig::BlockIdFlagCommit { .. });
                let mk = |a: account::Id, t: Time, s: Option<Signature>, commit_flag: bool| {
                    if commit_flag {
                        CommitSig::BlockIdFlagCommit {
                            validator_address: a,
                            timestamp: t,
                            signature: s,
                        }
                    } else {
                        CommitSig::BlockIdFlagNil {
                            validator_address: a,
                            timestamp: t,
                            signature: s,
                        }
                    }
                };
                let (a, t, s) = (*validator_address, *timestamp, signature.clone());
                // signature bytes
                let mut sb: [u8; 64] = s.as_ref().unwrap().as_bytes().try_into().unwrap();
                let bit = sel(33 + i) as usize % 512;
                sb[bit / 8] ^= 1 << (bit % 8);
                sf("sig-bytes", format!("e{i}.bit{bit}"), mk(a, t, Some(Signature::new(sb).unwrap().unwrap()), is_commit))?;
                sf("sig-bytes", format!("e{i}.random"), mk(a, t, Some(rnd_sig.clone()), is_commit))?;
                sf("sig-bytes", format!("e{i}.none"), mk(a, t, None, is_commit))?;
                if n > 1 {
                    // another validator's (valid) signature
                    let o = (i + 1) % n;
                    if let CommitSig::BlockIdFlagCommit { signature: Some(os), .. } | CommitSig::BlockIdFlagNil { signature: Some(os), .. } =
                        &h.commit.signatures[o]
                    {
                        sf("sig-bytes", format!("e{i}.sig-of-e{o}"), mk(a, t, Some(os.clone()), is_commit))?;
                    }
                }
                // timestamp
                sf("sig-timestamp", format!("e{i}+1ns"), mk(a, plus_nanos(t, 1), s.clone(), is_commit))?;
                sf("sig-timestamp", format!("e{i}+1s"), mk(a, plus_nanos(t, 1_000_000_000), s.clone(), is_commit))?;
                // validator address
                sf("sig-address", format!("e{i}.bitflip"), mk(flip_addr(&a, sel(34 + i)), t, s.clone(), is_commit))?;
                if n > 1 {
                    let o = (i + 1 + pick(sel(35 + i), n - 1)) % n;
                    sf("sig-address", format!("e{i}.addr-of-v{o}"), mk(h.validator_set.validators()[o].address, t, s.clone(), is_commit))?;
                }
                // flag
                sf("sig-flag", format!("e{i}.{}", if is_commit { "commit->nil" } else { "nil->commit" }), mk(a, t, s.clone(), !is_commit))?;
                sf("sig-flag", format!("e{i}.->absent"), CommitSig::BlockIdFlagAbsent)?;
                if is_commit && examined {
                    // does removing this vote land the remaining Commit power exactly on 2/3?
                    let p = ref_light_power(&h.validator_set, &cid, &h.commit);
                    let mine = h.validator_set.validators()[i].power() as u128;
                    if 3 * (p - mine) == 2 * total {
                        obs.label("flag-change-to-exact-two-thirds");
                    }
                }
            }
            CommitSig::BlockIdFlagAbsent => {
                let t = h.header.time;
                sf(
                    "sig-flag",
                    format!("e{i}.absent->commit"),
                    CommitSig::BlockIdFlagCommit {
                        validator_address: own,
                        timestamp: t,
                        signature: Some(rnd_sig.clone()),
                    },
                )?;
                sf(
                    "sig-flag",
                    format!("e{i}.absent->nil"),
                    CommitSig::BlockIdFlagNil {
                        validator_address: own,
                        timestamp: t,
                        signature: Some(rnd_sig.clone()),
                    },
                )?;
                sf(
                    "sig-flag",
                    format!("e{i}.absent->commit-nosig"),
                    CommitSig::BlockIdFlagCommit {
                        validator_address: own,
                        timestamp: t,
                        signature: None,
                    },
                )?;
            }
        }
    }
    Ok(())
}

pub fn run(ctx: &mut Ctx) {
    ctx.assume("honest headers come from lv_gen::chain (hashes by tendermint's Header::hash / ValidatorSet::hash and DataAvailabilityHeader::hash — the hashing itself is trusted, the binding checks are under test); signatures are made with ed25519-consensus over a hand-written canonical-vote encoding; Nil votes are signed as real nil precommits");
    ctx.assume("survivor classification uses an independent tally (u128, ed25519-consensus) — a mutant accepted while the reference finds <= 2/3 valid Commit power is always a violation");
    ctx.assume("validator Info.address / name / proposer_priority and the set's proposer field are not mutated: the property lists validator key and power only");
    ctx.essential(&[
        "honest",
        "multi-validator",
        "non-commit-vote-present",
        "hdr-field",
        "dah-root-flip",
        "dah-root-swap",
        "dah-drop-append",
        "resealed-malformed-dah",
        "val-key",
        "val-power",
        "valset-reorder",
        "valset-remove",
        "valset-add",
        "commit-block-id",
        "commit-height",
        "commit-round",
        "sig-bytes",
        "sig-timestamp",
        "sig-address",
        "sig-flag",
        "sig-site-examined",
        "sig-site-unexamined",
        "flag-change-to-exact-two-thirds",
    ]);
    let max_log2 = 4; // ODS width up to 16 => EDS width 2..32
    let cases = ctx.tier.pick(480, 6000);
    ctx.proptest(
        "mutants",
        "per generated chain of 2..6 headers (1..8 validators incl. equal-power sets of 3/6, app V1..V7, empty block or squares of EDS width 2..32, Commit/Nil/Absent mixes, set rotation): each honest header must validate and survive protobuf and JSON round trips; every single-field mutant (each hash-covered header field; every DAH row/column root bit-flipped, sampled swaps, drop/append; each validator key/power, reorder, removal, addition; commit block id / part-set header / height / round; per commit entry: signature bytes, timestamp, validator address, every flag change) must fail validate() and decode_and_validate(encode). Semantic no-ops are skipped. Non-trivial = every real mutant, distinct by (honest block hash, family, site)",
        cases,
        move || case_strategy(max_log2),
        |case, obs| {
            let chain = build_chain(&case.chain);
            for (hi, h0) in chain.headers.iter().enumerate() {
                let mut h = h0.clone();
                sign_nil_slots_properly(&mut h, &chain.keys[hi]);
                check_header(case, obs, hi, &h, &chain.keys[hi])?;
            }
            Ok(())
        },
    );
}
