//! C47 — Bech32 addresses round-trip and reject wrong kinds.
//!
//! Oracle: a BIP-173 bech32 encoder/decoder written in this file (polymod, charset, strict 5->8 bit
//! regrouping); the `bech32` crate is NOT used by the harness.
//!   * display(a) == ref_encode(prefix(kind), id) and parse(display(a)) == a (all three kinds + the `Address` enum + JSON);
//!   * for every adversarial string s: `s.parse::<K>()` is Ok(a') only if s is a bech32 (checksum constant 1)
//!     string whose human readable part is K's prefix and whose data part is the canonical 5-bit regrouping
//!     of exactly 20 bytes, and a'.id is those bytes.
use std::str::FromStr;

use celestia_types::state::{AccAddress, Address, AddressTrait, ConsAddress, ValAddress};
use lv_common::prelude::*;

const CHARSET: &[u8; 32] = b"qpzry9x8gf2tvdw0s3jn54khce6mua7l";
const GEN: [u32; 5] = [0x3b6a57b2, 0x26508e6d, 0x1ea119fa, 0x3d4233dd, 0x2a1462b3];
const BECH32_CONST: u32 = 1;
const BECH32M_CONST: u32 = 0x2bc830a3;

pub const PREFIXES: [&str; 3] = ["celestia", "celestiavaloper", "celestiavalcons"];

fn polymod(values: impl Iterator<Item = u8>) -> u32 {
    let mut chk: u32 = 1;
    for v in values {
        let top = chk >> 25;
        chk = (chk & 0x1ffffff) << 5 ^ (v as u32);
        for (i, g) in GEN.iter().enumerate() {
            if (top >> i) & 1 == 1 {
                chk ^= g;
            }
        }
    }
    chk
}

fn hrp_expand(hrp: &str) -> Vec<u8> {
    let mut v: Vec<u8> = hrp.bytes().map(|b| b >> 5).collect();
    v.push(0);
    v.extend(hrp.bytes().map(|b| b & 31));
    v
}

/// 8 -> 5 bit regrouping with zero padding
pub fn to_5bit(data: &[u8]) -> Vec<u8> {
    let mut acc: u32 = 0;
    let mut bits = 0;
    let mut out = Vec::new();
    for b in data {
        acc = (acc << 8) | *b as u32;
        bits += 8;
        while bits >= 5 {
            bits -= 5;
            out.push(((acc >> bits) & 31) as u8);
        }
    }
    if bits > 0 {
        out.push(((acc << (5 - bits)) & 31) as u8);
    }
    out
}

#[derive(Debug, PartialEq, Clone, Copy)]
pub enum PadErr {
    /// 5 or more left-over bits (a whole superfluous symbol)
    TooMuch,
    NonZero,
}

/// strict 5 -> 8 bit regrouping (BIP-173: incomplete group of at most 4 bits, all zero)
pub fn from_5bit(sym: &[u8]) -> Result<Vec<u8>, PadErr> {
    let mut acc: u32 = 0;
    let mut bits = 0;
    let mut out = Vec::new();
    for s in sym {
        acc = ((acc << 5) | *s as u32) & 0xfff;
        bits += 5;
        if bits >= 8 {
            bits -= 8;
            out.push((acc >> bits) as u8);
        }
    }
    if bits >= 5 {
        return Err(PadErr::TooMuch);
    }
    if acc & ((1 << bits) - 1) != 0 {
        return Err(PadErr::NonZero);
    }
    Ok(out)
}

/// encode 5-bit symbols under `hrp` with checksum constant `konst`
pub fn ref_encode_syms(hrp: &str, syms: &[u8], konst: u32) -> String {
    let mut v = hrp_expand(hrp);
    v.extend_from_slice(syms);
    v.extend_from_slice(&[0; 6]);
    let pm = polymod(v.into_iter()) ^ konst;
    let mut s = String::from(hrp);
    s.push('1');
    for d in syms {
        s.push(CHARSET[*d as usize] as char);
    }
    for i in 0..6 {
        s.push(CHARSET[((pm >> (5 * (5 - i))) & 31) as usize] as char);
    }
    s
}

pub fn ref_encode(hrp: &str, data: &[u8]) -> String {
    ref_encode_syms(hrp, &to_5bit(data), BECH32_CONST)
}

#[derive(Debug, PartialEq, Clone)]
pub enum RefDecode {
    /// valid bech32 string: (lower-cased hrp, payload bytes)
    Ok(String, Vec<u8>),
    NotBech32(&'static str),
    /// the checksum verifies under the Bech32m constant, not the bech32 one
    Bech32m,
    BadChecksum,
    Padding(PadErr),
}

pub fn ref_decode(s: &str) -> RefDecode {
    if !s.is_ascii() {
        return RefDecode::NotBech32("non-ascii");
    }
    let has_lower = s.bytes().any(|b| b.is_ascii_lowercase());
    let has_upper = s.bytes().any(|b| b.is_ascii_uppercase());
    if has_lower && has_upper {
        return RefDecode::NotBech32("mixed case");
    }
    let s = s.to_ascii_lowercase();
    let Some(sep) = s.rfind('1') else { return RefDecode::NotBech32("no separator") };
    let (hrp, data) = (&s[..sep], &s[sep + 1..]);
    if hrp.is_empty() || hrp.bytes().any(|b| !(33..=126).contains(&b)) {
        return RefDecode::NotBech32("bad hrp");
    }
    if data.len() < 6 {
        return RefDecode::NotBech32("data part shorter than the checksum");
    }
    let mut syms = Vec::with_capacity(data.len());
    for c in data.bytes() {
        match CHARSET.iter().position(|x| *x == c) {
            Some(p) => syms.push(p as u8),
            None => return RefDecode::NotBech32("character outside the charset"),
        }
    }
    let mut v = hrp_expand(hrp);
    v.extend_from_slice(&syms);
    match polymod(v.into_iter()) {
        BECH32_CONST => {}
        BECH32M_CONST => return RefDecode::Bech32m,
        _ => return RefDecode::BadChecksum,
    }
    match from_5bit(&syms[..syms.len() - 6]) {
        Ok(bytes) => RefDecode::Ok(hrp.to_string(), bytes),
        Err(e) => RefDecode::Padding(e),
    }
}

#[derive(Clone, Debug, Serialize, Deserialize)]
pub enum IdSpec {
    Zeros,
    Ones,
    /// 0,1,2,..,19
    Counting,
    /// a single non-zero byte
    OneByte(u8, u8),
    Random([u8; 20]),
}

impl IdSpec {
    fn bytes(&self) -> [u8; 20] {
        match self {
            IdSpec::Zeros => [0; 20],
            IdSpec::Ones => [0xff; 20],
            IdSpec::Counting => std::array::from_fn(|i| i as u8),
            IdSpec::OneByte(p, v) => {
                let mut b = [0u8; 20];
                b[*p as usize % 20] = *v;
                b
            }
            IdSpec::Random(b) => *b,
        }
    }
}

#[derive(Clone, Debug, Serialize, Deserialize)]
pub struct Case {
    pub id: IdSpec,
    /// seed for the payloads of wrong-length strings and the foreign prefixes
    pub seed: u64,
    /// extra non-charset characters tried at every position
    pub odd: Vec<u8>,
}

/// Parse `s` as every kind (and as the enum) and hold each acceptance against the reference decoder.
/// Returns how many of the four parsers accepted.
fn judge(obs: &mut Obs, s: &str, class: &str) -> Result<u32, Failure> {
    let rd = ref_decode(s);
    let results: [(usize, Option<[u8; 20]>); 3] = [
        (0, AccAddress::from_str(s).ok().map(|a| a.as_bytes().try_into().unwrap())),
        (1, ValAddress::from_str(s).ok().map(|a| a.as_bytes().try_into().unwrap())),
        (2, ConsAddress::from_str(s).ok().map(|a| a.as_bytes().try_into().unwrap())),
    ];
    let any = Address::from_str(s).ok();
    let mut accepted = 0;
    let verdict = |obs: &mut Obs, who: &str, kind: usize, id: [u8; 20]| -> Result<(), Failure> {
        let want_hrp = PREFIXES[kind];
        match &rd {
            RefDecode::Ok(hrp, bytes) if hrp == want_hrp && bytes[..] == id[..] => Ok(()),
            RefDecode::Ok(hrp, bytes) if hrp != want_hrp => obs.fail(
                "C47:other-prefix-accepted",
                format!("[{class}] {s:?} parsed as {who} (prefix {want_hrp}) although its prefix is {hrp:?} ({} byte payload)", bytes.len()),
            ),
            RefDecode::Ok(_, bytes) => obs.fail(
                "C47:wrong-length-or-id-accepted",
                format!("[{class}] {s:?} parsed as {who} with id {id:02x?} although its payload is the {} bytes {bytes:02x?}", bytes.len()),
            ),
            RefDecode::Bech32m => obs.fail(
                "C47:bech32m-checksum-accepted",
                format!("[{class}] {s:?} parsed as {who} although its checksum is a Bech32m checksum (constant 0x2bc830a3), not a bech32 one"),
            ),
            RefDecode::Padding(e) => obs.fail(
                "C47:noncanonical-padding-accepted",
                format!("[{class}] {s:?} parsed as {who} (id {id:02x?}) although its data part is not the regrouping of whole bytes ({e:?}): it is not the bech32 encoding of a 20-byte id"),
            ),
            RefDecode::BadChecksum => obs.fail("C47:bad-checksum-accepted", format!("[{class}] {s:?} parsed as {who} although its checksum does not verify")),
            RefDecode::NotBech32(why) => obs.fail("C47:non-bech32-accepted", format!("[{class}] {s:?} parsed as {who} although it is not a bech32 string ({why})")),
        }
    };
    for (kind, r) in results {
        if let Some(id) = r {
            accepted += 1;
            verdict(obs, ["AccAddress", "ValAddress", "ConsAddress"][kind], kind, id)?;
        }
    }
    if let Some(a) = any {
        accepted += 1;
        let kind = match a {
            Address::AccAddress(_) => 0,
            Address::ValAddress(_) => 1,
            Address::ConsAddress(_) => 2,
        };
        verdict(obs, "Address", kind, a.as_bytes().try_into().unwrap())?;
    }
    Ok(accepted)
}

fn adversarial(obs: &mut Obs, s: &str, class: &str, rejected_label: &str) -> Result<(), Failure> {
    obs.eval(Some(digest_bytes(s.as_bytes())));
    let n = judge(obs, s, class)?;
    if n == 0 {
        obs.label(rejected_label);
    } else {
        obs.label(&format!("{class}-accepted"));
    }
    Ok(())
}

fn check_kind<A>(obs: &mut Obs, kind: usize, id: [u8; 20], c: &Case) -> Result<(), Failure>
where
    A: AddressTrait + From<[u8; 20]> + PartialEq + std::fmt::Debug + Copy + Serialize + serde::de::DeserializeOwned + Into<Address>,
    <A as FromStr>::Err: std::fmt::Display,
{
    let prefix = PREFIXES[kind];
    let a = A::from(id);
    let s = a.to_string();
    let want = ref_encode(prefix, &id);
    // ---- display / parse round trip
    obs.eval(Some(digest_bytes(s.as_bytes())));
    obs.label("display-parse-roundtrip");
    obs.check(s == want, "C47:display-not-bech32", || format!("display of {prefix} id {id:02x?} is {s:?}, the bech32 encoding is {want:?}"))?;
    obs.check(s.starts_with(&format!("{prefix}1")), "C47:display-prefix", || format!("{s:?} does not start with {prefix}1"))?;
    obs.check(a.prefix() == prefix && a.as_bytes() == &id[..], "C47:accessors", || format!("prefix()/as_bytes() of {s} disagree"))?;
    match A::from_str(&s) {
        Ok(back) => obs.check(back == a, "C47:roundtrip", || format!("parse(display(a)) = {back:?} != {a:?}"))?,
        Err(e) => obs.fail("C47:roundtrip", format!("parse(display(a)) failed for {s}: {e}"))?,
    }
    let as_enum: Address = a.into();
    match Address::from_str(&s) {
        Ok(back) => obs.check(back == as_enum && back.to_string() == s, "C47:roundtrip", || format!("Address::from_str({s}) = {back:?}, expected {as_enum:?}"))?,
        Err(e) => obs.fail("C47:roundtrip", format!("Address::from_str({s}) failed: {e}"))?,
    }
    // JSON form
    let js = serde_json::to_string(&a).map_err(|e| Failure::new("C47:roundtrip", format!("serialize failed: {e}")))?;
    obs.check(js == format!("\"{s}\""), "C47:json-form", || format!("JSON form {js} is not the quoted display string"))?;
    match serde_json::from_str::<A>(&js) {
        Ok(back) => obs.check(back == a, "C47:roundtrip", || format!("JSON round trip of {s} gives {back:?}"))?,
        Err(e) => obs.fail("C47:roundtrip", format!("JSON round trip of {s} failed: {e}"))?,
    }
    match serde_json::from_str::<Address>(&js) {
        Ok(back) => obs.check(back == as_enum, "C47:roundtrip", || format!("JSON round trip of {s} through Address gives {back:?}"))?,
        Err(e) => obs.fail("C47:roundtrip", format!("JSON round trip of {s} through Address failed: {e}"))?,
    }
    // the honest string is accepted by exactly its own kind and the enum
    let n = judge(obs, &s, "honest")?;
    obs.check(n == 2, "C47:other-prefix-accepted", || format!("{s} accepted by {n} of the 4 parsers, expected 2 (its kind and Address)"))?;

    // ---- every single-character substitution
    let chars: Vec<char> = s.chars().collect();
    let mut subs: Vec<char> = CHARSET.iter().map(|b| *b as char).collect();
    subs.extend(['1', 'b', 'i', 'o', 'Q', 'A', '-', ' ', '\u{e9}']);
    subs.extend(c.odd.iter().map(|b| (*b % 128) as char));
    for i in 0..chars.len() {
        for &ch in &subs {
            if ch == chars[i] {
                continue;
            }
            let mut t = chars.clone();
            t[i] = ch;
            let t: String = t.into_iter().collect();
            adversarial(obs, &t, "substitution", "substitution-rejected")?;
        }
    }
    // ---- every deletion, every insertion of a charset symbol (and of '1')
    for i in 0..chars.len() {
        let mut t = chars.clone();
        t.remove(i);
        let t: String = t.into_iter().collect();
        adversarial(obs, &t, "deletion", "deletion-rejected")?;
    }
    for i in 0..=chars.len() {
        for &ch in subs.iter().take(33) {
            let mut t = chars.clone();
            t.insert(i, ch);
            let t: String = t.into_iter().collect();
            adversarial(obs, &t, "insertion", "insertion-rejected")?;
        }
    }
    // adjacent transpositions
    for i in 0..chars.len() - 1 {
        if chars[i] != chars[i + 1] {
            let mut t = chars.clone();
            t.swap(i, i + 1);
            let t: String = t.into_iter().collect();
            adversarial(obs, &t, "transposition", "transposition-rejected")?;
        }
    }
    // ---- case
    let upper = s.to_ascii_uppercase();
    obs.eval(Some(digest_bytes(upper.as_bytes())));
    match A::from_str(&upper) {
        // BIP-173 allows the all-uppercase form; when accepted it must denote the same address
        Ok(back) => {
            obs.label("uppercase-accepted");
            obs.check(back == a, "C47:uppercase-other-address", || format!("{upper} parsed to {back:?}, expected {a:?}"))?;
        }
        Err(_) => obs.label("uppercase-rejected"),
    }
    judge(obs, &upper, "uppercase")?;
    for i in 0..chars.len() {
        if chars[i].is_ascii_lowercase() {
            let mut t = chars.clone();
            t[i] = t[i].to_ascii_uppercase();
            let t: String = t.into_iter().collect();
            adversarial(obs, &t, "mixed-case", "mixed-case-rejected")?;
        }
    }
    // ---- other prefixes with a correct checksum
    let mut rng = lv_common::Prng::new(c.seed);
    let foreign = ["cosmos", "celesti", "celestiaa", "celestiavaloperr", "celestiavalcon", "celestiaval", "c", "celestia1", "valoper"];
    for p in PREFIXES.iter().chain(foreign.iter()) {
        if *p == prefix {
            continue;
        }
        let t = ref_encode(p, &id);
        obs.eval(Some(digest_bytes(t.as_bytes())));
        match A::from_str(&t) {
            Ok(x) => obs.fail("C47:other-prefix-accepted", format!("{t} (prefix {p}) parsed as a {prefix} address {x:?}"))?,
            Err(_) => obs.label("other-kind-prefix-rejected"),
        }
        let n = judge(obs, &t, "other-prefix")?;
        let own = PREFIXES.contains(p);
        obs.check(n == if own { 2 } else { 0 }, "C47:other-prefix-accepted", || format!("{t}: accepted by {n} parsers, expected {}", if own { 2 } else { 0 }))?;
    }
    // ---- wrong payload lengths with a correct checksum
    for len in [0usize, 1, 19, 21, 32, 33, 40] {
        let mut payload = rng.bytes(len);
        let l = len.min(20);
        payload[..l].copy_from_slice(&id[..l]);
        let t = ref_encode(prefix, &payload);
        adversarial(obs, &t, "wrong-length", "wrong-length-rejected")?;
    }
    // ---- the same payload under the Bech32m checksum constant
    let m = ref_encode_syms(prefix, &to_5bit(&id), BECH32M_CONST);
    adversarial(obs, &m, "bech32m-variant", "bech32m-variant-rejected")?;
    // ---- non-canonical data parts with a correct bech32 checksum: superfluous symbols after the 32 that carry the id
    let syms = to_5bit(&id);
    for extra in [0u8, 1, 16, 31, (rng.below(32)) as u8] {
        let mut v = syms.clone();
        v.push(extra);
        let t = ref_encode_syms(prefix, &v, BECH32_CONST);
        adversarial(obs, &t, "superfluous-symbol", "superfluous-symbol-rejected")?;
    }
    // 19 bytes + non-zero padding bits, 20 bytes + 2 symbols
    {
        let mut v = to_5bit(&id[..19]);
        *v.last_mut().unwrap() |= 1;
        adversarial(obs, &ref_encode_syms(prefix, &v, BECH32_CONST), "nonzero-padding", "nonzero-padding-rejected")?;
        let mut v = syms.clone();
        v.extend_from_slice(&[0, 0]);
        adversarial(obs, &ref_encode_syms(prefix, &v, BECH32_CONST), "wrong-length", "wrong-length-rejected")?;
    }
    // ---- garbage
    for t in ["", "1", prefix, &format!("{prefix}1"), &s[..s.len() - 6], &format!("{s} "), &format!(" {s}"), &format!("{s}\n")] {
        adversarial(obs, t, "garbage", "garbage-rejected")?;
    }
    Ok(())
}

pub fn run(ctx: &mut Ctx) {
    ctx.assume("reference bech32 (BIP-173 polymod/charset/regrouping) is written in the harness; the kind prefixes celestia / celestiavaloper / celestiavalcons are taken from the Cosmos SDK configuration of celestia-app");
    ctx.assume("BIP-173's all-uppercase form is a bech32 encoding of the same address and may be accepted; mixed case is not bech32");
    ctx.essential(&[
        "display-parse-roundtrip",
        "substitution-rejected",
        "deletion-rejected",
        "insertion-rejected",
        "mixed-case-rejected",
        "other-kind-prefix-rejected",
        "wrong-length-rejected",
        "bech32m-variant-rejected",
        "superfluous-symbol-rejected",
    ]);
    // self-test of the reference codec on the BIP-173 vectors
    ctx.enumerate(
        "reference-self-test",
        "the harness' bech32 reference reproduces BIP-173 test vectors (valid, invalid checksum, bech32m)",
        false,
        vec![0u8],
        |_, obs| {
            obs.eval(None);
            for v in ["A12UEL5L", "a12uel5l", "abcdef1qpzry9x8gf2tvdw0s3jn54khce6mua7lmqqqxw", "split1checkupstagehandshakeupstreamerranterredcaperred2y9e3w"] {
                if !matches!(ref_decode(v), RefDecode::Ok(..) | RefDecode::Padding(_)) {
                    return Err(Failure::new("gen", format!("reference decoder rejects the BIP-173 vector {v}: {:?}", ref_decode(v))));
                }
            }
            for v in ["A1G7SGD8", "a12uel5m", "pzry9x0s0muk", "1pzry9x0s0muk", "x1b4n0q5v", "li1dgmt3", "A1LQFN3A"] {
                if matches!(ref_decode(v), RefDecode::Ok(..)) {
                    return Err(Failure::new("gen", format!("reference decoder accepts the invalid vector {v}")));
                }
            }
            if ref_decode("a1lqfn3a") != RefDecode::Bech32m {
                return Err(Failure::new("gen", "reference decoder does not recognise the BIP-350 vector a1lqfn3a as bech32m"));
            }
            // segwit v0 P2WPKH from BIP-173: witness program round trip through the regrouping
            let prog: Vec<u8> = (0..20).map(|i| i * 7 + 1).collect();
            if from_5bit(&to_5bit(&prog)).as_deref() != Ok(&prog[..]) {
                return Err(Failure::new("gen", "5<->8 bit regrouping does not round trip"));
            }
            if ref_encode("celestia", &[0u8; 20]).len() != 8 + 1 + 32 + 6 {
                return Err(Failure::new("gen", "unexpected reference string length"));
            }
            Ok(())
        },
    );
    let cases = ctx.tier.pick(400, 3_000);
    ctx.proptest(
        "addresses",
        "per generated 20-byte id (zeros, 0xff, counting, single byte, random) and each of the 3 kinds: display == reference bech32 encoding, parse/JSON round trips, and for the displayed string every single-character substitution (32 charset symbols + '1', 'b','i','o', upper case, '-', ' ', 'é', extra bytes), every deletion, every insertion (32 symbols + '1'), adjacent transpositions, upper/mixed case, 11 other prefixes with recomputed checksum, payloads of 0/1/19/21/22/32/33/40 bytes, the Bech32m checksum variant, superfluous/non-zero padding symbols with a valid checksum: a parser may accept only the canonical bech32 encoding of a 20-byte id under its own prefix. Non-trivial = every adversarial or honest string evaluated (distinct by string)",
        cases,
        || {
            (
                prop_oneof![
                    1 => Just(IdSpec::Zeros),
                    1 => Just(IdSpec::Ones),
                    1 => Just(IdSpec::Counting),
                    2 => (0u8..20, 1u8..=255).prop_map(|(p, v)| IdSpec::OneByte(p, v)),
                    12 => any::<[u8; 20]>().prop_map(IdSpec::Random),
                ],
                any::<u64>(),
                prop::collection::vec(any::<u8>(), 0..3),
            )
                .prop_map(|(id, seed, odd)| Case { id, seed, odd })
        },
        |c, obs| {
            let id = c.id.bytes();
            check_kind::<AccAddress>(obs, 0, id, c)?;
            check_kind::<ValAddress>(obs, 1, id, c)?;
            check_kind::<ConsAddress>(obs, 2, id, c)?;
            Ok(())
        },
    );
}
