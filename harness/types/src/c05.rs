//! C05 — Row retrieval returns exactly the committed row (celestia-types half:
//! `Row::new / encode / decode / from_raw / verify`; the shrex codec half lives in lv-node).
use bytes::BytesMut;
use celestia_proto::shwap::{Row as RawRow, Share as RawShare, row::HalfSide};
use celestia_types::consts::appconsts::AppVersion;
use celestia_types::row::{Row, RowId};
use celestia_types::{DataAvailabilityHeader, Share};
use lv_common::prelude::*;
use lv_gen::square::{SquareSpec, build_square, square_strategy};
use lv_gen::sqx::RawSquare;
use prost::Message;

#[derive(Clone, Debug, Serialize, Deserialize)]
pub enum RowMut {
    /// one bit of one share
    FlipBit { share: u16, pos: u16, bit: u8 },
    /// two shares exchanged
    Swap { a: u16, b: u16 },
    /// the honest row j presented for row i
    OtherRow { j: u16 },
    /// the honest column j presented for row i
    Column { j: u16 },
    Drop { i: u16 },
    /// a share of the same row appended
    Append { from: u16 },
    Reverse,
    /// share a copied over share b
    Overwrite { a: u16, b: u16 },
    RotateLeft,
    /// all shares removed
    Empty,
    /// keep only the first n shares
    Truncate { n: u16 },
}

#[derive(Clone, Debug, Serialize, Deserialize)]
pub struct Case {
    pub square: SquareSpec,
    pub rows: Vec<u16>,
    pub muts: Vec<RowMut>,
}

fn mut_strategy() -> impl Strategy<Value = RowMut> {
    prop_oneof![
        4 => (any::<u16>(), any::<u16>(), 0u8..8).prop_map(|(share, pos, bit)| RowMut::FlipBit { share, pos, bit }),
        4 => (any::<u16>(), any::<u16>()).prop_map(|(a, b)| RowMut::Swap { a, b }),
        3 => any::<u16>().prop_map(|j| RowMut::OtherRow { j }),
        1 => any::<u16>().prop_map(|j| RowMut::Column { j }),
        2 => any::<u16>().prop_map(|i| RowMut::Drop { i }),
        2 => any::<u16>().prop_map(|from| RowMut::Append { from }),
        1 => Just(RowMut::Reverse),
        2 => (any::<u16>(), any::<u16>()).prop_map(|(a, b)| RowMut::Overwrite { a, b }),
        1 => Just(RowMut::RotateLeft),
        1 => Just(RowMut::Empty),
        1 => any::<u16>().prop_map(|n| RowMut::Truncate { n }),
    ]
}

fn label_of(m: &RowMut) -> &'static str {
    match m {
        RowMut::FlipBit { .. } => "mut-flip-bit",
        RowMut::Swap { .. } => "mut-swap-shares",
        RowMut::OtherRow { .. } => "mut-other-row",
        RowMut::Column { .. } => "mut-column-as-row",
        RowMut::Drop { .. } => "mut-drop-share",
        RowMut::Append { .. } => "mut-append-share",
        RowMut::Reverse => "mut-reverse",
        RowMut::Overwrite { .. } => "mut-overwrite-share",
        RowMut::RotateLeft => "mut-rotate",
        RowMut::Empty => "mut-empty",
        RowMut::Truncate { .. } => "mut-truncate",
    }
}

/// apply a mutation to a list of shares (a whole row or one half of it)
fn apply(m: &RowMut, v: &[Vec<u8>], raw: &RawSquare, half: Option<bool>) -> Vec<Vec<u8>> {
    let mut out = v.to_vec();
    let n = out.len();
    // the part of another axis corresponding to the part being mutated
    let part = |axis: Vec<Vec<u8>>| -> Vec<Vec<u8>> {
        let k = axis.len() / 2;
        match half {
            None => axis,
            Some(false) => axis[..k].to_vec(),
            Some(true) => axis[k..].to_vec(),
        }
    };
    match m {
        RowMut::FlipBit { share, pos, bit } => {
            if n > 0 {
                let s = pick(*share, n);
                let p = pick(*pos, out[s].len());
                out[s][p] ^= 1 << bit;
            }
        }
        RowMut::Swap { a, b } => {
            if n > 1 {
                out.swap(pick(*a, n), pick(*b, n));
            }
        }
        RowMut::OtherRow { j } => out = part(raw.axis(true, pick(*j, raw.w))),
        RowMut::Column { j } => out = part(raw.axis(false, pick(*j, raw.w))),
        RowMut::Drop { i } => {
            if n > 0 {
                out.remove(pick(*i, n));
            }
        }
        RowMut::Append { from } => {
            if n > 0 {
                let s = out[pick(*from, n)].clone();
                out.push(s);
            }
        }
        RowMut::Reverse => out.reverse(),
        RowMut::Overwrite { a, b } => {
            if n > 1 {
                let s = out[pick(*a, n)].clone();
                out[pick(*b, n)] = s;
            }
        }
        RowMut::RotateLeft => {
            if n > 1 {
                out.rotate_left(1);
            }
        }
        RowMut::Empty => out.clear(),
        RowMut::Truncate { n: keep } => out.truncate(pick(*keep, n)),
    }
    out
}

fn bytes_of(row: &Row) -> Vec<Vec<u8>> {
    row.shares.iter().map(|s| s.to_vec()).collect()
}

fn digest_rows(tag: u64, row: usize, v: &[Vec<u8>]) -> u64 {
    let mut d = tag.wrapping_mul(0x9E3779B97F4A7C15) ^ (row as u64) << 40;
    for s in v {
        d = d.rotate_left(7) ^ digest_bytes(s);
    }
    d
}

fn raw_row(half: &[Vec<u8>], right: bool) -> RawRow {
    RawRow {
        shares_half: half.iter().map(|d| RawShare { data: d.clone() }).collect(),
        half_side: if right { HalfSide::Right as i32 } else { HalfSide::Left as i32 },
    }
}

/// decode + verify; `Some(row bytes)` iff both succeeded. A panic is "not accepted" for this
/// property (C16 owns never-panics); it is labelled and noted.
fn decode_verify(obs: &mut Obs, id: RowId, wire: &[u8], dah: &DataAvailabilityHeader, what: &str) -> Option<Vec<Vec<u8>>> {
    let r = lv_common::no_panic(|| {
        let row = Row::decode(id, wire).ok()?;
        row.verify(id, dah).ok()?;
        Some(bytes_of(&row))
    });
    match r {
        Ok(v) => v,
        Err(rec) => {
            obs.label("panicked-instead-of-rejecting");
            obs.label(&format!("panic-site:{}", lv_gen::sqx::panic_site(&rec)));
            obs.note(format!("panic in Row::decode/verify on {what} (owned by C16): {rec}"));
            None
        }
    }
}

pub fn run(ctx: &mut Ctx) {
    ctx.assume("the committed square is the one ExtendedDataSquare::from_ods produced for a generated ODS; ground truth for row i = the raw bytes of eds.data_square() at row i; DAH = DataAvailabilityHeader::from_eds (its roots are cross-checked against an independent NMT in C08)");
    ctx.assume("shrex ResponseCodec half of C05 is checked in lv-node, not here");
    ctx.essential(&["left-roundtrip", "right-reconstruct", "parity-row", "mutant-differs-direct", "mutant-differs-left", "mutant-differs-right", "mut-flip-bit", "mut-swap-shares", "mut-other-row"]);

    let max_log2 = ctx.tier.pick(5, 6); // ODS width up to 32 (EDS 64) quick, 64 (EDS 128) thorough
    let cases = ctx.tier.pick(2400, 20000);
    let strat = move || {
        (
            square_strategy(0, max_log2),
            prop::collection::vec(any::<u16>(), 6),
            prop::collection::vec(mut_strategy(), 8..16),
        )
            .prop_map(|(square, rows, muts)| Case { square, rows, muts })
    };
    let rule = "per generated EDS and every row i: Row::new -> encode (left half) -> Row::decode must equal row i; a hand-built right-half RawRow must reconstruct to row i; both must verify under id i. Mutated rows (bit flip, swap, other row, column, drop, append, reverse, overwrite, rotate, empty, truncate) are presented (a) directly as Row{shares}, (b) as a mutated left half, (c) as a mutated right half: verify Ok => the row's bytes equal row i of the square. Non-trivial = right-half reconstruction, or a mutant whose bytes differ from row i (distinct by route+row+bytes)";
    let body = |case: &Case, obs: &mut Obs| -> Result<(), Failure> {
        let sq = build_square(&case.square, AppVersion::V3);
        let raw = RawSquare::from_eds(&sq.eds);
        let (w, k) = (raw.w, raw.k());
        let mut_rows: Vec<usize> = if w <= 16 {
            (0..w).collect()
        } else {
            let mut v = vec![0, k - 1, k, w - 1];
            v.extend(case.rows.iter().map(|s| pick(*s, w)));
            v
        };
        for i in 0..w {
            let id = RowId::new(i as u16, 9).unwrap();
            let expected = raw.axis(true, i);
            if i >= k {
                obs.label("parity-row");
            }
            // ---- honest: left half through the wire
            let row = Row::new(i as u16, &sq.eds).map_err(|e| Failure::new("gen", format!("Row::new: {e}")))?;
            let mut buf = BytesMut::new();
            row.encode(&mut buf);
            obs.eval(None);
            obs.label("left-roundtrip");
            let dec = lv_common::no_panic(|| Row::decode(id, &buf));
            match dec {
                Ok(Ok(d)) => {
                    obs.check(bytes_of(&d) == expected, "C05:left-roundtrip-differs", || format!("row {i} of width {w}: decode(encode(row)) differs from the row"))?;
                    obs.check(d.shares == sq.eds.row(i as u16).unwrap(), "C05:left-roundtrip-share-kind", || format!("row {i} of width {w}: decoded shares differ from eds.row (parity flag)"))?;
                    obs.check(d.verify(id, &sq.dah).is_ok(), "C05:honest-row-rejected", || format!("row {i} of width {w}: decoded honest row fails verify"))?;
                }
                Ok(Err(e)) => obs.fail("C05:left-roundtrip-error", format!("row {i} of width {w}: decode(encode(row)) failed: {e}"))?,
                Err(rec) => obs.fail("C05:left-roundtrip-panic", format!("row {i} of width {w}: decode(encode(row)) panicked: {rec}"))?,
            }
            // ---- honest: right half, hand built
            let wire = raw_row(&expected[k..], true).encode_to_vec();
            obs.eval(Some(digest_rows(1, i, &expected[k..])));
            obs.label("right-reconstruct");
            let dec = lv_common::no_panic(|| Row::decode(id, &wire));
            match dec {
                Ok(Ok(d)) => {
                    obs.check(bytes_of(&d) == expected, "C05:right-reconstruct-differs", || format!("row {i} of width {w}: reconstruction from the right half differs from the row"))?;
                    obs.check(d.shares == sq.eds.row(i as u16).unwrap(), "C05:right-reconstruct-share-kind", || format!("row {i} of width {w}: reconstructed shares differ from eds.row (parity flag)"))?;
                    obs.check(d.verify(id, &sq.dah).is_ok(), "C05:honest-row-rejected", || format!("row {i} of width {w}: reconstructed honest row fails verify"))?;
                }
                Ok(Err(e)) => obs.fail("C05:right-reconstruct-error", format!("row {i} of width {w}: reconstruction from the right half failed: {e}"))?,
                Err(rec) => obs.fail("C05:right-reconstruct-panic", format!("row {i} of width {w}: reconstruction from the right half panicked: {rec}"))?,
            }
            // honest row under every other id must verify only if equal by value
            if w <= 16 {
                for j in 0..w {
                    if j == i {
                        continue;
                    }
                    let other = raw.axis(true, j);
                    let differs = other != expected;
                    obs.eval(differs.then(|| digest_rows(2, i, &other) ^ j as u64));
                    obs.label("honest-row-under-other-id");
                    let jid = RowId::new(j as u16, 9).unwrap();
                    let acc = lv_common::no_panic(|| row.verify(jid, &sq.dah).is_ok()).unwrap_or(false);
                    if acc && differs {
                        obs.fail("C05:accepted-row-not-committed", format!("honest row {i} verified under id {j} (width {w}) although the rows differ"))?;
                    }
                }
            }
            if !mut_rows.contains(&i) {
                continue;
            }
            // ---- mutants
            for m in &case.muts {
                let ml = label_of(m);
                // (a) direct Row{shares}
                let mutated = apply(m, &expected, &raw, None);
                let shares: Option<Vec<Share>> = mutated
                    .iter()
                    .enumerate()
                    .map(|(c, b)| if i < k && c < k { Share::from_raw(b).ok() } else { Share::parity(b).ok() })
                    .collect();
                if let Some(shares) = shares {
                    let differs = mutated != expected;
                    obs.eval(differs.then(|| digest_rows(3, i, &mutated)));
                    obs.label(ml);
                    if differs {
                        obs.label("mutant-differs-direct");
                    }
                    let r = Row { shares };
                    let acc = match lv_common::no_panic(|| r.verify(id, &sq.dah).is_ok()) {
                        Ok(a) => a,
                        Err(rec) => {
                            obs.label("panicked-instead-of-rejecting");
                            obs.label(&format!("panic-site:{}", lv_gen::sqx::panic_site(&rec)));
                            obs.note(format!("panic in Row::verify on a direct mutant (owned by C16): {rec}"));
                            false
                        }
                    };
                    if acc && differs {
                        obs.fail("C05:accepted-row-not-committed", format!("Row::verify accepted a row for index {i} (width {w}) whose shares differ from row {i}; mutation {m:?}"))?;
                    }
                    if !acc && !differs {
                        obs.fail("C05:honest-row-rejected", format!("Row::verify rejected row {i} (width {w}) presented unchanged; mutation {m:?} was a no-op"))?;
                    }
                } else {
                    obs.label("mutant-unbuildable-share");
                }
                // (b)/(c) mutated half through the wire
                for right in [false, true] {
                    let half: &[Vec<u8>] = if right { &expected[k..] } else { &expected[..k] };
                    let mh = apply(m, half, &raw, Some(right));
                    let changed = mh != half;
                    let wire = raw_row(&mh, right).encode_to_vec();
                    let got = decode_verify(obs, id, &wire, &sq.dah, ml);
                    obs.eval(changed.then(|| digest_rows(if right { 5 } else { 4 }, i, &mh)));
                    if changed {
                        obs.label(if right { "mutant-differs-right" } else { "mutant-differs-left" });
                    }
                    match got {
                        Some(b) => {
                            obs.label("half-mutant-accepted");
                            if b != expected {
                                obs.fail(
                                    "C05:accepted-row-not-committed",
                                    format!("a mutated {} half decoded and verified for index {i} (width {w}) but the resulting row differs from row {i}; mutation {m:?}", if right { "right" } else { "left" }),
                                )?;
                            }
                        }
                        None => {
                            if !changed {
                                obs.fail("C05:honest-row-rejected", format!("unchanged {} half of row {i} (width {w}) was rejected; mutation {m:?} was a no-op", if right { "right" } else { "left" }))?;
                            }
                        }
                    }
                }
            }
        }
        Ok(())
    };
    ctx.proptest("rows", rule, cases, strat, body);

    // the widest squares leopard's GF(2^8) code supports (EDS 256), thorough tier only
    if ctx.tier == Tier::Thorough {
        let strat = || {
            (square_strategy(7, 7), prop::collection::vec(any::<u16>(), 6), prop::collection::vec(mut_strategy(), 8..12))
                .prop_map(|(square, rows, muts)| Case { square, rows, muts })
        };
        ctx.proptest("rows-eds256", rule, 6, strat, body);
    }
}
