//! C03 — Commit verification enforces the voting-power thresholds.
//!
//! Code under test: `ValidatorSetExt::{verify_commit_light, verify_commit_light_trusting}` and
//! `TrustLevelRatio::voting_power_needed` (reached directly through the cfg-guarded re-export of
//! `ValidatorSetExt`, which otherwise sits in a private module).
//! Oracle: `lv_gen::hdrref` — u128 tallies over signatures checked with ed25519-consensus against the
//! hand-encoded canonical vote.
use celestia_types::trust_level::{DEFAULT_TRUST_LEVEL, TrustLevelRatio};
use celestia_types::{ValidatorSet, ValidatorSetExt};
use ed25519_consensus::SigningKey;
use lv_common::Prng;
use lv_common::prelude::*;
use lv_gen::chain::{build_set, canonical_vote_bytes, hash_bytes, key_for, time_parts, val_info};
use lv_gen::hdrref::{
    Prepared, Slot, light_entry_valid, light_well_formed, nil_vote_bytes, prepare, ref_light_power, ref_light_power_before,
    ref_trusting_power, sum_power, trusting_well_formed,
};
use lv_gen::refs::sha256;
use tendermint::block::{Commit, CommitSig, Id as BlockId, parts};
use tendermint::hash::Hash;
use tendermint::{Signature, account, chain};

#[derive(Clone, Debug, Serialize, Deserialize)]
pub enum Powers {
    Equal { n: u8, p: u64 },
    Geometric { n: u8, base: u8, first: u64 },
    Random(Vec<u64>),
    /// group A (powers `a`) and group B (|b_split|+1 members) with ΣB = 2·ΣA + eps: the A-subset sits on the
    /// 1/3 boundary and the B-subset on the 2/3 boundary (eps = 0 exact, ±1 one unit either side)
    Engineered { a: Vec<u64>, b_split: Vec<u16>, eps: i8 },
    /// struct-literal set whose total is just below i64::MAX (above tendermint's MAX_TOTAL_VOTING_POWER,
    /// which `Set::new` refuses): the tally arithmetic must give a verdict, not panic
    Huge { n: u8, skew: Vec<u16> },
}

#[derive(Clone, Copy, Debug, Serialize, Deserialize)]
pub enum ForgeKind {
    Random,
    OtherKey,
    OtherHeight,
    OtherChain,
    OtherTimestamp,
    NilSigAsCommit,
    BitFlip(u16),
}

#[derive(Clone, Debug, Serialize, Deserialize)]
pub enum Fault {
    /// entry `pos` becomes a Commit-flagged entry of validator `pos` carrying a forged signature
    Forge { pos: u16, kind: ForgeKind },
    /// verify_commit_light called for a height other than the commit's
    WrongHeight { delta: i8 },
    DropLast,
    AppendExtra,
    /// entry `dst` := copy of entry `src` (same address, same valid signature)
    Dup { src: u16, dst: u16 },
    /// entry `pos` keeps its valid signature but names an address outside the set
    Unknown { pos: u16 },
    Swap { i: u16, j: u16 },
}

#[derive(Clone, Debug, Serialize, Deserialize)]
pub struct TrustedPlan {
    pub keep_mask: u16,
    pub powers: Vec<u64>,
    pub extra: Vec<u64>,
}

#[derive(Clone, Debug, Serialize, Deserialize)]
pub struct Case {
    pub seed: u64,
    pub powers: Powers,
    pub chain_id: String,
    pub height: u64,
    pub round: u8,
    /// what a non-signer's entry looks like, per validator: 0 Absent, 1 proper nil vote, 2 Nil flag on a block signature
    pub nil_kinds: Vec<u8>,
    /// sampled signer subsets (used for n >= 8 and for fault application)
    pub masks: Vec<u16>,
    pub faults: Vec<Fault>,
    pub trusted: Vec<TrustedPlan>,
}

fn power_small() -> impl Strategy<Value = u64> {
    prop_oneof![3 => 1u64..=4, 2 => 1u64..=100, 1 => 1u64..=(1u64 << 40)]
}

fn powers_strategy(max_n: u8) -> impl Strategy<Value = Powers> {
    prop_oneof![
        3 => (1u8..=max_n, prop_oneof![Just(1u64), 1u64..=1000, 1u64..=(1u64 << 40)]).prop_map(|(n, p)| Powers::Equal { n, p }),
        2 => (1u8..=max_n, 2u8..=3, 1u64..=5).prop_map(|(n, base, first)| Powers::Geometric { n, base, first }),
        4 => prop::collection::vec(power_small(), 1..=(max_n as usize)).prop_map(Powers::Random),
        4 => (prop::collection::vec(power_small(), 1..=3), prop::collection::vec(any::<u16>(), 0..=3), -1i8..=1)
            .prop_map(|(a, b_split, eps)| Powers::Engineered { a, b_split, eps }),
        1 => (1u8..=max_n, prop::collection::vec(any::<u16>(), 0..=10)).prop_map(|(n, skew)| Powers::Huge { n, skew }),
    ]
}

fn forge_kind() -> impl Strategy<Value = ForgeKind> {
    prop_oneof![
        Just(ForgeKind::Random),
        Just(ForgeKind::OtherKey),
        Just(ForgeKind::OtherHeight),
        Just(ForgeKind::OtherChain),
        Just(ForgeKind::OtherTimestamp),
        Just(ForgeKind::NilSigAsCommit),
        (0u16..512).prop_map(ForgeKind::BitFlip),
    ]
}

fn fault_strategy() -> impl Strategy<Value = Fault> {
    prop_oneof![
        5 => (any::<u16>(), forge_kind()).prop_map(|(pos, kind)| Fault::Forge { pos, kind }),
        1 => prop_oneof![Just(-1i8), Just(1i8), Just(7i8)].prop_map(|delta| Fault::WrongHeight { delta }),
        1 => Just(Fault::DropLast),
        1 => Just(Fault::AppendExtra),
        3 => (any::<u16>(), any::<u16>()).prop_map(|(src, dst)| Fault::Dup { src, dst }),
        1 => any::<u16>().prop_map(|pos| Fault::Unknown { pos }),
        1 => (any::<u16>(), any::<u16>()).prop_map(|(i, j)| Fault::Swap { i, j }),
    ]
}

fn case_strategy(max_n: u8) -> impl Strategy<Value = Case> {
    (
        any::<u64>(),
        powers_strategy(max_n),
        lv_gen::chain::chain_id_strategy(),
        prop_oneof![Just(1u64), 2u64..100_000, (1u64 << 40)..(1u64 << 41)],
        0u8..3,
        prop::collection::vec(0u8..3, 10),
        prop::collection::vec(any::<u16>(), 24),
        prop::collection::vec(fault_strategy(), 4..=8),
        prop::collection::vec(
            (any::<u16>(), prop::collection::vec(power_small(), 10), prop::collection::vec(power_small(), 0..=3))
                .prop_map(|(keep_mask, powers, extra)| TrustedPlan { keep_mask, powers, extra }),
            1..=3,
        ),
    )
        .prop_map(|(seed, powers, chain_id, height, round, nil_kinds, masks, faults, trusted)| Case {
            seed,
            powers,
            chain_id,
            height,
            round,
            nil_kinds,
            masks,
            faults,
            trusted,
        })
}

/// (set, keys aligned with set order, key index of each validator in set order)
fn build(case: &Case) -> (ValidatorSet, Vec<SigningKey>, Vec<u8>) {
    let members: Vec<(u8, u64)> = match &case.powers {
        Powers::Equal { n, p } => (0..*n).map(|i| (i, *p)).collect(),
        Powers::Geometric { n, base, first } => {
            (0..*n).map(|i| (i, first.saturating_mul((*base as u64).pow(i as u32)).min(1 << 50))).collect()
        }
        Powers::Random(v) => v.iter().enumerate().map(|(i, p)| (i as u8, *p)).collect(),
        Powers::Engineered { a, b_split, eps } => {
            let s: u64 = a.iter().sum();
            let mut nb = b_split.len() as u64 + 1;
            let btotal = (2 * s as i128 + *eps as i128).max(1) as u64;
            nb = nb.min(btotal);
            let mut b = vec![1u64; nb as usize];
            let mut rem = btotal - nb;
            for (j, sel) in b_split.iter().enumerate().take(nb as usize - 1) {
                let take = pick(*sel, rem as usize + 1) as u64;
                b[j] += take;
                rem -= take;
            }
            *b.last_mut().unwrap() += rem;
            a.iter().chain(b.iter()).enumerate().map(|(i, p)| (i as u8, *p)).collect()
        }
        Powers::Huge { n, skew } => {
            let n = (*n).max(1) as u64;
            let infos: Vec<_> = (0..n)
                .map(|i| {
                    let p = (i64::MAX as u64) / n - skew.get(i as usize).copied().unwrap_or(0) as u64;
                    val_info(&key_for(case.seed, i as u8), p)
                })
                .collect();
            let total: u64 = infos.iter().map(|v| v.power()).sum();
            let keys = (0..n).map(|i| key_for(case.seed, i as u8)).collect();
            let set = ValidatorSet {
                proposer: Some(infos[0].clone()),
                validators: infos,
                total_voting_power: total.try_into().expect("total below i64::MAX"),
            };
            return (set, keys, (0..n as u8).collect());
        }
    };
    let (set, keys) = build_set(case.seed, &members);
    let idx = set
        .validators()
        .iter()
        .map(|v| members.iter().find(|(i, _)| lv_gen::chain::address_of(&key_for(case.seed, *i)) == v.address).unwrap().0)
        .collect();
    (set, keys, idx)
}

fn block_id(seed: u64) -> BlockId {
    let sb = seed.to_le_bytes();
    BlockId {
        hash: Hash::Sha256(sha256(&[b"c03-block", &sb])),
        part_set_header: parts::Header::new(1, Hash::Sha256(sha256(&[b"c03-parts", &sb]))).unwrap(),
    }
}

fn slots_for(case: &Case, n: usize, mask: u32) -> Vec<Slot> {
    (0..n)
        .map(|i| {
            if mask >> i & 1 == 1 {
                Slot::Commit
            } else {
                match case.nil_kinds.get(i).copied().unwrap_or(0) {
                    0 => Slot::Absent,
                    1 => Slot::NilProper,
                    _ => Slot::NilBlockSig,
                }
            }
        })
        .collect()
}

fn sig_of(b: [u8; 64]) -> Signature {
    Signature::new(b).unwrap().unwrap()
}

struct World<'a> {
    case: &'a Case,
    set: ValidatorSet,
    keys: Vec<SigningKey>,
    chain_id: chain::Id,
    prep: Prepared,
    total: u128,
}

/// Judge one (set, commit) for the light rule. `height_arg` is the height verification is asked for.
fn judge_light(obs: &mut Obs, w: &World, commit: &Commit, height_arg: u64, what: &str) -> Result<(), Failure> {
    let cid = w.chain_id.as_str();
    let res = w.set.verify_commit_light(&w.chain_id, &height_arg.try_into().unwrap(), commit);
    let p = ref_light_power(&w.set, cid, commit);
    let enough = 3 * p > 2 * w.total;
    if res.is_ok() {
        obs.check(enough, "C03:light-accepted-below-two-thirds", || {
            format!("verify_commit_light Ok ({what}) but valid Commit power {p} of total {} is not > 2/3; commit={commit:?}", w.total)
        })?;
        obs.check(height_arg == commit.height.value(), "C03:light-accepted-wrong-height", || {
            format!("verify_commit_light Ok ({what}) for height {height_arg} with a commit for height {}", commit.height)
        })?;
    } else if height_arg == commit.height.value() && light_well_formed(&w.set, cid, commit) {
        obs.check(!enough, "C03:light-rejected-above-two-thirds", || {
            format!(
                "verify_commit_light Err({}) ({what}) on a well-formed commit whose signing power {p} exceeds 2/3 of {}",
                res.as_ref().unwrap_err(),
                w.total
            )
        })?;
    }
    Ok(())
}

fn judge_trusting(obs: &mut Obs, trusted: &ValidatorSet, w: &World, commit: &Commit, what: &str) -> Result<bool, Failure> {
    let cid = w.chain_id.as_str();
    let res = trusted.verify_commit_light_trusting(&w.chain_id, commit, DEFAULT_TRUST_LEVEL);
    let p = ref_trusting_power(trusted, cid, commit);
    let t = sum_power(trusted);
    let enough = 3 * p > t;
    if res.is_ok() {
        obs.check(enough, "C03:trusting-accepted-below-one-third", || {
            format!(
                "verify_commit_light_trusting Ok ({what}) but distinct trusted validators with valid signatures carry {p} of {t}, not > 1/3; commit={commit:?}"
            )
        })?;
    } else if trusting_well_formed(trusted, cid, commit) {
        obs.check(!enough, "C03:trusting-rejected-above-one-third", || {
            format!(
                "verify_commit_light_trusting Err({}) ({what}) on a well-formed commit whose trusted signing power {p} exceeds 1/3 of {t}",
                res.as_ref().unwrap_err()
            )
        })?;
    }
    Ok(res.is_ok())
}

fn boundary_labels(obs: &mut Obs, p: u128, t: u128) -> bool {
    let mut near = false;
    let need23 = 2 * t / 3;
    let need13 = t / 3;
    if 3 * p == 2 * t {
        obs.label("light-exact-two-thirds");
    }
    if p == need23 {
        obs.label("light-boundary-reject");
        near = true;
    }
    if p == need23 + 1 {
        obs.label("light-boundary-accept");
        near = true;
    }
    if 3 * p == t {
        obs.label("trust-exact-third");
    }
    if p == need13 {
        obs.label("trust-boundary-reject");
        near = true;
    }
    if p == need13 + 1 {
        obs.label("trust-boundary-accept");
        near = true;
    }
    near
}

fn apply_fault(w: &World, commit: &mut Commit, f: &Fault, salt: u64) -> (&'static str, u64) {
    let case = w.case;
    let n = commit.signatures.len();
    let mut height_arg = commit.height.value();
    let label: &'static str;
    match f {
        Fault::Forge { pos, kind } => {
            let i = pick(*pos, n);
            let v = &w.set.validators()[i];
            // keep the entry's timestamp when it has one
            let timestamp = match &w.prep.commit[i] {
                CommitSig::BlockIdFlagCommit { timestamp, .. } => *timestamp,
                _ => unreachable!(),
            };
            let (ts, tn) = time_parts(timestamp);
            let b = &w.prep.block_id;
            let bytes = |chain: &str, h: u64, ts: i64| {
                canonical_vote_bytes(
                    chain,
                    h,
                    w.prep.round,
                    hash_bytes(&b.hash),
                    b.part_set_header.total,
                    hash_bytes(&b.part_set_header.hash),
                    ts,
                    tn,
                )
            };
            let good = bytes(&w.prep.chain_id, w.prep.height, ts);
            let sig: [u8; 64] = match kind {
                ForgeKind::Random => Prng::new(case.seed ^ salt ^ i as u64).array::<64>(),
                ForgeKind::OtherKey => key_for(case.seed ^ 0xbad, 99).sign(&good).to_bytes(),
                ForgeKind::OtherHeight => w.keys[i].sign(&bytes(&w.prep.chain_id, w.prep.height + 1, ts)).to_bytes(),
                ForgeKind::OtherChain => w.keys[i].sign(&bytes("other-chain", w.prep.height, ts)).to_bytes(),
                ForgeKind::OtherTimestamp => w.keys[i].sign(&bytes(&w.prep.chain_id, w.prep.height, ts + 1)).to_bytes(),
                ForgeKind::NilSigAsCommit => {
                    w.keys[i].sign(&nil_vote_bytes(&w.prep.chain_id, w.prep.height, w.prep.round, ts, tn)).to_bytes()
                }
                ForgeKind::BitFlip(bit) => {
                    let mut s = w.keys[i].sign(&good).to_bytes();
                    s[(*bit as usize / 8) % 64] ^= 1 << (bit % 8);
                    s
                }
            };
            commit.signatures[i] = CommitSig::BlockIdFlagCommit {
                validator_address: v.address,
                timestamp,
                signature: Some(sig_of(sig)),
            };
            label = "fault-forged-signature";
        }
        Fault::WrongHeight { delta } => {
            height_arg = (height_arg as i128 + *delta as i128).max(1) as u64;
            if height_arg == commit.height.value() {
                height_arg += 1;
            }
            label = "fault-wrong-height";
        }
        Fault::DropLast => {
            commit.signatures.pop();
            label = "fault-sig-count";
        }
        Fault::AppendExtra => {
            let last = commit.signatures.last().cloned().unwrap_or(CommitSig::BlockIdFlagAbsent);
            commit.signatures.push(last);
            label = "fault-sig-count";
        }
        Fault::Dup { src, dst } => {
            let (s, d) = (pick(*src, n), pick(*dst, n));
            commit.signatures[d] = commit.signatures[s].clone();
            label = "fault-dup-address";
        }
        Fault::Unknown { pos } => {
            let i = pick(*pos, n);
            let foreign = lv_gen::chain::address_of(&key_for(case.seed ^ 0x0dd, 77));
            if let CommitSig::BlockIdFlagCommit { validator_address, .. } | CommitSig::BlockIdFlagNil { validator_address, .. } =
                &mut commit.signatures[i]
            {
                *validator_address = foreign;
            }
            label = "fault-unknown-address";
        }
        Fault::Swap { i, j } => {
            let (a, b) = (pick(*i, n), pick(*j, n));
            commit.signatures.swap(a, b);
            label = "fault-reordered";
        }
    }
    (label, height_arg)
}

fn has_dup_commit_address(commit: &Commit) -> bool {
    let mut seen: Vec<account::Id> = Vec::new();
    for s in &commit.signatures {
        if let CommitSig::BlockIdFlagCommit { validator_address, .. } = s {
            if seen.contains(validator_address) {
                return true;
            }
            seen.push(*validator_address);
        }
    }
    false
}

fn run_case(case: &Case, obs: &mut Obs) -> Result<(), Failure> {
    let (set, keys, key_idx) = build(case);
    let n = set.validators().len();
    let chain_id: chain::Id = case.chain_id.clone().try_into().map_err(|e| Failure::new("gen", format!("chain id: {e}")))?;
    let prep = prepare(&set, &keys, &case.chain_id, case.height, case.round as u32, block_id(case.seed), 1_700_000_000 + (case.seed % 1000) as i64);
    let total = sum_power(&set);
    if total != set.total_voting_power().value() as u128 {
        return Err(Failure::new("gen", "inconsistent total"));
    }
    let w = World {
        case,
        set,
        keys,
        chain_id,
        prep,
        total,
    };
    let set = &w.set;
    match &case.powers {
        Powers::Huge { .. } => obs.label("huge-powers"),
        Powers::Engineered { .. } => obs.label("engineered-powers"),
        _ => {}
    }
    if n > 1 {
        obs.label("multi-validator");
    }
    // independent validity of every prepared Commit entry (checked once; entries are reused across subsets)
    let full = w.prep.assemble(&vec![Slot::Commit; n]);
    for i in 0..n {
        if !light_entry_valid(set, &case.chain_id, &full, i) {
            return Err(Failure::new("gen", format!("prepared entry {i} not valid under the reference")));
        }
    }
    let all_subsets = n <= 7 || obs.tier == Tier::Thorough;
    let masks: Vec<u32> = if all_subsets {
        (0..(1u32 << n)).collect()
    } else {
        let m = (1u32 << n) - 1;
        let mut v: Vec<u32> = case.masks.iter().map(|x| (*x as u32 * 0x9e37) & m).chain([0, m]).collect();
        v.sort();
        v.dedup();
        v
    };
    if all_subsets {
        obs.label("all-subsets-enumerated");
    }
    let pw: Vec<u128> = set.validators().iter().map(|v| v.power() as u128).collect();
    // ---------------- honest commits for every signer subset
    for &mask in &masks {
        let slots = slots_for(case, n, mask);
        let commit = w.prep.assemble(&slots);
        let p: u128 = (0..n).filter(|i| mask >> i & 1 == 1).map(|i| pw[i]).sum();
        let mut lobs_near = boundary_labels(obs, p, total);
        if slots.iter().any(|s| matches!(s, Slot::NilProper | Slot::NilBlockSig)) {
            obs.label("nil-vote-present");
        }
        // light, right height — exact
        let res = set.verify_commit_light(&w.chain_id, &case.height.try_into().unwrap(), &commit);
        let enough = 3 * p > 2 * total;
        if res.is_ok() != enough {
            lobs_near = true;
            let sig = if res.is_ok() { "C03:light-accepted-below-two-thirds" } else { "C03:light-rejected-above-two-thirds" };
            obs.fail(
                sig,
                format!(
                    "powers {pw:?} (total {total}), signer mask {mask:#b}, non-signers {:?}: signing power {p}; verify_commit_light -> {:?}, reference says accept={enough}",
                    slots, res.as_ref().map_err(|e| e.to_string())
                ),
            )?;
        }
        // trusting against the same set — exact
        let rt = set.verify_commit_light_trusting(&w.chain_id, &commit, DEFAULT_TRUST_LEVEL);
        let enough13 = 3 * p > total;
        if rt.is_ok() != enough13 {
            let sig = if rt.is_ok() { "C03:trusting-accepted-below-one-third" } else { "C03:trusting-rejected-above-one-third" };
            obs.fail(
                sig,
                format!(
                    "powers {pw:?} (total {total}), signer mask {mask:#b}, non-signers {:?}: signing power {p}; verify_commit_light_trusting -> {:?}, reference says accept={enough13}",
                    slots, rt.as_ref().map_err(|e| e.to_string())
                ),
            )?;
        }
        obs.label(if enough { "light-accept" } else { "light-reject" });
        obs.label(if enough13 { "trust-accept" } else { "trust-reject" });
        let d = digest_of(&(&pw, mask, &slots, case.height, case.round));
        obs.eval(lobs_near.then_some(d));
        obs.eval(lobs_near.then_some(d ^ 1));
    }
    // ---------------- trusting against a different trusted set (partial overlap, other powers)
    let tmasks: Vec<u32> = if n <= 5 { masks.clone() } else { masks.iter().copied().take(24).collect() };
    for (ti, plan) in case.trusted.iter().enumerate() {
        let mut members: Vec<(u8, u64)> = Vec::new();
        for i in 0..n {
            if plan.keep_mask >> i & 1 == 1 {
                members.push((key_idx[i], plan.powers[i % plan.powers.len()]));
            }
        }
        for (j, p) in plan.extra.iter().enumerate() {
            members.push((100 + j as u8, *p));
        }
        if members.is_empty() {
            continue;
        }
        let kept = members.iter().filter(|(i, _)| *i < 100).count();
        let (tset, _) = build_set(case.seed, &members);
        obs.label(if kept == 0 {
            "trusted-set-overlap-none"
        } else if kept == n && plan.extra.is_empty() {
            "trusted-set-overlap-all"
        } else {
            "trusted-set-overlap-partial"
        });
        let tt = sum_power(&tset);
        for &mask in &tmasks {
            let commit = w.prep.assemble(&slots_for(case, n, mask));
            let ok = judge_trusting(obs, &tset, &w, &commit, "other trusted set")?;
            let p = ref_trusting_power(&tset, &case.chain_id, &commit);
            let mut near = false;
            if 3 * p == tt {
                obs.label("trust-exact-third");
            }
            if p == tt / 3 {
                obs.label("trust-boundary-reject");
                near = true;
            }
            if p == tt / 3 + 1 {
                obs.label("trust-boundary-accept");
                near = true;
            }
            obs.label(if ok { "trust-accept" } else { "trust-reject" });
            obs.eval(near.then(|| digest_of(&(&pw, mask, ti, &members, case.seed))));
        }
    }
    // ---------------- faults
    let m = (1u32 << n) - 1;
    let mut fmasks: Vec<u32> = case.masks.iter().take(5).map(|x| (*x as u32 * 0x9e37) & m).chain([m, 0]).collect();
    fmasks.extend((0..n).map(|i| 1u32 << i));
    fmasks.sort();
    fmasks.dedup();
    for (fi, f) in case.faults.iter().enumerate() {
        for &mask in &fmasks {
            let mut commit = w.prep.assemble(&slots_for(case, n, mask));
            let before = commit.clone();
            let (label, height_arg) = apply_fault(&w, &mut commit, f, fi as u64);
            if commit == before && height_arg == commit.height.value() {
                obs.label("fault-noop");
                continue;
            }
            obs.label(label);
            if let Fault::Forge { pos, .. } = f {
                let i = pick(*pos, n);
                let before_i = ref_light_power_before(set, &case.chain_id, &commit, i);
                obs.label(if 3 * before_i > 2 * total { "forged-after-quorum" } else { "forged-before-quorum" });
            }
            if has_dup_commit_address(&commit) {
                obs.label("dup-address");
            }
            judge_light(obs, &w, &commit, height_arg, label)?;
            judge_trusting(obs, set, &w, &commit, label)?;
            let d = digest_of(&(&pw, mask, fi, &commit.signatures, height_arg));
            obs.eval(Some(d));
            obs.eval(Some(d ^ 1));
            if let Some(plan) = case.trusted.first() {
                // same faulty commit judged by a partially overlapping trusted set
                let members: Vec<(u8, u64)> = (0..n)
                    .filter(|i| plan.keep_mask >> i & 1 == 1)
                    .map(|i| (key_idx[i], plan.powers[i % plan.powers.len()]))
                    .chain(plan.extra.iter().enumerate().map(|(j, p)| (100 + j as u8, *p)))
                    .collect();
                if !members.is_empty() {
                    let (tset, _) = build_set(case.seed, &members);
                    judge_trusting(obs, &tset, &w, &commit, label)?;
                    obs.eval(Some(d ^ 2));
                }
            }
        }
    }
    Ok(())
}

pub fn run(ctx: &mut Ctx) {
    ctx.assume("ed25519-consensus signature verification and tendermint's validator-set ordering/addresses are the trusted base; sign-bytes come from lv_gen's hand-written canonical-vote encoder");
    ctx.assume("validator sets are internally consistent (total_voting_power = sum of member powers), as every decoded or Set::new-built set is; totals above tendermint's MAX_TOTAL_VOTING_POWER are built by struct literal and stay below i64::MAX");
    ctx.assume("ValidatorSetExt is reached through a cfg(eigerco_lumina_verif) re-export (the trait sits in a private module of celestia-types)");
    ctx.essential(&[
        "light-exact-two-thirds",
        "light-boundary-reject",
        "light-boundary-accept",
        "trust-exact-third",
        "trust-boundary-reject",
        "trust-boundary-accept",
        "dup-address",
        "forged-before-quorum",
        "forged-after-quorum",
        "nil-vote-present",
        "huge-powers",
        "trusted-set-overlap-partial",
        "all-subsets-enumerated",
    ]);
    let max_n = 10u8;
    let cases = ctx.tier.pick(960, 10000);
    ctx.proptest(
        "commits",
        "per generated validator set (1..10 members; equal / geometric / random<=2^40 / boundary-engineered / near-i64::MAX powers): every signer subset (n<=7; sampled for n=8..10 in quick, all in thorough) as an honest commit (non-signers Absent, proper nil vote, or Nil flag on a block signature) judged for the light rule (exact: Ok iff 3*signing > 2*total) and the trusting rule against the same set (exact: Ok iff 3*signing > total); the same commits against other trusted sets (overlap none/partial/all, other powers); fault commits (forged signature of 7 kinds, wrong height, signature-count mismatch, duplicated entry, unknown address, reordered entries): Ok => reference tally above threshold (and right height), Err on a well-formed commit => reference tally not above. Non-trivial = signing power equal to floor(threshold) or floor(threshold)+1 for either threshold, or any fault case; distinct by (powers, subset, entries)",
        cases,
        move || case_strategy(max_n),
        run_case,
    );
    ctx.proptest(
        "needed",
        "TrustLevelRatio::voting_power_needed(total) for generated numerator/denominator/total (boundary-biased, up to u64::MAX): Ok(v) iff denominator != 0 and numerator*total fits u64, and then v = floor(numerator*total/denominator) computed in u128; never panics. Non-trivial = overflow, zero denominator, or a non-integral quotient",
        ctx.tier.pick(20_000, 400_000),
        || {
            let edge = || {
                prop_oneof![
                    3 => 0u64..=10,
                    2 => any::<u64>(),
                    1 => Just(u64::MAX),
                    1 => Just(i64::MAX as u64),
                    1 => Just(u64::MAX / 2),
                    1 => Just(u64::MAX / 3 + 1),
                    1 => Just(u64::MAX / 3),
                    1 => (0u32..64).prop_map(|s| 1u64 << s),
                ]
            };
            (edge(), edge(), edge())
        },
        |(num, den, total), obs| {
            let r = TrustLevelRatio::new(*num, *den).voting_power_needed(*total);
            let prod = *num as u128 * *total as u128;
            let expect = if *den == 0 || prod > u64::MAX as u128 { None } else { Some((prod / *den as u128) as u64) };
            let nontrivial = expect.is_none() || prod % (*den as u128) != 0;
            obs.eval(nontrivial.then(|| digest_of(&(num, den, total))));
            obs.label(match (&r, *den == 0) {
                (Ok(_), _) => "needed-ok",
                (Err(_), true) => "needed-zero-denominator",
                (Err(_), false) => "needed-overflow",
            });
            obs.check(r.as_ref().ok().copied() == expect, "C03:voting-power-needed-wrong", || {
                format!("TrustLevelRatio({num}/{den}).voting_power_needed({total}) = {r:?}, reference {expect:?}")
            })
        },
    );
}
