//! C06 — Namespace data is sound and complete.
use celestia_proto::proof::pb::Proof as RawProof;
use celestia_proto::shwap::{RowNamespaceData as RawRnd, Share as RawShare};
use celestia_types::consts::appconsts::AppVersion;
use celestia_types::namespace_data::{NamespaceData, NamespaceDataId};
use celestia_types::nmt::{Namespace, NamespaceProof, Nmt};
use celestia_types::row_namespace_data::{RowNamespaceData, RowNamespaceDataId};
use lv_common::prelude::*;
use lv_gen::refs::{self, NS, NmtNode};
use lv_gen::square::{Square, SquareSpec, build_square, ns_bytes, structured_square_strategy, user_ns};
use lv_gen::sqx::{RawSquare, panic_site};
use prost::Message;

const HEIGHT: u64 = 11;

#[derive(Clone, Debug, Serialize, Deserialize)]
pub enum M {
    DropShare { row: u16, k: u16 },
    DupShare { row: u16, k: u16 },
    SwapShares { row: u16, a: u16, b: u16 },
    AlterShare { row: u16, k: u16, pos: u16, bit: u8 },
    /// the share just before / after the namespace's run in that row replaces the first/last share
    /// (mode 0) or is added in front / at the end (mode 1); optionally with its namespace rewritten
    NeighbourShare { row: u16, after: bool, rewrite_ns: bool, add: bool },
    /// any first-quadrant share put in place of share k
    ForeignShare { row: u16, k: u16, r: u16, c: u16, rewrite_ns: bool },
    DropRow { i: u16 },
    DupRow { i: u16 },
    SwapRows { i: u16, j: u16 },
    /// proofs of two rows exchanged (shares stay)
    SwapProofs { i: u16, j: u16 },
    /// presence proof kept, shares removed
    ClearShares { row: u16 },
    /// row replaced by the "namespace outside the root range" absence claim (no shares, empty proof)
    ClaimOutOfRange { row: u16 },
    /// row replaced by an absence claim around leaf (base + off) with that leaf's honest single-leaf
    /// proof and hash; base = first leaf of the namespace (present) or the honest absence leaf
    AbsenceAt { row: u16, off: i8, keep_shares: bool },
    /// on an absence row: a share added under the absence proof
    AbsenceAddShare { row: u16, r: u16, c: u16, rewrite_ns: bool },
    /// absence proof's leaf hash replaced by the hash of leaf (honest + off), proof untouched
    AbsenceLeafHash { row: u16, off: i8 },
    ShiftRange { row: u16, ds: i8, de: i8 },
    TruncSiblings { row: u16, front: bool, n: u8 },
    DropSibling { row: u16, i: u16 },
    DupSibling { row: u16, i: u16 },
    SwapSiblings { row: u16, i: u16, j: u16 },
    /// honest inclusion proof of a strict, non-empty sub-range of the namespace's shares with exactly those shares
    SubRange { row: u16, a: u16, b: u16 },
    /// honest inclusion proof of the run widened by one neighbour, with that neighbour's share included
    SuperRange { row: u16, left: bool, rewrite_ns: bool },
    /// the row's proof replaced by the honest proof for another queried namespace
    OtherNsProof { row: u16, which: u16, clear: bool },
    /// the whole answer replaced by the honest answer for another queried namespace
    OtherNsAnswer { which: u16, rewrite_ns: bool },
    FlipIgnoreMax { row: u16 },
    EmptyAnswer,
}

fn m_strategy() -> impl Strategy<Value = M> {
    let u = any::<u16>;
    prop_oneof![
        2 => (u(), u()).prop_map(|(row, k)| M::DropShare { row, k }),
        1 => (u(), u()).prop_map(|(row, k)| M::DupShare { row, k }),
        2 => (u(), u(), u()).prop_map(|(row, a, b)| M::SwapShares { row, a, b }),
        2 => (u(), u(), u(), 0u8..8).prop_map(|(row, k, pos, bit)| M::AlterShare { row, k, pos, bit }),
        4 => (u(), any::<bool>(), any::<bool>(), any::<bool>()).prop_map(|(row, after, rewrite_ns, add)| M::NeighbourShare { row, after, rewrite_ns, add }),
        2 => (u(), u(), u(), u(), any::<bool>()).prop_map(|(row, k, r, c, rewrite_ns)| M::ForeignShare { row, k, r, c, rewrite_ns }),
        2 => u().prop_map(|i| M::DropRow { i }),
        2 => u().prop_map(|i| M::DupRow { i }),
        2 => (u(), u()).prop_map(|(i, j)| M::SwapRows { i, j }),
        2 => (u(), u()).prop_map(|(i, j)| M::SwapProofs { i, j }),
        2 => u().prop_map(|row| M::ClearShares { row }),
        2 => u().prop_map(|row| M::ClaimOutOfRange { row }),
        4 => (u(), -2i8..=3, any::<bool>()).prop_map(|(row, off, keep_shares)| M::AbsenceAt { row, off, keep_shares }),
        2 => (u(), u(), u(), any::<bool>()).prop_map(|(row, r, c, rewrite_ns)| M::AbsenceAddShare { row, r, c, rewrite_ns }),
        2 => (u(), -2i8..=2).prop_map(|(row, off)| M::AbsenceLeafHash { row, off }),
        3 => (u(), -2i8..=2, -2i8..=2).prop_map(|(row, ds, de)| M::ShiftRange { row, ds, de }),
        3 => (u(), any::<bool>(), 1u8..4).prop_map(|(row, front, n)| M::TruncSiblings { row, front, n }),
        1 => (u(), u()).prop_map(|(row, i)| M::DropSibling { row, i }),
        1 => (u(), u()).prop_map(|(row, i)| M::DupSibling { row, i }),
        2 => (u(), u(), u()).prop_map(|(row, i, j)| M::SwapSiblings { row, i, j }),
        4 => (u(), u(), u()).prop_map(|(row, a, b)| M::SubRange { row, a, b }),
        3 => (u(), any::<bool>(), any::<bool>()).prop_map(|(row, left, rewrite_ns)| M::SuperRange { row, left, rewrite_ns }),
        3 => (u(), u(), any::<bool>()).prop_map(|(row, which, clear)| M::OtherNsProof { row, which, clear }),
        2 => (u(), any::<bool>()).prop_map(|(which, rewrite_ns)| M::OtherNsAnswer { which, rewrite_ns }),
        1 => u().prop_map(|row| M::FlipIgnoreMax { row }),
        1 => Just(M::EmptyAnswer),
    ]
}

fn m_label(m: &M) -> &'static str {
    match m {
        M::DropShare { .. } => "mut-drop-share",
        M::DupShare { .. } => "mut-dup-share",
        M::SwapShares { .. } => "mut-swap-shares",
        M::AlterShare { .. } => "mut-alter-share",
        M::NeighbourShare { .. } => "mut-neighbour-share",
        M::ForeignShare { .. } => "mut-foreign-share",
        M::DropRow { .. } => "mut-drop-row",
        M::DupRow { .. } => "mut-dup-row",
        M::SwapRows { .. } => "mut-swap-rows",
        M::SwapProofs { .. } => "mut-swap-proofs",
        M::ClearShares { .. } => "mut-presence-proof-no-shares",
        M::ClaimOutOfRange { .. } => "mut-claim-out-of-range",
        M::AbsenceAt { .. } => "mut-absence-claim",
        M::AbsenceAddShare { .. } => "mut-absence-proof-with-shares",
        M::AbsenceLeafHash { .. } => "mut-absence-leaf-moved",
        M::ShiftRange { .. } => "mut-shift-range",
        M::TruncSiblings { .. } => "mut-truncate-siblings",
        M::DropSibling { .. } => "mut-drop-sibling",
        M::DupSibling { .. } => "mut-dup-sibling",
        M::SwapSiblings { .. } => "mut-swap-siblings",
        M::SubRange { .. } => "mut-omission-valid-subrange",
        M::SuperRange { .. } => "mut-super-range",
        M::OtherNsProof { .. } => "mut-other-namespace-proof",
        M::OtherNsAnswer { .. } => "mut-other-namespace-answer",
        M::FlipIgnoreMax { .. } => "mut-flip-ignore-max",
        M::EmptyAnswer => "mut-empty-answer",
    }
}

#[derive(Clone, Debug, Serialize, Deserialize)]
pub struct Case {
    pub square: SquareSpec,
    pub muts: Vec<M>,
}

struct Env<'a> {
    sq: &'a Square,
    raw: RawSquare,
    roots: Vec<NmtNode>,
    nmts: Vec<Option<Nmt>>,
}

impl Env<'_> {
    fn nmt(&mut self, r: usize) -> &mut Nmt {
        if self.nmts[r].is_none() {
            self.nmts[r] = Some(self.sq.eds.row_nmt(r as u16).expect("row nmt"));
        }
        self.nmts[r].as_mut().unwrap()
    }
    /// honest inclusion proof for leaves a..b of row r
    fn range_proof(&mut self, r: usize, a: usize, b: usize) -> RawProof {
        let (_, p) = self.nmt(r).get_range_with_proof(a..b);
        RawProof::from(NamespaceProof::from(p))
    }
    fn ns_proof(&mut self, r: usize, ns: &Namespace) -> RawProof {
        let p = self.nmt(r).get_namespace_proof(**ns);
        RawProof::from(NamespaceProof::from(p))
    }
    fn leaf_hash(&self, r: usize, c: usize) -> Vec<u8> {
        refs::nmt_leaf(&self.raw.ns_at(r, c), self.raw.share(r, c)).to_bytes().to_vec()
    }
    /// (first column, count) of the run of `ns` in row r; for an absent namespace (first column with a larger namespace, 0)
    fn run(&self, r: usize, ns: &[u8; NS]) -> (usize, usize) {
        let w = self.raw.w;
        let first = (0..w).find(|&c| &self.raw.ns_at(r, c) >= ns).unwrap_or(w);
        let n = (first..w).take_while(|&c| &self.raw.ns_at(r, c) == ns).count();
        (first, n)
    }
}

fn with_ns(mut share: Vec<u8>, ns: &[u8; NS], rewrite: bool) -> Vec<u8> {
    if rewrite && share.len() >= NS {
        share[..NS].copy_from_slice(ns);
    }
    share
}

fn encode_all(v: &[RawRnd]) -> Vec<u8> {
    let mut out = Vec::new();
    for r in v {
        r.encode_length_delimited(&mut out).unwrap();
    }
    out
}

/// Apply a mutation to the honest answer. `rows[i]` is the EDS row index of `answer[i]`.
/// Returns None when the mutation is not applicable.
fn mutate(env: &mut Env, m: &M, ns: &Namespace, nsb: &[u8; NS], rows: &[u16], honest: &[RawRnd], others: &[(Namespace, Vec<u16>, Vec<RawRnd>)]) -> Option<Vec<RawRnd>> {
    let mut v = honest.to_vec();
    let n = v.len();
    let w = env.raw.w;
    let row_of = |sel: u16| -> Option<usize> { if n == 0 { None } else { Some(pick(sel, n)) } };
    match m {
        M::DropShare { row, k } => {
            let i = row_of(*row)?;
            if v[i].shares.is_empty() {
                return None;
            }
            let k = pick(*k, v[i].shares.len());
            v[i].shares.remove(k);
        }
        M::DupShare { row, k } => {
            let i = row_of(*row)?;
            if v[i].shares.is_empty() {
                return None;
            }
            let k = pick(*k, v[i].shares.len());
            let s = v[i].shares[k].clone();
            v[i].shares.insert(k, s);
        }
        M::SwapShares { row, a, b } => {
            let i = row_of(*row)?;
            let l = v[i].shares.len();
            if l < 2 {
                return None;
            }
            v[i].shares.swap(pick(*a, l), pick(*b, l));
        }
        M::AlterShare { row, k, pos, bit } => {
            let i = row_of(*row)?;
            if v[i].shares.is_empty() {
                return None;
            }
            let k = pick(*k, v[i].shares.len());
            // keep the namespace so that from_raw's namespace check does not shortcut the proof check
            let p = NS + pick(*pos, v[i].shares[k].data.len() - NS);
            v[i].shares[k].data[p] ^= 1 << bit;
        }
        M::NeighbourShare { row, after, rewrite_ns, add } => {
            let i = row_of(*row)?;
            let r = rows[i] as usize;
            let (c0, cnt) = env.run(r, nsb);
            let c = if *after { c0 + cnt } else { c0.checked_sub(1)? };
            if c >= w {
                return None;
            }
            let s = RawShare { data: with_ns(env.raw.share(r, c).clone(), nsb, *rewrite_ns) };
            if *add || v[i].shares.is_empty() {
                if *after {
                    v[i].shares.push(s);
                } else {
                    v[i].shares.insert(0, s);
                }
            } else if *after {
                *v[i].shares.last_mut().unwrap() = s;
            } else {
                v[i].shares[0] = s;
            }
        }
        M::ForeignShare { row, k, r, c, rewrite_ns } => {
            let i = row_of(*row)?;
            if v[i].shares.is_empty() {
                return None;
            }
            let k = pick(*k, v[i].shares.len());
            let (r, c) = (pick(*r, env.raw.k()), pick(*c, env.raw.k()));
            v[i].shares[k] = RawShare { data: with_ns(env.raw.share(r, c).clone(), nsb, *rewrite_ns) };
        }
        M::DropRow { i } => {
            let i = row_of(*i)?;
            v.remove(i);
        }
        M::DupRow { i } => {
            let i = row_of(*i)?;
            let r = v[i].clone();
            v.insert(i, r);
        }
        M::SwapRows { i, j } => {
            if n < 2 {
                return None;
            }
            v.swap(pick(*i, n), pick(*j, n));
        }
        M::SwapProofs { i, j } => {
            if n < 2 {
                return None;
            }
            let (i, j) = (pick(*i, n), pick(*j, n));
            let (pi, pj) = (v[i].proof.clone(), v[j].proof.clone());
            v[i].proof = pj;
            v[j].proof = pi;
        }
        M::ClearShares { row } => {
            let i = row_of(*row)?;
            v[i].shares.clear();
        }
        M::ClaimOutOfRange { row } => {
            let i = row_of(*row)?;
            v[i].shares.clear();
            v[i].proof = Some(RawProof { start: 0, end: 0, nodes: vec![], leaf_hash: vec![], is_max_namespace_ignored: true });
        }
        M::AbsenceAt { row, off, keep_shares } => {
            let i = row_of(*row)?;
            let r = rows[i] as usize;
            let (c0, _) = env.run(r, nsb);
            let c = c0 as i64 + *off as i64;
            if c < 0 || c >= w as i64 {
                return None;
            }
            let c = c as usize;
            let mut p = env.range_proof(r, c, c + 1);
            p.leaf_hash = env.leaf_hash(r, c);
            v[i].proof = Some(p);
            if !*keep_shares {
                v[i].shares.clear();
            }
        }
        M::AbsenceAddShare { row, r, c, rewrite_ns } => {
            let i = row_of(*row)?;
            if !v[i].shares.is_empty() {
                return None;
            }
            let (r, c) = (pick(*r, env.raw.k()), pick(*c, env.raw.k()));
            v[i].shares.push(RawShare { data: with_ns(env.raw.share(r, c).clone(), nsb, *rewrite_ns) });
        }
        M::AbsenceLeafHash { row, off } => {
            let i = row_of(*row)?;
            if !v[i].shares.is_empty() {
                return None;
            }
            let r = rows[i] as usize;
            let (c0, _) = env.run(r, nsb);
            let c = c0 as i64 + *off as i64;
            if c < 0 || c >= w as i64 {
                return None;
            }
            v[i].proof.as_mut()?.leaf_hash = env.leaf_hash(r, c as usize);
        }
        M::ShiftRange { row, ds, de } => {
            let i = row_of(*row)?;
            let p = v[i].proof.as_mut()?;
            p.start += *ds as i64;
            p.end += *de as i64;
        }
        M::TruncSiblings { row, front, n: cnt } => {
            let i = row_of(*row)?;
            let p = v[i].proof.as_mut()?;
            if p.nodes.is_empty() {
                return None;
            }
            for _ in 0..(*cnt as usize).min(p.nodes.len()) {
                if *front {
                    p.nodes.remove(0);
                } else {
                    p.nodes.pop();
                }
            }
        }
        M::DropSibling { row, i: s } => {
            let i = row_of(*row)?;
            let p = v[i].proof.as_mut()?;
            if p.nodes.is_empty() {
                return None;
            }
            let s = pick(*s, p.nodes.len());
            p.nodes.remove(s);
        }
        M::DupSibling { row, i: s } => {
            let i = row_of(*row)?;
            let p = v[i].proof.as_mut()?;
            if p.nodes.is_empty() {
                return None;
            }
            let s = pick(*s, p.nodes.len());
            let nd = p.nodes[s].clone();
            p.nodes.insert(s, nd);
        }
        M::SwapSiblings { row, i: a, j: b } => {
            let i = row_of(*row)?;
            let p = v[i].proof.as_mut()?;
            if p.nodes.len() < 2 {
                return None;
            }
            let (a, b) = (pick(*a, p.nodes.len()), pick(*b, p.nodes.len()));
            p.nodes.swap(a, b);
        }
        M::SubRange { row, a, b } => {
            let i = row_of(*row)?;
            let r = rows[i] as usize;
            let (c0, cnt) = env.run(r, nsb);
            if cnt < 2 {
                return None;
            }
            let x = pick(*a, cnt);
            let mut y = x + 1 + pick(*b, cnt - x);
            if x == 0 && y == cnt {
                y -= 1;
            }
            v[i].proof = Some(env.range_proof(r, c0 + x, c0 + y));
            v[i].shares = (c0 + x..c0 + y).map(|c| RawShare { data: env.raw.share(r, c).clone() }).collect();
        }
        M::SuperRange { row, left, rewrite_ns } => {
            let i = row_of(*row)?;
            let r = rows[i] as usize;
            let (c0, cnt) = env.run(r, nsb);
            if cnt == 0 {
                return None;
            }
            let (a, b) = if *left { (c0.checked_sub(1)?, c0 + cnt) } else { (c0, c0 + cnt + 1) };
            if b > w {
                return None;
            }
            v[i].proof = Some(env.range_proof(r, a, b));
            v[i].shares = (a..b).map(|c| RawShare { data: with_ns(env.raw.share(r, c).clone(), nsb, *rewrite_ns) }).collect();
        }
        M::OtherNsProof { row, which, clear } => {
            let i = row_of(*row)?;
            let r = rows[i] as usize;
            if others.is_empty() {
                return None;
            }
            let (ons, _, _) = &others[pick(*which, others.len())];
            if ons == ns {
                return None;
            }
            v[i].proof = Some(env.ns_proof(r, ons));
            if *clear {
                v[i].shares.clear();
            }
        }
        M::OtherNsAnswer { which, rewrite_ns } => {
            if others.is_empty() {
                return None;
            }
            let (ons, _, oans) = &others[pick(*which, others.len())];
            if ons == ns {
                return None;
            }
            v = oans.clone();
            for r in v.iter_mut() {
                for s in r.shares.iter_mut() {
                    s.data = with_ns(std::mem::take(&mut s.data), nsb, *rewrite_ns);
                }
            }
        }
        M::FlipIgnoreMax { row } => {
            let i = row_of(*row)?;
            let p = v[i].proof.as_mut()?;
            p.is_max_namespace_ignored = !p.is_max_namespace_ignored;
        }
        M::EmptyAnswer => {
            if n == 0 {
                return None;
            }
            v.clear();
        }
    }
    Some(v)
}

fn rejected_by_panic(obs: &mut Obs, rec: &str, what: &str, sample: impl FnOnce() -> serde_json::Value) {
    obs.label("panicked-instead-of-rejecting");
    let site = format!("panic-site:{}", panic_site(rec));
    obs.label(&site);
    obs.sample(&site, sample());
    obs.note(format!("panic while verifying {what} (never-panics is owned by C16): {rec}"));
}

fn shares_bytes(r: &RowNamespaceData) -> Vec<Vec<u8>> {
    r.shares.iter().map(|s| s.to_vec()).collect()
}

fn raw_json(v: &RawRnd) -> serde_json::Value {
    json!({
        "shares": v.shares.len(),
        "proof": v.proof.as_ref().map(|p| json!({"start": p.start, "end": p.end, "nodes": p.nodes.iter().map(hex::encode).collect::<Vec<_>>(), "leaf_hash": hex::encode(&p.leaf_hash), "ignore_max": p.is_max_namespace_ignored})),
    })
}

/// the namespaces queried for a square
fn queries(raw: &RawSquare) -> Vec<(Namespace, &'static str)> {
    let k = raw.k();
    let mut present: Vec<[u8; NS]> = (0..k).flat_map(|r| (0..k).map(move |c| (r, c))).map(|(r, c)| raw.ns_at(r, c)).collect();
    present.sort();
    present.dedup();
    let mut out: Vec<(Namespace, &'static str)> = Vec::new();
    let push = |ns: Namespace, l: &'static str, out: &mut Vec<(Namespace, &'static str)>| {
        if !out.iter().any(|(n, _)| *n == ns) {
            out.push((ns, l));
        }
    };
    for p in &present {
        if let Ok(ns) = Namespace::from_raw(p) {
            push(ns, "q-present", &mut out);
        }
    }
    // one absent namespace per gap: successor of each present namespace
    for (i, p) in present.iter().enumerate() {
        let mut s = *p;
        for b in s.iter_mut().rev() {
            let (v, o) = b.overflowing_add(1);
            *b = v;
            if !o {
                break;
            }
        }
        let free = present.get(i + 1).map(|nx| &s < nx).unwrap_or(true);
        if free && s > *p && s != refs::PARITY_NS {
            if let Ok(ns) = Namespace::from_raw(&s) {
                push(ns, "q-gap", &mut out);
            }
        }
    }
    push(Namespace::const_v0([0; 10]), "q-below-all", &mut out);
    push(user_ns(0xffff), "q-high-user", &mut out);
    push(Namespace::TRANSACTION, "q-reserved", &mut out);
    push(Namespace::PAY_FOR_BLOB, "q-reserved", &mut out);
    push(Namespace::PRIMARY_RESERVED_PADDING, "q-reserved", &mut out);
    push(Namespace::MIN_SECONDARY_RESERVED, "q-reserved", &mut out);
    push(Namespace::TAIL_PADDING, "q-reserved", &mut out);
    push(Namespace::PARITY_SHARE, "q-parity", &mut out);
    out
}

fn check(case: &Case, obs: &mut Obs) -> Result<(), Failure> {
    let sq = build_square(&case.square, AppVersion::V3);
    let raw = RawSquare::from_eds(&sq.eds);
    let roots = raw.row_roots();
    let w = raw.w;
    let mut env = Env { sq: &sq, raw, roots, nmts: (0..w).map(|_| None).collect() };
    let qs = queries(&env.raw);

    // ---------------- completeness: the square's own answers
    let mut answers: Vec<(Namespace, Vec<u16>, Vec<RawRnd>)> = Vec::new();
    let mut brutes: Vec<Vec<(u16, Vec<Vec<u8>>)>> = Vec::new();
    for (ns, qlabel) in &qs {
        let nsb = ns_bytes(ns);
        let brute = env.raw.namespace_rows_with(&env.roots, &nsb);
        let multi = brute.len() >= 2;
        let absent_in_range = brute.iter().any(|(_, s)| s.is_empty());
        let d = digest_of(&(case.square.seed, case.square.ods_log2, &nsb[..]));
        obs.eval((multi || absent_in_range).then_some(d));
        obs.label(qlabel);
        if multi {
            obs.label("multi-row");
        }
        if absent_in_range {
            obs.label("absence-proof");
        }
        if brute.is_empty() {
            obs.label("out-of-range");
        }
        let got = match lv_common::no_panic(|| sq.eds.get_namespace_data(*ns, &sq.dah, HEIGHT)) {
            Ok(Ok(g)) => g,
            Ok(Err(e)) => return obs.fail("C06:get-namespace-data-error", format!("get_namespace_data({ns:?}) failed on a valid square of width {w}: {e}")),
            Err(rec) => return obs.fail("C06:get-namespace-data-panic", format!("get_namespace_data({ns:?}) panicked on a valid square of width {w}: {rec}")),
        };
        let got_rows: Vec<u16> = got.iter().map(|(id, _)| id.row_index()).collect();
        let want_rows: Vec<u16> = brute.iter().map(|(r, _)| *r).collect();
        obs.check(got_rows == want_rows, "C06:own-data-wrong-rows", || format!("get_namespace_data({ns:?}) returned rows {got_rows:?}, rows whose root range covers the namespace are {want_rows:?} (width {w})"))?;
        for ((id, data), (r, want)) in got.iter().zip(&brute) {
            obs.check(id.namespace() == *ns && id.block_height() == HEIGHT, "C06:own-data-wrong-id", || format!("row id {id:?} for query {ns:?}"))?;
            obs.check(&shares_bytes(data) == want, "C06:own-data-differs-from-scan", || format!("get_namespace_data({ns:?}) row {r}: {} shares, brute-force scan has {} (width {w})", data.shares.len(), want.len()))?;
            match lv_common::no_panic(|| data.verify(*id, &sq.dah)) {
                Ok(Ok(())) => {}
                Ok(Err(e)) => obs.fail("C06:own-data-rejected", format!("row {r} of get_namespace_data({ns:?}) (width {w}) does not verify: {e}"))?,
                Err(rec) => obs.fail("C06:own-data-verify-panic", format!("row {r} of get_namespace_data({ns:?}) (width {w}) panicked in verify: {rec}"))?,
            }
            obs.check(data.proof.is_of_absence() == want.is_empty(), "C06:own-data-proof-kind", || format!("row {r} of get_namespace_data({ns:?}): {} shares but proof of absence = {}", want.len(), data.proof.is_of_absence()))?;
        }
        let ndid = NamespaceDataId::new(*ns, HEIGHT).unwrap();
        let nd = NamespaceData::new(got.iter().map(|(_, d)| d.clone()).collect());
        match lv_common::no_panic(|| nd.verify(ndid, &sq.dah)) {
            Ok(Ok(())) => {}
            Ok(Err(e)) => obs.fail("C06:own-data-rejected", format!("NamespaceData of get_namespace_data({ns:?}) (width {w}, rows {want_rows:?}) does not verify: {e}"))?,
            Err(rec) => obs.fail("C06:own-data-verify-panic", format!("NamespaceData::verify panicked on the square's own data for {ns:?}: {rec}"))?,
        }
        // through the wire form
        let raws: Vec<RawRnd> = got.iter().map(|(_, d)| RawRnd::from(d.clone())).collect();
        let rewire: Vec<RawRnd> = raws.iter().map(|r| RawRnd::decode(&r.encode_to_vec()[..]).unwrap()).collect();
        match lv_common::no_panic(|| NamespaceData::from_raw(ndid, rewire.clone()).and_then(|n| n.verify(ndid, &sq.dah).map(|_| n))) {
            Ok(Ok(n)) => obs.check(n == nd, "C06:own-data-wire-roundtrip-differs", || format!("NamespaceData for {ns:?} changes through RawRowNamespaceData"))?,
            Ok(Err(e)) => obs.fail("C06:own-data-rejected", format!("NamespaceData for {ns:?} (width {w}) fails from_raw/verify after the wire round trip: {e}"))?,
            Err(rec) => obs.fail("C06:own-data-verify-panic", format!("from_raw/verify panicked on the square's own data for {ns:?}: {rec}"))?,
        }
        answers.push((*ns, want_rows, raws));
        brutes.push(brute);
    }

    // ---------------- soundness: mutated answers
    for (qi, (ns, _)) in qs.iter().enumerate() {
        let nsb = ns_bytes(ns);
        let ndid = NamespaceDataId::new(*ns, HEIGHT).unwrap();
        let brute = &brutes[qi];
        let (_, rows, honest) = answers[qi].clone();
        let honest_enc = encode_all(&honest);
        for m in &case.muts {
            let Some(mutated) = mutate(&mut env, m, ns, &nsb, &rows, &honest, &answers) else {
                obs.label("mut-not-applicable");
                continue;
            };
            let enc = encode_all(&mutated);
            if enc == honest_enc {
                obs.label("mut-noop");
                continue;
            }
            let ml = m_label(m);
            obs.label(ml);
            let d = digest_bytes(&enc) ^ digest_bytes(&nsb);
            let cross = match m {
                M::NeighbourShare { .. } | M::ForeignShare { .. } | M::SuperRange { .. } | M::OtherNsAnswer { .. } | M::AbsenceAddShare { .. } => true,
                _ => false,
            };
            if cross {
                obs.label("cross-namespace-substitution");
            }
            // (A) the whole answer
            obs.eval(Some(d));
            let res = lv_common::no_panic(|| {
                let nd = NamespaceData::from_raw(ndid, mutated.clone()).ok()?;
                nd.verify(ndid, &sq.dah).ok()?;
                Some(nd)
            });
            match res {
                Ok(Some(nd)) => {
                    obs.label("mutated-answer-accepted");
                    obs.label(&format!("accepted:{ml}"));
                    let got: Vec<Vec<Vec<u8>>> = nd.rows().iter().map(shares_bytes).collect();
                    let want: Vec<Vec<Vec<u8>>> = brute.iter().map(|(_, s)| s.clone()).collect();
                    if got != want {
                        obs.fail(
                            "C06:accepted-wrong-namespace-data",
                            format!(
                                "NamespaceData::verify accepted data for {ns:?} (width {w}) that differs from the square: rows covering the namespace {rows:?} hold {:?} shares, accepted answer holds {:?}; mutation {m:?}",
                                want.iter().map(|s| s.len()).collect::<Vec<_>>(),
                                got.iter().map(|s| s.len()).collect::<Vec<_>>()
                            ),
                        )?;
                    }
                }
                Ok(None) => {}
                Err(rec) => rejected_by_panic(obs, &rec, ml, || json!({"mutation": format!("{m:?}"), "namespace": hex::encode(nsb), "rows": rows, "answer": mutated.iter().map(raw_json).collect::<Vec<_>>()})),
            }
            // (B) each row on its own: under its own row id, under the next covered row's id, and
            // under the id of a row whose root range does not cover the namespace
            let uncovered: Option<u16> = (0..w as u16).rev().find(|r| !rows.contains(r));
            for (i, rr) in mutated.iter().enumerate() {
                if rows.is_empty() {
                    break;
                }
                for shift in [0usize, 1, 2] {
                    if shift == 1 && rows.len() < 2 {
                        continue;
                    }
                    let target = match (shift, uncovered) {
                        (2, Some(u)) => {
                            obs.label("row-checked-under-uncovered-row-id");
                            u
                        }
                        (2, None) => continue,
                        _ => rows[(i + shift) % rows.len()],
                    };
                    let rid = RowNamespaceDataId::new(*ns, target, HEIGHT).unwrap();
                    obs.eval(Some(d ^ ((i as u64 + 1) << 32) ^ ((target as u64 + 1) << 48)));
                    let res = lv_common::no_panic(|| {
                        let r = RowNamespaceData::from_raw(rid, rr.clone()).ok()?;
                        r.verify(rid, &sq.dah).ok()?;
                        Some(r)
                    });
                    match res {
                        Ok(Some(r)) => {
                            // a row whose root range does not cover the namespace contributes no
                            // namespace data at all (with the ignore-max rule that includes the parity
                            // half of the upper rows for PARITY): only "nothing" may be accepted there
                            let want = if shift == 2 { Vec::new() } else { env.raw.row_namespace_shares(target as usize, &nsb) };
                            if shares_bytes(&r) != want {
                                obs.fail(
                                    "C06:accepted-wrong-row-namespace-data",
                                    format!(
                                        "RowNamespaceData::verify accepted {} shares for {ns:?} in row {target} (width {w}) but that row holds {} shares of the namespace (or different ones); mutation {m:?}, element {i}",
                                        r.shares.len(),
                                        want.len()
                                    ),
                                )?;
                            }
                        }
                        Ok(None) => {}
                        Err(rec) => rejected_by_panic(obs, &rec, ml, || json!({"mutation": format!("{m:?}"), "namespace": hex::encode(nsb), "row": target, "element": raw_json(rr)})),
                    }
                }
            }
        }
    }
    Ok(())
}

pub fn run(ctx: &mut Ctx) {
    ctx.assume("the block is an EDS produced by ExtendedDataSquare::from_ods from a generated structured ODS; its DAH by DataAvailabilityHeader::from_eds (roots cross-checked against an independent NMT in C08)");
    ctx.assume("ground truth = brute-force scan of the raw square bytes; 'rows whose root range covers the namespace' is decided on reference NMT roots (lv_gen::refs, sha2 only)");
    ctx.assume("a panic while verifying an adversarial answer counts as rejection here and is reported for C16 (label panic-site:*)");
    ctx.essential(&[
        "absence-proof",
        "multi-row",
        "cross-namespace-substitution",
        "q-present",
        "q-gap",
        "q-parity",
        "q-reserved",
        "out-of-range",
        "mut-omission-valid-subrange",
        "mut-absence-claim",
        "mut-drop-row",
        "mut-swap-proofs",
        "mut-presence-proof-no-shares",
        "mut-absence-proof-with-shares",
        "mut-absence-leaf-moved",
        "mut-truncate-siblings",
        "mut-shift-range",
        "mut-other-namespace-proof",
    ]);
    let hi = ctx.tier.pick(4, 5); // ODS width 1..16 quick, ..32 thorough
    let cases = ctx.tier.pick(3000, 16000);
    ctx.proptest(
        "namespace-data",
        "per structured square: queries = every present namespace (incl. reserved / tail padding), one absent namespace per gap, below-all, high user, TX, PFB, primary padding, min secondary reserved, tail padding, PARITY. Completeness: eds.get_namespace_data verifies per row and as NamespaceData (also after the wire round trip), its rows are exactly the rows whose reference root range covers the namespace and its shares equal a brute-force scan. Soundness: 14-24 mutations per query (share drop/dup/swap/alter, neighbouring-namespace share with or without rewritten namespace, foreign share, row drop/dup/swap, proofs swapped between rows, presence proof without shares, absence claims built from honest single-leaf proofs, absence proof with shares, moved absence leaf, shifted range, truncated/dropped/duplicated/swapped siblings, honest proof of a strict sub-range, widened range, proof or answer of another namespace, ignore-max flag, empty answer) through RawRowNamespaceData -> from_raw -> verify, whole answer and each row separately (under its own id, the next covered row's id and the id of a row not covering the namespace): accepted => shares equal the brute-force scan. Non-trivial = multi-row or absent-in-range honest query, or any effective mutation (distinct by namespace + encoded answer + target row)",
        cases,
        move || (structured_square_strategy(0, hi), prop::collection::vec(m_strategy(), 14..24)).prop_map(|(square, muts)| Case { square, muts }),
        check,
    );
}
