//! C12 — Blob commitments follow the share-commitment rules.
//!
//! Oracle: an independent implementation (lv_gen::refs: own sparse-share splitter, ADR-013 subtree width and
//! merkle-mountain-range partition, own NMT hashing, own RFC-6962 root; sha2 only) must equal `blob.commitment`,
//! and `Blob::validate` must accept exactly when the stored commitment equals the reference value computed from
//! the blob's *current* fields.
use celestia_types::consts::appconsts::AppVersion;
use celestia_types::nmt::Namespace;
use celestia_types::state::AccAddress;
use celestia_types::{Blob, Commitment};
use lv_common::prelude::*;
use lv_gen::blob::{Fill, app_version, fill_strategy, len_range_for_count, ns_id_strategy, payload, refs_selfcheck, user_namespace};
use lv_gen::refs;

/// SubtreeRootThreshold of celestia-app (appconsts, identical in every released app version 1..=7).
/// Kept here as the specification's value, deliberately NOT read from celestia_types::consts.
fn spec_threshold(_app: AppVersion) -> u64 {
    64
}

#[derive(Clone, Copy, Debug, Serialize, Deserialize)]
pub enum LenPos {
    /// shortest data occupying exactly `count` shares
    Min,
    /// longest data occupying exactly `count` shares (last share completely full)
    Max,
    Mid(u16),
}

#[derive(Clone, Debug, Serialize, Deserialize)]
pub enum Tamper {
    DataBit { pos: u16, bit: u8 },
    DataAppend(u8),
    DataTruncate,
    NamespaceBit { byte: u8, bit: u8 },
    SignerBit { pos: u8, bit: u8 },
    SignerRemove,
    SignerAdd([u8; 20]),
    ShareVersion(u8),
    CommitmentBit { pos: u8, bit: u8 },
}

#[derive(Clone, Debug, Serialize, Deserialize)]
pub struct Case {
    pub count: u32,
    pub pos: LenPos,
    pub signer: Option<[u8; 20]>,
    pub app: u8,
    pub ns_id: [u8; 10],
    pub fill: Fill,
    pub seed: u64,
    pub tampers: Vec<Tamper>,
}

fn tamper_strategy() -> impl Strategy<Value = Tamper> {
    prop_oneof![
        4 => (any::<u16>(), 0u8..8).prop_map(|(pos, bit)| Tamper::DataBit { pos, bit }),
        1 => any::<u8>().prop_map(Tamper::DataAppend),
        1 => Just(Tamper::DataTruncate),
        2 => (0u8..10, 0u8..8).prop_map(|(byte, bit)| Tamper::NamespaceBit { byte, bit }),
        2 => (0u8..20, 0u8..8).prop_map(|(pos, bit)| Tamper::SignerBit { pos, bit }),
        1 => Just(Tamper::SignerRemove),
        1 => any::<[u8; 20]>().prop_map(Tamper::SignerAdd),
        2 => prop_oneof![Just(0u8), Just(1), Just(2), Just(127), any::<u8>()].prop_map(Tamper::ShareVersion),
        3 => (0u8..32, 0u8..8).prop_map(|(pos, bit)| Tamper::CommitmentBit { pos, bit }),
    ]
}

fn systematic_tampers(count: u32, k: u32) -> Vec<Tamper> {
    // a deterministic, rotating selection for the enumerated counts
    let all = [
        Tamper::DataBit { pos: (count.wrapping_mul(7919) % 65536) as u16, bit: (count % 8) as u8 },
        Tamper::CommitmentBit { pos: (count % 32) as u8, bit: (count / 32 % 8) as u8 },
        Tamper::NamespaceBit { byte: (count % 10) as u8, bit: (count / 10 % 8) as u8 },
        Tamper::SignerBit { pos: (count % 20) as u8, bit: (count / 20 % 8) as u8 },
        Tamper::DataBit { pos: 65535, bit: 0 },
        Tamper::DataBit { pos: 0, bit: 7 },
        Tamper::DataAppend(count as u8),
        Tamper::DataTruncate,
        Tamper::ShareVersion((count % 3) as u8),
        Tamper::SignerRemove,
        Tamper::SignerAdd([count as u8; 20]),
    ];
    (0..k as usize).map(|i| all[(count as usize + i * 5) % all.len()].clone()).collect()
}

/// reference commitment of arbitrary blob fields; None when (share_version, signer, app) is not a legal blob
fn reference(ns: &Namespace, data: &[u8], share_version: u8, signer: Option<&AccAddress>, app: AppVersion) -> Option<[u8; 32]> {
    use celestia_types::state::AddressTrait;
    let legal = match (share_version, signer) {
        (0, None) => true,
        (1, Some(_)) => app >= AppVersion::V3,
        _ => false,
    };
    if !legal || data.is_empty() {
        return None;
    }
    let nsb: [u8; refs::NS] = ns.as_bytes().try_into().unwrap();
    let sb: Option<[u8; 20]> = signer.map(|s| s.as_bytes().try_into().unwrap());
    let shares = refs::ref_split_blob(&nsb, data, share_version, sb.as_ref());
    Some(refs::ref_commitment(&nsb, &shares, spec_threshold(app)))
}

fn check(case: &Case, obs: &mut Obs) -> Result<(), Failure> {
    let signed = case.signer.is_some();
    let app = app_version(if signed { case.app.max(3) } else { case.app });
    let count = case.count.max(1) as usize;
    let (lo, hi) = len_range_for_count(count, signed);
    let len = match case.pos {
        LenPos::Min => lo,
        LenPos::Max => hi,
        LenPos::Mid(s) => lo + pick(s, hi - lo + 1),
    };
    let ns = user_namespace(case.ns_id);
    let data = payload(case.seed, len, case.fill);
    let signer = case.signer.map(AccAddress::from);
    let th = spec_threshold(app);
    let width = refs::subtree_width(count as u64, th);
    let sizes = refs::mmr_sizes(count as u64, width);
    let what = format!("shares={count} len={len} signed={signed} app={app:?} subtree_width={width} mmr={}", summarize(&sizes));

    // ---- honest blob
    let multi = count >= 2 && sizes.len() >= 2;
    obs.eval(multi.then(|| digest_of(&(case.count, len, signed, case.app, case.ns_id, case.seed))));
    obs.label(if signed { "share-version-1" } else { "share-version-0" });
    obs.label(&format!("app-v{}", app.as_u64()));
    if multi {
        obs.label("mmr-multi-tree");
    }
    if width > 1 {
        obs.label("subtree-width>1");
    }
    if sizes.iter().any(|s| *s < width) && sizes.iter().any(|s| *s == width) && width > 1 {
        obs.label("mmr-full-and-partial-trees");
    }
    if refs::round_up_pow2((count as u64).div_ceil(th)) > refs::blob_min_square_size(count as u64) {
        obs.label("width-capped-by-min-square-size");
    }
    if count as u64 % th <= 1 || count as u64 % th == th - 1 {
        obs.label("count-within-1-of-threshold-multiple");
    }
    if count == 1 {
        obs.label("single-share");
    }
    if count >= 1000 {
        obs.label("count>=1000");
    }
    match case.pos {
        LenPos::Min => obs.label("len-min-for-count"),
        LenPos::Max => obs.label("len-max-for-count"),
        LenPos::Mid(_) => {}
    }

    let expect = reference(&ns, &data, signed as u8, signer.as_ref(), app).ok_or_else(|| Failure::new("gen", "honest blob has no reference"))?;
    let blob = match Blob::new(ns, data.clone(), signer, app) {
        Ok(b) => b,
        Err(e) => {
            obs.fail("C12:blob-new-failed", format!("Blob::new failed ({what}): {e}"))?;
            return Ok(());
        }
    };
    obs.check(blob.commitment.hash() == &expect, "C12:commitment-differs-from-reference", || {
        format!("blob.commitment = {} but the independent ADR-013 implementation gives {} ({what})", hex::encode(blob.commitment.hash()), hex::encode(expect))
    })?;
    if count <= 600 {
        match blob.to_shares().and_then(|s| Commitment::from_shares(ns, &s, app)) {
            Ok(c) => obs.check(c.hash() == &expect, "C12:from-shares-differs-from-reference", || format!("Commitment::from_shares differs from the reference ({what})"))?,
            Err(e) => obs.fail("C12:from-shares-failed", format!("Commitment::from_shares failed ({what}): {e}"))?,
        }
    }
    if let Err(e) = blob.validate(app) {
        obs.fail("C12:validate-rejects-correct-commitment", format!("validate rejected an untouched blob ({what}): {e}"))?;
    }
    // other app versions share the threshold: the stored commitment stays the reference value there too
    let other = app_version(if signed { 3 + (case.app + 2) % 5 } else { 1 + (case.app + 2) % 7 });
    if other != app && count <= 300 {
        obs.eval(None);
        obs.label("validate-under-other-app-version");
        if let Err(e) = blob.validate(other) {
            obs.fail("C12:validate-rejects-correct-commitment", format!("validate({other:?}) rejected a blob created under {app:?} although the rules are identical ({what}): {e}"))?;
        }
    }

    // ---- tampering
    for (ti, t) in case.tampers.iter().enumerate() {
        let mut b = blob.clone();
        let label: &str;
        match t {
            Tamper::DataBit { pos, bit } => {
                let p = pick(*pos, b.data.len());
                b.data[p] ^= 1 << bit;
                label = "tamper-data-bit";
            }
            Tamper::DataAppend(x) => {
                b.data.push(*x);
                label = "tamper-data-append";
            }
            Tamper::DataTruncate => {
                if b.data.len() < 2 {
                    continue;
                }
                b.data.pop();
                label = "tamper-data-truncate";
            }
            Tamper::NamespaceBit { byte, bit } => {
                let mut id: [u8; 10] = b.namespace.id_v0().unwrap().try_into().unwrap();
                id[*byte as usize % 10] ^= 1 << bit;
                b.namespace = Namespace::const_v0(id);
                label = "tamper-namespace";
            }
            Tamper::SignerBit { pos, bit } => {
                use celestia_types::state::AddressTrait;
                let Some(s) = b.signer else { continue };
                let mut raw: [u8; 20] = s.as_bytes().try_into().unwrap();
                raw[*pos as usize % 20] ^= 1 << bit;
                b.signer = Some(AccAddress::from(raw));
                label = "tamper-signer-bit";
            }
            Tamper::SignerRemove => {
                if b.signer.is_none() {
                    continue;
                }
                b.signer = None;
                label = "tamper-signer-removed";
            }
            Tamper::SignerAdd(s) => {
                if b.signer.is_some() {
                    continue;
                }
                b.signer = Some(AccAddress::from(*s));
                label = "tamper-signer-added";
            }
            Tamper::ShareVersion(v) => {
                if *v == b.share_version {
                    continue;
                }
                b.share_version = *v;
                label = "tamper-share-version";
            }
            Tamper::CommitmentBit { pos, bit } => {
                let mut h = *b.commitment.hash();
                h[*pos as usize % 32] ^= 1 << bit;
                b.commitment = Commitment::new(h);
                label = "tamper-commitment";
            }
        }
        // soundness rule 2: the tamper really changed the value
        if b == blob {
            obs.label("tamper-noop-skipped");
            continue;
        }
        let r = reference(&b.namespace, &b.data, b.share_version, b.signer.as_ref(), app);
        let want_ok = r.is_some_and(|r| &r == b.commitment.hash());
        obs.eval(Some(digest_of(&(case.count, len, signed, case.app, case.ns_id, case.seed, ti, t))));
        obs.label(label);
        if r.is_none() {
            obs.label("tamper-makes-illegal-version-signer-combination");
        }
        let got = b.validate(app);
        if got.is_ok() != want_ok {
            if got.is_ok() {
                obs.fail(
                    "C12:validate-accepts-wrong-commitment",
                    format!("validate accepted a tampered blob ({label}: {t:?}) whose stored commitment differs from the reference over its current fields ({what})"),
                )?;
            } else {
                obs.fail("C12:validate-rejects-correct-commitment", format!("validate rejected after {label} although stored == reference ({what})"))?;
            }
        }
        // "accepts exactly when": re-commit the tampered fields with the REFERENCE value -> must be accepted
        if let Some(r) = r {
            if !matches!(t, Tamper::CommitmentBit { .. }) {
                b.commitment = Commitment::new(r);
                obs.eval(Some(digest_of(&(case.count, len, signed, case.app, case.ns_id, case.seed, ti, t, "recommit"))));
                obs.label("tamper-then-recommit-with-reference");
                if let Err(e) = b.validate(app) {
                    obs.fail(
                        "C12:validate-rejects-correct-commitment",
                        format!("after {label} the stored commitment was set to the reference value of the new fields, yet validate failed: {e} ({what})"),
                    )?;
                }
            }
        }
    }
    Ok(())
}

fn summarize(sizes: &[u64]) -> String {
    // run-length summary, e.g. "8x4,2,1"
    let mut out = Vec::new();
    let mut i = 0;
    while i < sizes.len() {
        let mut j = i;
        while j < sizes.len() && sizes[j] == sizes[i] {
            j += 1;
        }
        out.push(if j - i > 1 { format!("{}x{}", j - i, sizes[i]) } else { format!("{}", sizes[i]) });
        i = j;
    }
    out.join(",")
}

fn listed_counts(thorough: bool) -> Vec<u32> {
    let mut v: Vec<u32> = (1..=300).collect();
    for k in 1..=80u32 {
        v.extend([64 * k - 1, 64 * k, 64 * k + 1]);
    }
    let mut p = 1u32;
    while p <= 5000 {
        v.push(p);
        p *= 2;
    }
    v.extend((1..=70u32).map(|i| i * i));
    v.push(5000);
    // beyond the stated 5000: the first counts at which the min-square-size term of ADR-013 is the smaller one
    v.extend([8192, 8193]);
    if thorough {
        v.extend([8191, 10_000, 16_384, 16_385, 20_000]);
    }
    v.sort();
    v.dedup();
    v
}

fn listed_cases(thorough: bool) -> Vec<Case> {
    let mut out = Vec::new();
    for count in listed_counts(thorough) {
        let variants: &[(bool, LenPos)] = if thorough || count <= 300 {
            &[(false, LenPos::Max), (false, LenPos::Min), (true, LenPos::Max), (true, LenPos::Min)]
        } else if count % 2 == 0 {
            &[(false, LenPos::Max), (true, LenPos::Min)]
        } else {
            &[(false, LenPos::Min), (true, LenPos::Max)]
        };
        for (vi, (signed, pos)) in variants.iter().enumerate() {
            let mut rng = lv_common::Prng::new(((count as u64) << 3) | vi as u64);
            let k = if count <= 300 { 4 } else { 2 };
            out.push(Case {
                count,
                pos: *pos,
                signer: signed.then(|| rng.array::<20>()),
                app: if *signed { 3 + ((count + vi as u32) % 5) as u8 } else { 1 + ((count + vi as u32) % 7) as u8 },
                ns_id: rng.array::<10>(),
                fill: if count % 13 == 0 { Fill::Zeros } else { Fill::Random },
                seed: rng.next_u64(),
                tampers: systematic_tampers(count + vi as u32, k),
            });
        }
    }
    // spread the expensive (large) blobs over the worker chunks
    let n = out.len();
    let mut idx: Vec<usize> = (0..n).collect();
    idx.sort_by_key(|i| (i % 64, *i));
    idx.into_iter().map(|i| out[i].clone()).collect()
}

fn case_strategy(max_count: u32) -> impl Strategy<Value = Case> {
    (
        prop_oneof![
            5 => 1u32..=300,
            2 => (1u32..=80, -1i32..=1).prop_map(|(k, d)| (64 * k as i32 + d) as u32),
            2 => 1u32..=max_count,
        ],
        prop_oneof![Just(LenPos::Min), Just(LenPos::Max), any::<u16>().prop_map(LenPos::Mid)],
        prop::option::of(any::<[u8; 20]>()),
        1u8..=7,
        ns_id_strategy(),
        fill_strategy(),
        any::<u64>(),
        prop::collection::vec(tamper_strategy(), 0..5),
    )
        .prop_map(|(count, pos, signer, app, ns_id, fill, seed, mut tampers)| {
            if count > 1000 {
                tampers.truncate(2);
            }
            Case { count, pos, signer, app, ns_id, fill, seed, tampers }
        })
}

pub fn run(ctx: &mut Ctx) {
    if let Err(e) = refs_selfcheck() {
        ctx.inconclusive(format!("reference implementation failed its known-answer self-check: {e}"));
        return;
    }
    ctx.assume("reference = lv_gen::refs (ref_split_blob, subtree_width, mmr_sizes, nmt_leaf/nmt_inner/nmt_root, rfc_root) written from ADR-013 and go-square/inclusion (SubTreeWidth = min(roundUpPow2(ceil(n/threshold)), roundUpPow2(ceil(sqrt n))); greedy merkle mountain range; NMT with ignore-max-namespace; RFC-6962 root over the 90-byte subtree roots); it passes the known-answer checks in lv_gen::blob::refs_selfcheck (two commitments recorded from celestia-node, go-square's MMR and SubTreeWidth tables)");
    ctx.assume("SubtreeRootThreshold = 64 for every app version 1..=7 (celestia-app appconsts), taken from the specification and not from celestia_types::consts");
    ctx.assume("a (share_version, signer, app) combination that is not a legal blob (v0 with signer, v1 without signer or before app v3, version >= 2) has no reference commitment, so validate must reject it; sha256 collisions are excluded");
    ctx.essential(&[
        "mmr-multi-tree",
        "subtree-width>1",
        "mmr-full-and-partial-trees",
        "width-capped-by-min-square-size",
        "count-within-1-of-threshold-multiple",
        "share-version-0",
        "share-version-1",
        "tamper-data-bit",
        "tamper-namespace",
        "tamper-signer-bit",
        "tamper-share-version",
        "tamper-commitment",
        "tamper-then-recommit-with-reference",
        "app-v1",
        "app-v7",
    ]);
    let thorough = matches!(ctx.tier, Tier::Thorough);
    ctx.enumerate(
        "listed-share-counts",
        "share counts: every 1..=300, every 64k-1/64k/64k+1 for k<=80, powers of two and perfect squares up to 5000, 5000, 8192, 8193 (thorough: +8191, 10000, 16384, 16385, 20000); data length = shortest / longest producing exactly that count; share version 0 and 1 (quick: all four combinations up to 300 shares, two above; thorough: all four); app versions rotating over 1..7 (signed 3..7); 2-4 rotating tampers each. blob.commitment == independent implementation; validate Ok <=> stored commitment == reference over the current fields; tampered fields re-committed with the reference value must validate. Non-trivial = honest blob whose merkle mountain range has >= 2 trees, or a value-changing tamper evaluation",
        true,
        listed_cases(thorough),
        check,
    );
    let cases = ctx.tier.pick(3000, 40_000);
    let max_count = ctx.tier.pick(5000u32, 9000u32);
    ctx.proptest(
        "random-blobs",
        "random share counts (1..=300, 64k+-1, uniform up to 5000; thorough 9000), random length position within the count, share versions, app versions, namespaces, payload fills, 0..4 random tampers (data bit/append/truncate, namespace bit, signer bit/remove/add, share_version, stored commitment bit); same oracles. Non-trivial as above",
        cases,
        move || case_strategy(max_count),
        check,
    );
}
