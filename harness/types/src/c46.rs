//! C46 — Public data types round-trip through their wire and JSON forms (celestia-types part; BlockRanges is
//! covered in lv-node).
//!
//! Values are produced by the public constructors of the crate from generated chains / squares
//! (`lv_gen::chain`, `lv_gen::square`): headers are sealed multi-validator headers, proofs are the proofs the
//! library itself produces for generated squares. Oracle, per value x:
//!   protobuf:  decode(encode(x)) == x  and  encode(decode(encode(x))) == encode(x)
//!   JSON:      from_str(to_string(x)) == x, from_value(to_value(x)) == x, and to_string is stable.
//! Types whose decoder needs an id (Sample, Row, RowNamespaceData, NamespaceData) are decoded under the id
//! they were produced for. Parity shares are excepted from the bare `Share` JSON/wire form (no parity flag).
use bytes::BytesMut;
use celestia_proto::share::eds::byzantine::pb::{BadEncoding as RawBefp, Share as RawShareWithProof};
use celestia_proto::shwap::RowNamespaceData as RawRowNamespaceData;
use celestia_types::consts::appconsts::AppVersion;
use celestia_types::fraud_proof::{BadEncodingFraudProof, Proof as FraudProofEnum};
use celestia_types::namespace_data::{NamespaceData, NamespaceDataId};
use celestia_types::nmt::{Namespace, NamespaceProof, NamespacedHash};
use celestia_types::row::{Row, RowId};
use celestia_types::row_namespace_data::{RowNamespaceData, RowNamespaceDataId};
use celestia_types::sample::{Sample, SampleId};
use celestia_types::state::AccAddress;
use celestia_types::{AxisType, Blob, DataAvailabilityHeader, ExtendedHeader, MerkleProof, RowProof, Share, ShareProof};
use lv_common::prelude::*;
use lv_gen::chain::{ChainSpec, build_chain, chain_strategy};
use lv_gen::square::{SquareSpec, build_square, square_strategy, user_ns};
use prost::Message;
use serde::de::DeserializeOwned;
use tendermint_proto::Protobuf;

#[derive(Clone, Debug, Serialize, Deserialize)]
pub struct BlobSpec {
    pub ns_key: u16,
    /// raw 10-byte v0 id used instead of ns_key when Some
    pub ns_raw: Option<[u8; 10]>,
    pub len: u32,
    pub seed: u64,
    pub signer: Option<[u8; 20]>,
    pub index: Option<u64>,
    pub app: u8,
}

#[derive(Clone, Debug, Serialize, Deserialize)]
pub struct BefpSpec {
    pub col_axis: bool,
    pub index: u16,
    /// bit j: share j of the axis is present (extended with `seed` for wide squares)
    pub present_seed: u64,
    /// bit j: share j is proven against the orthogonal axis
    pub ortho_seed: u64,
    pub header_hash: [u8; 32],
    pub height: u64,
}

#[derive(Clone, Debug, Serialize, Deserialize)]
pub struct Case {
    pub chain: ChainSpec,
    pub square: SquareSpec,
    pub sel: Vec<u16>,
    pub blob: BlobSpec,
    pub merkle_leaves: u8,
    pub merkle_seed: u64,
    pub befp: BefpSpec,
    pub height: u64,
}

fn blob_strategy() -> impl Strategy<Value = BlobSpec> {
    (
        any::<u16>(),
        prop::option::weighted(0.3, any::<[u8; 10]>()),
        prop_oneof![
            2 => 0u32..4,
            2 => 470u32..486,
            2 => 450u32..470,
            1 => 950u32..970,
            3 => 0u32..3000,
            1 => 3000u32..20000,
        ],
        any::<u64>(),
        prop::option::weighted(0.5, any::<[u8; 20]>()),
        prop_oneof![
            3 => Just(None),
            1 => Just(Some(0u64)),
            1 => Just(Some(i64::MAX as u64)),
            2 => (0u64..=i64::MAX as u64).prop_map(Some),
            1 => (0u64..100_000).prop_map(Some),
        ],
        1u8..=7,
    )
        .prop_map(|(ns_key, ns_raw, len, seed, signer, index, app)| BlobSpec { ns_key, ns_raw, len, seed, signer, index, app })
}

fn befp_strategy() -> impl Strategy<Value = BefpSpec> {
    (
        any::<bool>(),
        any::<u16>(),
        prop_oneof![Just(u64::MAX), any::<u64>()],
        prop_oneof![Just(0u64), Just(u64::MAX), any::<u64>()],
        any::<[u8; 32]>(),
        prop_oneof![Just(1u64), 1u64..1_000_000, 1u64..=i64::MAX as u64],
    )
        .prop_map(|(col_axis, index, present_seed, ortho_seed, header_hash, height)| BefpSpec { col_axis, index, present_seed, ortho_seed, header_hash, height })
}

fn tag(name: &str) -> u64 {
    digest_bytes(name.as_bytes())
}

/// protobuf round trip through tendermint_proto::Protobuf
fn rt_proto<T, R>(obs: &mut Obs, name: &str, x: &T) -> Result<(), Failure>
where
    T: Protobuf<R> + PartialEq + std::fmt::Debug,
    R: Message + From<T> + Default,
    <T as TryFrom<R>>::Error: std::fmt::Display,
{
    let bytes = x.clone().encode_vec();
    obs.eval(Some(digest_bytes(&bytes) ^ tag(name)));
    obs.label(&format!("{name}-proto"));
    match T::decode_vec(&bytes) {
        Ok(y) => {
            obs.check(y == *x, &format!("C46:{name}:proto-roundtrip"), || format!("{name}: decode(encode(x)) != x\n x = {x:?}\n y = {y:?}"))?;
            let again = y.encode_vec();
            obs.check(again == bytes, &format!("C46:{name}:proto-reencode-unstable"), || format!("{name}: re-encoding differs ({} vs {} bytes)", again.len(), bytes.len()))?;
        }
        Err(e) => obs.fail(&format!("C46:{name}:proto-roundtrip"), format!("{name}: decode(encode(x)) failed: {e}\n x = {x:?}"))?,
    }
    Ok(())
}

/// JSON round trip: string form, Value form, stability
fn rt_json<T>(obs: &mut Obs, name: &str, x: &T) -> Result<(), Failure>
where
    T: Serialize + DeserializeOwned + PartialEq + std::fmt::Debug,
{
    let s = match serde_json::to_string(x) {
        Ok(s) => s,
        Err(e) => return obs.fail(&format!("C46:{name}:json-roundtrip"), format!("{name}: to_string failed: {e}\n x = {x:?}")),
    };
    obs.eval(Some(digest_bytes(s.as_bytes()) ^ tag(name) ^ 0x150));
    obs.label(&format!("{name}-json"));
    match serde_json::from_str::<T>(&s) {
        Ok(y) => {
            obs.check(y == *x, &format!("C46:{name}:json-roundtrip"), || format!("{name}: from_str(to_string(x)) != x\n json = {s}\n x = {x:?}\n y = {y:?}"))?;
            let again = serde_json::to_string(&y).unwrap_or_default();
            obs.check(again == s, &format!("C46:{name}:json-reencode-unstable"), || format!("{name}: JSON re-encoding differs\n first  = {s}\n second = {again}"))?;
        }
        Err(e) => obs.fail(&format!("C46:{name}:json-roundtrip"), format!("{name}: from_str(to_string(x)) failed: {e}\n json = {s}"))?,
    }
    match serde_json::to_value(x) {
        Ok(v) => match serde_json::from_value::<T>(v) {
            Ok(y) => obs.check(y == *x, &format!("C46:{name}:json-value-roundtrip"), || format!("{name}: from_value(to_value(x)) != x\n x = {x:?}\n y = {y:?}"))?,
            Err(e) => obs.fail(&format!("C46:{name}:json-value-roundtrip"), format!("{name}: from_value(to_value(x)) failed: {e}\n json = {s}"))?,
        },
        Err(e) => obs.fail(&format!("C46:{name}:json-value-roundtrip"), format!("{name}: to_value failed: {e}"))?,
    }
    Ok(())
}

fn succ(ns: &Namespace) -> Option<Namespace> {
    let mut b: [u8; 29] = ns.as_bytes().try_into().unwrap();
    if b[28] == 0xff {
        return None;
    }
    b[28] += 1;
    Namespace::from_raw(&b).ok()
}

/// The "empty" absence proof (namespace outside the tree's range: no siblings, empty range, no leaf) has a
/// single root cause when it fails to round trip: the wire form cannot tell it from a presence proof of an
/// empty range and the decoder picks the latter. Reported under one signature for every form.
fn check_empty_absence(obs: &mut Obs, p: &NamespaceProof, ctx: Option<(&NamespacedHash, Namespace)>) -> Result<(), Failure> {
    const SIG: &str = "C46:empty-absence-proof-decodes-as-presence";
    let describe = |form: &str, y: &NamespaceProof| {
        format!(
            "absence proof of a namespace outside the tree range does not survive the {form} form: x = {p:?} decodes to y = {y:?} (is_of_absence {} -> {})",
            p.is_of_absence(),
            y.is_of_absence()
        )
    };
    let same_but_kind = |y: &NamespaceProof| !y.is_of_absence() && y.siblings() == p.siblings() && y.start_idx() == p.start_idx() && y.end_idx() == p.end_idx() && y.max_ns_ignored() == p.max_ns_ignored();
    // protobuf
    let bytes = p.clone().encode_vec();
    obs.eval(Some(digest_bytes(&bytes) ^ tag("nsproof-absence-out-of-range")));
    obs.label("nsproof-absence-out-of-range-proto");
    match NamespaceProof::decode_vec(&bytes) {
        Ok(y) if y == *p => {}
        Ok(y) if same_but_kind(&y) => {
            // record what the difference means for verification (observation only)
            if let Some((root, ns)) = ctx {
                let none: Vec<Vec<u8>> = Vec::new();
                let before = p.verify_complete_namespace(root, &none, *ns);
                let after = y.verify_complete_namespace(root, &none, *ns);
                obs.note(format!("empty absence proof: verify_complete_namespace(root, no leaves, ns) is {before:?} on the original and {after:?} on the decoded value"));
            }
            obs.fail(SIG, describe("protobuf", &y))?
        }
        Ok(y) => obs.fail("C46:nsproof-absence-out-of-range:proto-roundtrip", describe("protobuf", &y))?,
        Err(e) => obs.fail("C46:nsproof-absence-out-of-range:proto-roundtrip", format!("decode(encode(x)) failed: {e}; x = {p:?}"))?,
    }
    // JSON
    let s = serde_json::to_string(p).map_err(|e| Failure::new("C46:nsproof-absence-out-of-range:json-roundtrip", e.to_string()))?;
    obs.eval(Some(digest_bytes(s.as_bytes()) ^ tag("nsproof-absence-out-of-range") ^ 0x150));
    obs.label("nsproof-absence-out-of-range-json");
    match serde_json::from_str::<NamespaceProof>(&s) {
        Ok(y) if y == *p => {}
        Ok(y) if same_but_kind(&y) => obs.fail(SIG, describe("JSON", &y))?,
        Ok(y) => obs.fail("C46:nsproof-absence-out-of-range:json-roundtrip", describe("JSON", &y))?,
        Err(e) => obs.fail("C46:nsproof-absence-out-of-range:json-roundtrip", format!("from_str(to_string(x)) failed: {e}; json = {s}"))?,
    }
    Ok(())
}

fn check_ns_proof(obs: &mut Obs, p: &NamespaceProof, ctx: Option<(&NamespacedHash, Namespace)>) -> Result<(), Failure> {
    let class = if p.is_of_absence() {
        if p.leaf().is_some() { "nsproof-absence-in-range" } else { "nsproof-absence-out-of-range" }
    } else if p.start_idx() == p.end_idx() {
        "nsproof-presence-empty-range"
    } else {
        "nsproof-presence"
    };
    obs.label(class);
    if class == "nsproof-absence-out-of-range" {
        return check_empty_absence(obs, p, ctx);
    }
    rt_proto(obs, class, p)?;
    rt_json(obs, class, p)?;
    Ok(())
}

pub fn run(ctx: &mut Ctx) {
    ctx.assume("values are generated through the crate's own constructors from lv_gen chains/squares (valid by construction); equality is the types' own PartialEq");
    ctx.assume("BlockRanges is checked in lv-node; postcard/binary serde forms are not exercised");
    ctx.assume("Blob's protobuf form has no index/commitment field: the wire round trip is asserted for index = None and modulo index otherwise");
    ctx.essential(&[
        "header-proto",
        "header-json",
        "dah-proto",
        "dah-json",
        "blob-proto",
        "blob-json",
        "blob-with-signer",
        "blob-index-some",
        "share-json",
        "share-proto",
        "parity-share-excepted",
        "namespace-json",
        "nsproof-presence-proto",
        "nsproof-presence-json",
        "nsproof-absence-in-range-proto",
        "nsproof-absence-in-range-json",
        "nsproof-absence-out-of-range-proto",
        "nsproof-absence-out-of-range-json",
        "rowproof-proto",
        "rowproof-json",
        "shareproof-proto",
        "shareproof-json",
        "shareproof-multi-row",
        "merkleproof-proto",
        "merkleproof-json",
        "befp-proto",
        "befp-with-missing-shares",
        "fraudproof-json",
        "rownsdata-wire",
        "rownsdata-json",
        "nsdata-json",
        "nsdata-wire",
        "sample-wire",
        "row-wire",
    ]);
    let max_log2 = ctx.tier.pick(3, 5);
    let cases = ctx.tier.pick(3000, 40_000);
    ctx.proptest(
        "values",
        "per case: a generated chain (1-2 sealed headers, 1-6 validators, rotation, Commit/Nil/Absent votes, squares), a generated square (ODS 1..8 wide quick, ..32 thorough), a blob (len 0..20000, boundary lengths, with/without signer, index None/0/i64::MAX/random), a merkle proof (1..=40 leaves), a BEFP built from the square (row/col axis, missing shares, per-share proof axis). Every value of every listed type goes through protobuf and JSON round trips. Non-trivial = every evaluated value (distinct by its encoding and type)",
        cases,
        move || {
            (
                chain_strategy(1..=2, 6, true, true),
                square_strategy(0, max_log2),
                prop::collection::vec(any::<u16>(), 12),
                blob_strategy(),
                1u8..=40,
                any::<u64>(),
                befp_strategy(),
                prop_oneof![Just(1u64), 1u64..100_000, 1u64..=u64::MAX],
            )
                .prop_map(|(chain, square, sel, blob, merkle_leaves, merkle_seed, befp, height)| Case { chain, square, sel, blob, merkle_leaves, merkle_seed, befp, height })
        },
        |c, obs| {
            let gen_err = |what: &str, e: &dyn std::fmt::Display| Failure::new("gen", format!("generator: {what}: {e}"));
            // ------------------------------------------------------------ headers, DAHs
            let chain = build_chain(&c.chain);
            for h in &chain.headers {
                if let Err(e) = h.validate() {
                    return Err(gen_err("generated header does not validate", &e));
                }
                rt_proto::<ExtendedHeader, _>(obs, "header", h)?;
                rt_json(obs, "header", h)?;
                if h.commit.signatures.iter().any(|s| matches!(s, tendermint::block::CommitSig::BlockIdFlagAbsent)) {
                    obs.label("header-with-absent-vote");
                }
                if h.commit.signatures.iter().any(|s| matches!(s, tendermint::block::CommitSig::BlockIdFlagNil { .. })) {
                    obs.label("header-with-nil-vote");
                }
                rt_proto::<DataAvailabilityHeader, _>(obs, "dah", &h.dah)?;
                rt_json(obs, "dah", &h.dah)?;
            }

            // ------------------------------------------------------------ square derived values
            let app = lv_gen::chain::app_version_of(c.chain.app_version);
            let sq = build_square(&c.square, app);
            let eds = &sq.eds;
            let dah = &sq.dah;
            let w = eds.square_width();
            let k = w / 2;
            rt_proto::<DataAvailabilityHeader, _>(obs, "dah", dah)?;
            rt_json(obs, "dah", dah)?;
            let s = |i: usize| c.sel[i % c.sel.len()];

            // shares: bare Share form for ODS shares, parity excepted
            for i in 0..4 {
                let (r, col) = (pick(s(i), k as usize) as u16, pick(s(i + 4), k as usize) as u16);
                let sh = eds.share(r, col).map_err(|e| gen_err("share", &e))?.clone();
                if sh.is_parity() {
                    return Err(Failure::new("gen", "ODS share flagged parity"));
                }
                rt_json(obs, "share", &sh)?;
                // wire form of a bare share
                let raw = celestia_proto::shwap::Share::from(sh.clone());
                let bytes = raw.encode_to_vec();
                obs.eval(Some(digest_bytes(&bytes) ^ tag("share")));
                obs.label("share-proto");
                match celestia_proto::shwap::Share::decode(&bytes[..]).map_err(|e| e.to_string()).and_then(|r| Share::try_from(r).map_err(|e| e.to_string())) {
                    Ok(y) => obs.check(y == sh, "C46:share:proto-roundtrip", || format!("share ({r},{col}) wire round trip differs"))?,
                    Err(e) => obs.fail("C46:share:proto-roundtrip", format!("share ({r},{col}) wire round trip failed: {e}"))?,
                }
                rt_json(obs, "namespace", &sh.namespace())?;
            }
            {
                // a parity share: excepted, only observed
                let (r, col) = (k + pick(s(2), k as usize) as u16, pick(s(3), w as usize) as u16);
                let sh = eds.share(r, col).map_err(|e| gen_err("share", &e))?.clone();
                obs.eval(None);
                obs.label("parity-share-excepted");
                let js = serde_json::to_string(&sh).unwrap_or_default();
                match serde_json::from_str::<Share>(&js) {
                    Ok(y) if y == sh => obs.label("parity-share-json-equal"),
                    Ok(_) => obs.label("parity-share-json-loses-flag"),
                    Err(_) => obs.label("parity-share-json-rejected"),
                }
            }
            for ns in [Namespace::TRANSACTION, Namespace::PAY_FOR_BLOB, Namespace::TAIL_PADDING, Namespace::PARITY_SHARE, Namespace::MAX_PRIMARY_RESERVED, user_ns(s(5))] {
                rt_json(obs, "namespace", &ns)?;
            }

            // samples and rows (decoded under their ids)
            for i in 0..3 {
                let (r, col) = (pick(s(i + 1), w as usize) as u16, pick(s(i + 6), w as usize) as u16);
                for axis in [AxisType::Row, AxisType::Col] {
                    let id = SampleId::new(r, col, c.height).map_err(|e| gen_err("SampleId", &e))?;
                    let x = Sample::new(r, col, axis, eds).map_err(|e| gen_err("Sample::new", &e))?;
                    let mut buf = BytesMut::new();
                    x.encode(&mut buf);
                    obs.eval(Some(digest_bytes(&buf) ^ tag("sample")));
                    obs.label("sample-wire");
                    match Sample::decode(id, &buf) {
                        Ok(y) => {
                            obs.check(y.share == x.share && y.proof == x.proof && y.proof_type == x.proof_type, "C46:sample:proto-roundtrip", || {
                                format!("sample ({r},{col}) {axis:?} of width {w}: decode(encode(x)) differs: parity {} -> {}", x.share.is_parity(), y.share.is_parity())
                            })?;
                            let mut again = BytesMut::new();
                            y.encode(&mut again);
                            obs.check(again == buf, "C46:sample:proto-reencode-unstable", || "sample re-encoding differs".to_string())?;
                        }
                        Err(e) => obs.fail("C46:sample:proto-roundtrip", format!("sample ({r},{col}) {axis:?} width {w}: decode(encode(x)) failed: {e}"))?,
                    }
                }
                let id = RowId::new(r, c.height).map_err(|e| gen_err("RowId", &e))?;
                let x = Row::new(r, eds).map_err(|e| gen_err("Row::new", &e))?;
                let mut buf = BytesMut::new();
                x.encode(&mut buf);
                obs.eval(Some(digest_bytes(&buf) ^ tag("row")));
                obs.label("row-wire");
                match Row::decode(id, &buf) {
                    Ok(y) => obs.check(y.shares == x.shares, "C46:row:proto-roundtrip", || format!("row {r} of width {w}: decode(encode(x)) differs"))?,
                    Err(e) => obs.fail("C46:row:proto-roundtrip", format!("row {r} of width {w}: decode(encode(x)) failed: {e}"))?,
                }
            }

            // namespace proofs: what the row/column trees produce
            {
                let r = pick(s(0), k as usize) as u16;
                let mut tree = eds.row_nmt(r).map_err(|e| gen_err("row_nmt", &e))?;
                let row_ns: Vec<Namespace> = (0..k).map(|col| eds.share(r, col).unwrap().namespace()).collect();
                let mut cands: Vec<Namespace> = Vec::new();
                for n in &row_ns {
                    if !cands.contains(n) {
                        cands.push(*n);
                        if let Some(x) = succ(n) {
                            cands.push(x);
                        }
                    }
                }
                cands.push(user_ns(s(1)));
                cands.push(Namespace::const_v0([0; 10]));
                cands.push(Namespace::PARITY_SHARE);
                cands.push(Namespace::TAIL_PADDING);
                let root = tree.root();
                for n in cands {
                    let p: NamespaceProof = tree.get_namespace_proof(*n).into();
                    check_ns_proof(obs, &p, Some((&root, n)))?;
                }
                // arbitrary ranges of row and column trees
                let (a, b) = (pick(s(2), w as usize), pick(s(3), w as usize));
                let (a, b) = (a.min(b), a.max(b) + 1);
                let p: NamespaceProof = tree.get_range_with_proof(a..b).1.into();
                check_ns_proof(obs, &p, None)?;
                let mut ctree = eds.column_nmt(pick(s(4), w as usize) as u16).map_err(|e| gen_err("column_nmt", &e))?;
                let p: NamespaceProof = ctree.get_range_with_proof(a..b).1.into();
                check_ns_proof(obs, &p, None)?;
            }

            // row proofs
            {
                let (a, b) = (pick(s(6), w as usize) as u16, pick(s(7), w as usize) as u16);
                for (a, b) in [(a.min(b), a.max(b)), (0, w - 1), (a, a)] {
                    let p = dah.row_proof(a..=b).map_err(|e| gen_err("row_proof", &e))?;
                    if p.verify(dah.hash()).is_err() {
                        obs.label("rowproof-does-not-verify");
                    }
                    rt_proto::<RowProof, _>(obs, "rowproof", &p)?;
                    rt_json(obs, "rowproof", &p)?;
                }
            }

            // share proofs
            {
                // every ODS share in row-major order with its namespace
                let ods: Vec<(u16, u16, Namespace)> = (0..k).flat_map(|r| (0..k).map(move |col| (r, col))).map(|(r, col)| (r, col, eds.share(r, col).unwrap().namespace())).collect();
                let at = pick(s(8), ods.len());
                let ns = ods[at].2;
                let first = ods.iter().position(|x| x.2 == ns).unwrap();
                let last = ods.iter().rposition(|x| x.2 == ns).unwrap();
                let (x, y) = (first + pick(s(9), last - first + 1), first + pick(s(10), last - first + 1));
                let (a, b) = (x.min(y), x.max(y) + 1);
                let (r0, r1) = (ods[a].0, ods[b - 1].0);
                let mut share_proofs: Vec<NamespaceProof> = Vec::new();
                let mut data = Vec::new();
                for r in r0..=r1 {
                    let c0 = if r == r0 { ods[a].1 } else { 0 };
                    let c1 = if r == r1 { ods[b - 1].1 + 1 } else { k };
                    let mut tree = eds.row_nmt(r).map_err(|e| gen_err("row_nmt", &e))?;
                    share_proofs.push(tree.get_range_with_proof(c0 as usize..c1 as usize).1.into());
                    for col in c0..c1 {
                        data.push(*eds.share(r, col).unwrap().data());
                    }
                }
                let sp = ShareProof {
                    data,
                    namespace_id: ns,
                    share_proofs,
                    row_proof: dah.row_proof(r0..=r1).map_err(|e| gen_err("row_proof", &e))?,
                };
                match sp.verify(dah.hash()) {
                    Ok(()) => obs.label("shareproof-verifies"),
                    Err(e) => {
                        obs.label("shareproof-does-not-verify");
                        obs.note(format!("generated share proof does not verify: {e}"));
                    }
                }
                if r1 > r0 {
                    obs.label("shareproof-multi-row");
                }
                rt_proto::<ShareProof, _>(obs, "shareproof", &sp)?;
                rt_json(obs, "shareproof", &sp)?;
            }

            // merkle proofs
            {
                let mut rng = lv_common::Prng::new(c.merkle_seed);
                let n = c.merkle_leaves as usize;
                let leaves: Vec<Vec<u8>> = (0..n).map(|_| { let l = 1 + rng.below(40) as usize; rng.bytes(l) }).collect();
                for i in [0, pick(s(11), n), n - 1] {
                    let (p, _root) = MerkleProof::new(i, &leaves).map_err(|e| gen_err("MerkleProof::new", &e))?;
                    rt_proto::<MerkleProof, _>(obs, "merkleproof", &p)?;
                    rt_json(obs, "merkleproof", &p)?;
                }
            }

            // row namespace data / namespace data
            {
                let mut present: Vec<Namespace> = Vec::new();
                for r in 0..k {
                    for col in 0..k {
                        let n = eds.share(r, col).unwrap().namespace();
                        if !present.contains(&n) {
                            present.push(n);
                        }
                    }
                }
                // one absent namespace inside the square's range too
                if let Some(x) = present.first().and_then(succ) {
                    if !present.contains(&x) {
                        present.push(x);
                    }
                }
                for ns in present {
                    let rows = eds.get_namespace_data(ns, dah, c.height).map_err(|e| gen_err("get_namespace_data", &e))?;
                    let mut raws: Vec<RawRowNamespaceData> = Vec::new();
                    for (id, rnd) in &rows {
                        let mut buf = BytesMut::new();
                        rnd.encode(&mut buf);
                        obs.eval(Some(digest_bytes(&buf) ^ tag("rownsdata")));
                        obs.label("rownsdata-wire");
                        if rnd.shares.is_empty() {
                            obs.label("rownsdata-absence");
                        }
                        match RowNamespaceData::decode(*id, &buf) {
                            Ok(y) => {
                                obs.check(y == *rnd, "C46:rownsdata:proto-roundtrip", || format!("RowNamespaceData of {ns:?} row {}: decode(encode(x)) != x\n x = {rnd:?}\n y = {y:?}", id.row_index()))?;
                                let mut again = BytesMut::new();
                                y.encode(&mut again);
                                obs.check(again == buf, "C46:rownsdata:proto-reencode-unstable", || "RowNamespaceData re-encoding differs".to_string())?;
                            }
                            Err(e) => obs.fail("C46:rownsdata:proto-roundtrip", format!("RowNamespaceData of {ns:?} row {}: decode(encode(x)) failed: {e}", id.row_index()))?,
                        }
                        if ns == Namespace::PARITY_SHARE {
                            // parity shares carry no flag in the JSON form: excepted by the statement
                            obs.label("rownsdata-parity-json-excepted");
                        } else {
                            rt_json(obs, "rownsdata", rnd)?;
                        }
                        raws.push(RawRowNamespaceData::from(rnd.clone()));
                    }
                    let nd = NamespaceData::new(rows.iter().map(|(_, r)| r.clone()).collect());
                    if ns != Namespace::PARITY_SHARE {
                        rt_json(obs, "nsdata", &nd)?;
                    }
                    let nid = NamespaceDataId::new(ns, c.height).map_err(|e| gen_err("NamespaceDataId", &e))?;
                    obs.eval(Some(digest_of(&nd) ^ tag("nsdata")));
                    obs.label("nsdata-wire");
                    match NamespaceData::from_raw(nid, raws) {
                        Ok(y) => obs.check(y == nd, "C46:nsdata:proto-roundtrip", || format!("NamespaceData of {ns:?}: from_raw(into raw) != x"))?,
                        Err(e) => obs.fail("C46:nsdata:proto-roundtrip", format!("NamespaceData of {ns:?}: from_raw(into raw) failed: {e}"))?,
                    }
                    let _ = RowNamespaceDataId::new(ns, 0, c.height);
                }
            }

            // bad encoding fraud proofs (private fields: built through the wire form, then round-tripped)
            {
                let b = &c.befp;
                let index = pick(b.index, w as usize) as u16;
                let axis = if b.col_axis { AxisType::Col } else { AxisType::Row };
                let mut shares = Vec::new();
                let mut missing = 0;
                for j in 0..w {
                    let bit = |seed: u64| (seed.rotate_left(j as u32 / 64 * 7) >> (j % 64)) & 1 == 1;
                    if !bit(b.present_seed) {
                        shares.push(RawShareWithProof::default());
                        missing += 1;
                        continue;
                    }
                    let (r, col) = if b.col_axis { (j, index) } else { (index, j) };
                    let sh = eds.share(r, col).unwrap();
                    let ns = if r < k && col < k { sh.namespace() } else { Namespace::PARITY_SHARE };
                    let ortho = bit(b.ortho_seed);
                    let proof_axis = if ortho != b.col_axis { AxisType::Col } else { AxisType::Row };
                    let p: NamespaceProof = match proof_axis {
                        AxisType::Row => eds.row_nmt(r).unwrap().get_range_with_proof(col as usize..col as usize + 1).1.into(),
                        AxisType::Col => eds.column_nmt(col).unwrap().get_range_with_proof(r as usize..r as usize + 1).1.into(),
                    };
                    let mut data = ns.as_bytes().to_vec();
                    data.extend_from_slice(sh.as_ref());
                    shares.push(RawShareWithProof {
                        data,
                        proof: Some(p.into()),
                        proof_axis: proof_axis as i32,
                    });
                }
                let raw = RawBefp {
                    header_hash: b.header_hash.to_vec(),
                    height: b.height,
                    shares,
                    index: index as u32,
                    axis: axis as i32,
                };
                let raw_bytes = raw.encode_to_vec();
                let x = BadEncodingFraudProof::decode_vec(&raw_bytes).map_err(|e| Failure::new("C46:befp:valid-rejected", format!("well-formed BEFP wire message rejected: {e}")))?;
                if missing > 0 {
                    obs.label("befp-with-missing-shares");
                }
                let enc = x.clone().encode_vec();
                obs.check(enc == raw_bytes, "C46:befp:proto-reencode-unstable", || format!("BEFP: encode(decode(bytes)) != bytes ({} vs {} bytes)", enc.len(), raw_bytes.len()))?;
                rt_proto::<BadEncodingFraudProof, _>(obs, "befp", &x)?;
                // JSON form exists on the fraud_proof::Proof wrapper
                let fp = FraudProofEnum::BadEncoding(x);
                let sj = serde_json::to_string(&fp).map_err(|e| Failure::new("C46:fraudproof:json-roundtrip", format!("to_string failed: {e}")))?;
                obs.eval(Some(digest_bytes(sj.as_bytes()) ^ tag("fraudproof")));
                obs.label("fraudproof-json");
                match serde_json::from_str::<FraudProofEnum>(&sj) {
                    Ok(y) => {
                        obs.check(y == fp, "C46:fraudproof:json-roundtrip", || "fraud proof JSON round trip differs".to_string())?;
                        obs.check(serde_json::to_string(&y).unwrap_or_default() == sj, "C46:fraudproof:json-reencode-unstable", || "fraud proof JSON re-encoding differs".to_string())?;
                    }
                    Err(e) => obs.fail("C46:fraudproof:json-roundtrip", format!("fraud proof JSON does not parse back: {e}"))?,
                }
                match serde_json::to_value(&fp).and_then(serde_json::from_value::<FraudProofEnum>) {
                    Ok(y) => obs.check(y == fp, "C46:fraudproof:json-value-roundtrip", || "fraud proof JSON (Value) round trip differs".to_string())?,
                    Err(e) => obs.fail("C46:fraudproof:json-value-roundtrip", format!("fraud proof JSON (Value) round trip failed: {e}"))?,
                }
            }

            // blobs
            {
                let b = &c.blob;
                let ns = match b.ns_raw {
                    Some(raw) => Namespace::const_v0(raw),
                    None => user_ns(b.ns_key.max(1)),
                };
                let app = AppVersion::from_u64(b.app as u64).unwrap_or(AppVersion::V3);
                // share version 1 (signer) exists from app v3 on
                let signer = if app >= AppVersion::V3 { b.signer.map(AccAddress::from) } else { None };
                let data = lv_common::Prng::new(b.seed).bytes(b.len as usize);
                match Blob::new(ns, data, signer, app) {
                    Err(e) => {
                        obs.eval(None);
                        obs.label(if ns.is_reserved() { "blob-new-rejected-reserved-ns" } else { "blob-new-rejected" });
                        if !ns.is_reserved() && b.len > 0 {
                            obs.note(format!("Blob::new rejected a non-reserved namespace blob of {} bytes: {e}", b.len));
                        }
                    }
                    Ok(mut blob) => {
                        blob.index = b.index;
                        if blob.signer.is_some() {
                            obs.label("blob-with-signer");
                        }
                        if blob.index.is_some() {
                            obs.label("blob-index-some");
                        }
                        if blob.data.is_empty() {
                            obs.label("blob-empty-data");
                        }
                        rt_json(obs, "blob", &blob)?;
                        // wire form
                        let raw = celestia_types::blob::RawBlob::from(blob.clone());
                        let bytes = raw.encode_to_vec();
                        obs.eval(Some(digest_bytes(&bytes) ^ tag("blob")));
                        obs.label("blob-proto");
                        let back = celestia_types::blob::RawBlob::decode(&bytes[..]).map_err(|e| e.to_string()).and_then(|r| Blob::from_raw(r, app).map_err(|e| e.to_string()));
                        match back {
                            Ok(y) => {
                                let mut want = blob.clone();
                                want.index = None; // not part of the wire form
                                obs.check(y == want, "C46:blob:proto-roundtrip", || format!("blob wire round trip differs\n x = {want:?}\n y = {y:?}"))?;
                                let again = celestia_types::blob::RawBlob::from(y).encode_to_vec();
                                obs.check(again == bytes, "C46:blob:proto-reencode-unstable", || "blob re-encoding differs".to_string())?;
                            }
                            Err(e) => obs.fail("C46:blob:proto-roundtrip", format!("blob wire round trip failed: {e}\n x = {blob:?}"))?,
                        }
                    }
                }
            }
            Ok(())
        },
    );
}
