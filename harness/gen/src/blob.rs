//! Blob recipes (plain data) shared by C11 / C12, plus the share-count <-> data-length arithmetic
//! written from the share spec (independent of `Blob::shares_len` / `shares_needed_for_blob`).

use celestia_types::consts::appconsts::AppVersion;
use celestia_types::nmt::Namespace;
use celestia_types::state::AccAddress;
use lv_common::Prng;
use proptest::prelude::*;
use serde::{Deserialize, Serialize};

use crate::refs::{self, CONT_CAP, FIRST_CAP_V0, FIRST_CAP_V1, NS};

/// how the payload bytes are produced from `seed`
#[derive(Clone, Copy, Debug, Serialize, Deserialize, PartialEq, Eq)]
pub enum Fill {
    Random,
    /// all zero bytes (indistinguishable from share padding unless the length is honoured)
    Zeros,
    /// random with the last min(len, 40) bytes zero
    ZeroTail,
    Ones,
}

#[derive(Clone, Debug, Serialize, Deserialize, PartialEq, Eq)]
pub struct BlobSpec {
    /// 10-byte v0 namespace id (mapped into the non-reserved range by `namespace()`)
    pub ns_id: [u8; 10],
    pub len: u32,
    pub signer: Option<[u8; 20]>,
    /// app version 1..=7
    pub app: u8,
    pub fill: Fill,
    pub seed: u64,
}

/// Non-reserved v0 namespace from 10 id bytes: ids <= 0x00..00ff (primary reserved) are lifted to 0x00..01xx.
pub fn user_namespace(id: [u8; 10]) -> Namespace {
    let mut id = id;
    if id[..9].iter().all(|b| *b == 0) {
        id[8] = 1;
    }
    Namespace::const_v0(id)
}

pub fn app_version(v: u8) -> AppVersion {
    AppVersion::from_u64(v.clamp(1, 7) as u64).expect("1..=7 are valid app versions")
}

pub fn payload(seed: u64, len: usize, fill: Fill) -> Vec<u8> {
    match fill {
        Fill::Random => Prng::new(seed).bytes(len),
        Fill::Zeros => vec![0u8; len],
        Fill::Ones => vec![0xffu8; len],
        Fill::ZeroTail => {
            let mut d = Prng::new(seed).bytes(len);
            let z = len.min(40);
            for b in &mut d[len - z..] {
                *b = 0;
            }
            d
        }
    }
}

impl BlobSpec {
    pub fn namespace(&self) -> Namespace {
        user_namespace(self.ns_id)
    }
    pub fn ns_bytes(&self) -> [u8; NS] {
        self.namespace().as_bytes().try_into().unwrap()
    }
    pub fn data(&self) -> Vec<u8> {
        payload(self.seed, self.len as usize, self.fill)
    }
    pub fn app(&self) -> AppVersion {
        app_version(self.app)
    }
    pub fn signer_addr(&self) -> Option<AccAddress> {
        self.signer.map(AccAddress::from)
    }
    pub fn signed(&self) -> bool {
        self.signer.is_some()
    }
    pub fn share_version(&self) -> u8 {
        self.signed() as u8
    }
    /// shares by the independent splitter
    pub fn ref_shares(&self) -> Vec<[u8; refs::SHARE]> {
        refs::ref_split_blob(&self.ns_bytes(), &self.data(), self.share_version(), self.signer.as_ref())
    }
}

pub fn first_cap(signed: bool) -> usize {
    if signed { FIRST_CAP_V1 } else { FIRST_CAP_V0 }
}

/// inclusive range of data lengths that occupy exactly `count` (>= 1) sparse shares
pub fn len_range_for_count(count: usize, signed: bool) -> (usize, usize) {
    assert!(count >= 1);
    let f = first_cap(signed);
    if count == 1 { (1, f) } else { (f + (count - 2) * CONT_CAP + 1, f + (count - 1) * CONT_CAP) }
}

/// true when `len` is within +-2 of a length at which the share count changes
pub fn near_capacity_boundary(len: usize, signed: bool) -> bool {
    let f = first_cap(signed);
    if len + 2 < f {
        return false;
    }
    if len <= f + 2 {
        return true;
    }
    let off = (len - f) % CONT_CAP;
    off <= 2 || off >= CONT_CAP - 2
}

/// every length within +-2 of first_cap + k*CONT_CAP, k = 0..=kmax
pub fn boundary_lens(signed: bool, kmax: usize) -> Vec<usize> {
    let mut v = Vec::new();
    for k in 0..=kmax {
        let b = first_cap(signed) + k * CONT_CAP;
        for d in -2i64..=2 {
            v.push((b as i64 + d) as usize);
        }
    }
    v
}

pub fn ns_id_strategy() -> impl Strategy<Value = [u8; 10]> {
    prop_oneof![
        6 => any::<[u8; 10]>(),
        // small pool so that neighbouring blobs of a list share a namespace now and then
        3 => (1u8..5).prop_map(|k| [0, 0, 0, 0, 0, 0, 0, 0, k, 7]),
        // smallest and largest user namespaces
        1 => Just([0, 0, 0, 0, 0, 0, 0, 0, 1, 0]),
        1 => Just([0xff; 10]),
    ]
}

pub fn fill_strategy() -> impl Strategy<Value = Fill> {
    prop_oneof![5 => Just(Fill::Random), 1 => Just(Fill::Zeros), 2 => Just(Fill::ZeroTail), 1 => Just(Fill::Ones)]
}

/// lengths biased to the share-capacity boundaries; `max_len` bounds the uniform part
pub fn len_strategy(max_len: u32) -> impl Strategy<Value = (u32, bool)> {
    // (len, signed)
    (any::<bool>(), prop_oneof![
        3 => (0usize..10, -2i64..=2).prop_map(|(k, d)| (Some((k, d)), 0u32)),
        2 => (1u32..=1100).prop_map(|l| (None, l)),
        3 => (1u32..=max_len.max(2)).prop_map(|l| (None, l)),
    ])
        .prop_map(|(signed, (b, l))| {
            let len = match b {
                Some((k, d)) => (first_cap(signed) as i64 + (k * CONT_CAP) as i64 + d) as u32,
                None => l,
            };
            (len.max(1), signed)
        })
}

pub fn blob_spec_strategy(max_len: u32) -> impl Strategy<Value = BlobSpec> {
    (ns_id_strategy(), len_strategy(max_len), any::<[u8; 20]>(), 1u8..=7, fill_strategy(), any::<u64>()).prop_map(
        |(ns_id, (len, signed), signer, app, fill, seed)| BlobSpec {
            ns_id,
            len,
            // signers exist from app version 3 on
            signer: signed.then_some(signer),
            app: if signed { 3 + (app - 1) % 5 } else { app },
            fill,
            seed,
        },
    )
}

/// Known-answer checks of the reference implementations in `refs` (values recorded from the Go
/// implementation: celestia-node blobs quoted in lumina's own tests, go-square's
/// `TestMerkleMountainRangeSizes` / `TestSubTreeWidth` tables). Err(text) on the first mismatch.
pub fn refs_selfcheck() -> Result<(), String> {
    use refs::{mmr_sizes, subtree_width};
    let mmr: [(u64, u64, &[u64]); 5] = [
        (11, 4, &[4, 4, 2, 1]),
        (2, 64, &[2]),
        (64, 8, &[8, 8, 8, 8, 8, 8, 8, 8]),
        (19, 8, &[8, 8, 2, 1]),
        (1, 1, &[1]),
    ];
    for (t, m, want) in mmr {
        if mmr_sizes(t, m) != want {
            return Err(format!("mmr_sizes({t},{m}) = {:?}, want {want:?}", mmr_sizes(t, m)));
        }
    }
    let th = 64u64;
    let stw: [(u64, u64); 14] = [
        (0, 1),
        (1, 1),
        (2, 1),
        (th, 1),
        (th + 1, 2),
        (th - 1, 1),
        (th * 2, 2),
        (th * 2 + 1, 4),
        (th * 3 - 1, 4),
        (th * 4, 4),
        (th * 4 + 1, 8),
        (th * 5 - 1, 8),
        (th * 128, 128),
        (th * 128 + 1, 128),
    ];
    for (n, want) in stw {
        if subtree_width(n, th) != want {
            return Err(format!("subtree_width({n},64) = {}, want {want}", subtree_width(n, th)));
        }
    }
    // (namespace b64, data b64, signer b64, commitment b64) recorded from celestia-node
    let b64 = |s: &str| -> Vec<u8> {
        // minimal base64 decoder (standard alphabet, padding)
        let mut out = Vec::new();
        let mut acc = 0u32;
        let mut bits = 0;
        for c in s.bytes() {
            let v = match c {
                b'A'..=b'Z' => c - b'A',
                b'a'..=b'z' => c - b'a' + 26,
                b'0'..=b'9' => c - b'0' + 52,
                b'+' => 62,
                b'/' => 63,
                _ => continue,
            } as u32;
            acc = (acc << 6) | v;
            bits += 6;
            if bits >= 8 {
                bits -= 8;
                out.push((acc >> bits) as u8);
                acc &= (1 << bits) - 1;
            }
        }
        out
    };
    let vectors = [
        (
            "AAAAAAAAAAAAAAAAAAAAAAAAAAAADCBNOWAP3dM=",
            "8fIMqAB+kQo7+LLmHaDya8oH73hxem6lQWX1",
            "",
            "D6YGsPWdxR8ju2OcOspnkgPG2abD30pSHxsFdiPqnVk=",
        ),
        (
            "AAAAAAAAAAAAAAAAAAAAAAAAALwwSWpxCuQb5+A=",
            "lQnnMKE=",
            "Yjc3XldhbdYke5i8aSlggYxCCLE=",
            "dujykaNN+Ey7ET3QNdPG0g2uveriBvZusA3fLSOdMKU=",
        ),
    ];
    for (ns, data, signer, want) in vectors {
        let ns: [u8; NS] = b64(ns).try_into().map_err(|_| "bad ns vector".to_string())?;
        let data = b64(data);
        let signer: Option<[u8; 20]> = if signer.is_empty() { None } else { Some(b64(signer).try_into().map_err(|_| "bad signer vector".to_string())?) };
        let shares = refs::ref_split_blob(&ns, &data, signer.is_some() as u8, signer.as_ref());
        let got = refs::ref_commitment(&ns, &shares, 64);
        if got.to_vec() != b64(want) {
            return Err(format!("reference commitment differs from the recorded Go value {want}"));
        }
    }
    Ok(())
}

#[cfg(test)]
mod tests {
    use super::*;

    #[test]
    fn refs_known_answers() {
        refs_selfcheck().unwrap();
    }

    #[test]
    fn len_ranges_match_ref_share_count() {
        for signed in [false, true] {
            for count in 1..60usize {
                let (lo, hi) = len_range_for_count(count, signed);
                assert_eq!(refs::ref_share_count(lo, signed), count);
                assert_eq!(refs::ref_share_count(hi, signed), count);
                assert_eq!(refs::ref_share_count(hi + 1, signed), count + 1);
                if lo > 1 {
                    assert_eq!(refs::ref_share_count(lo - 1, signed), count - 1);
                }
                assert!(near_capacity_boundary(hi, signed) && near_capacity_boundary(hi + 1, signed));
            }
            assert!(!near_capacity_boundary(100, signed));
            assert!(!near_capacity_boundary(first_cap(signed) + 200, signed));
        }
    }

    #[test]
    fn split_count_matches_formula() {
        for signed in [false, true] {
            for len in 1..3000usize {
                let s = [7u8; 20];
                let n = refs::ref_split_blob(&[1; NS], &vec![1u8; len], signed as u8, signed.then_some(&s)).len();
                assert_eq!(n, refs::ref_share_count(len, signed), "len {len} signed {signed}");
            }
        }
    }
}
