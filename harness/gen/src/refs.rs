//! Reference implementations independent of the code under test (sha2 crate only):
//! RFC-6962 merkle trees, NMT hashing (with the ignore-max-namespace rule), sparse-share blob
//! splitting, ADR-013 share commitments.

use sha2::{Digest, Sha256};

pub const NS: usize = 29;
pub const SHARE: usize = 512;
pub const NMT_NODE: usize = 2 * NS + 32;
pub const PARITY_NS: [u8; NS] = [0xff; NS];

pub fn sha256(parts: &[&[u8]]) -> [u8; 32] {
    let mut h = Sha256::new();
    for p in parts {
        h.update(p);
    }
    h.finalize().into()
}

// ------------------------------------------------------------------ RFC 6962 (tendermint simple merkle)

pub fn split_point(n: usize) -> usize {
    assert!(n > 1);
    let mut k = 1;
    while k * 2 < n {
        k *= 2;
    }
    k
}

pub fn rfc_leaf(leaf: &[u8]) -> [u8; 32] {
    sha256(&[&[0u8], leaf])
}

pub fn rfc_inner(l: &[u8; 32], r: &[u8; 32]) -> [u8; 32] {
    sha256(&[&[1u8], l, r])
}

pub fn rfc_root<T: AsRef<[u8]>>(leaves: &[T]) -> [u8; 32] {
    match leaves.len() {
        0 => sha256(&[]),
        1 => rfc_leaf(leaves[0].as_ref()),
        n => {
            let k = split_point(n);
            rfc_inner(&rfc_root(&leaves[..k]), &rfc_root(&leaves[k..]))
        }
    }
}

/// audit path (aunts), leaf-to-root order, as tendermint's Proof.aunts
pub fn rfc_proof<T: AsRef<[u8]>>(leaves: &[T], index: usize) -> Vec<[u8; 32]> {
    fn go<T: AsRef<[u8]>>(leaves: &[T], index: usize, out: &mut Vec<[u8; 32]>) {
        let n = leaves.len();
        if n <= 1 {
            return;
        }
        let k = split_point(n);
        if index < k {
            go(&leaves[..k], index, out);
            out.push(rfc_root(&leaves[k..]));
        } else {
            go(&leaves[k..], index - k, out);
            out.push(rfc_root(&leaves[..k]));
        }
    }
    let mut out = Vec::new();
    go(leaves, index, &mut out);
    out
}

/// Recompute the root from a leaf hash and aunts for (index,total); None when the shape is wrong.
pub fn rfc_root_from_proof(leaf_hash: [u8; 32], index: u64, total: u64, aunts: &[[u8; 32]]) -> Option<[u8; 32]> {
    if total == 0 || index >= total {
        return None;
    }
    fn go(lh: [u8; 32], index: u64, total: u64, aunts: &[[u8; 32]]) -> Option<[u8; 32]> {
        if total == 1 {
            return if aunts.is_empty() { Some(lh) } else { None };
        }
        let (last, rest) = aunts.split_last()?;
        let mut k = 1u64;
        while k * 2 < total {
            k *= 2;
        }
        if index < k {
            let l = go(lh, index, k, rest)?;
            Some(rfc_inner(&l, last))
        } else {
            let r = go(lh, index - k, total - k, rest)?;
            Some(rfc_inner(last, &r))
        }
    }
    go(leaf_hash, index, total, aunts)
}

// ------------------------------------------------------------------ NMT

#[derive(Clone, Copy, PartialEq, Eq, Debug)]
pub struct NmtNode {
    pub min: [u8; NS],
    pub max: [u8; NS],
    pub hash: [u8; 32],
}

impl NmtNode {
    pub fn to_bytes(&self) -> [u8; NMT_NODE] {
        let mut o = [0u8; NMT_NODE];
        o[..NS].copy_from_slice(&self.min);
        o[NS..2 * NS].copy_from_slice(&self.max);
        o[2 * NS..].copy_from_slice(&self.hash);
        o
    }
}

/// leaf over (namespace, data): hash = sha256(0x00 || ns || data)
pub fn nmt_leaf(ns: &[u8; NS], data: &[u8]) -> NmtNode {
    NmtNode {
        min: *ns,
        max: *ns,
        hash: sha256(&[&[0u8], ns, data]),
    }
}

pub fn nmt_inner(l: &NmtNode, r: &NmtNode) -> NmtNode {
    let min = l.min.min(r.min);
    let max = if l.min == PARITY_NS {
        PARITY_NS
    } else if r.min == PARITY_NS {
        l.max
    } else {
        l.max.max(r.max)
    };
    NmtNode {
        min,
        max,
        hash: sha256(&[&[1u8], &l.to_bytes(), &r.to_bytes()]),
    }
}

pub fn nmt_root(leaves: &[NmtNode]) -> NmtNode {
    match leaves.len() {
        0 => NmtNode {
            min: [0; NS],
            max: [0; NS],
            hash: sha256(&[]),
        },
        1 => leaves[0],
        n => {
            let k = split_point(n);
            nmt_inner(&nmt_root(&leaves[..k]), &nmt_root(&leaves[k..]))
        }
    }
}

/// Root of an EDS axis: shares with their namespaces (`PARITY_NS` for parity shares).
pub fn axis_root(shares: &[(&[u8; NS], &[u8])]) -> NmtNode {
    let leaves: Vec<NmtNode> = shares.iter().map(|(ns, d)| nmt_leaf(ns, d)).collect();
    nmt_root(&leaves)
}

// ------------------------------------------------------------------ sparse shares

pub const FIRST_CAP_V0: usize = SHARE - NS - 1 - 4; // 478
pub const FIRST_CAP_V1: usize = FIRST_CAP_V0 - 20; // 458
pub const CONT_CAP: usize = SHARE - NS - 1; // 482

pub fn ref_share_count(data_len: usize, signer: bool) -> usize {
    let first = if signer { FIRST_CAP_V1 } else { FIRST_CAP_V0 };
    if data_len <= first {
        1
    } else {
        1 + (data_len - first).div_ceil(CONT_CAP)
    }
}

/// Split a blob into sparse shares, written from the share spec.
pub fn ref_split_blob(ns: &[u8; NS], data: &[u8], share_version: u8, signer: Option<&[u8; 20]>) -> Vec<[u8; SHARE]> {
    let mut out = Vec::new();
    let mut cur = [0u8; SHARE];
    cur[..NS].copy_from_slice(ns);
    cur[NS] = (share_version << 1) | 1;
    cur[NS + 1..NS + 5].copy_from_slice(&(data.len() as u32).to_be_bytes());
    let mut pos = NS + 5;
    if let Some(s) = signer {
        cur[pos..pos + 20].copy_from_slice(s);
        pos += 20;
    }
    let mut rest = data;
    loop {
        let room = SHARE - pos;
        let take = room.min(rest.len());
        cur[pos..pos + take].copy_from_slice(&rest[..take]);
        rest = &rest[take..];
        out.push(cur);
        if rest.is_empty() {
            break;
        }
        cur = [0u8; SHARE];
        cur[..NS].copy_from_slice(ns);
        cur[NS] = share_version << 1;
        pos = NS + 1;
    }
    out
}

pub fn padding_share(ns: &[u8; NS]) -> [u8; SHARE] {
    let mut s = [0u8; SHARE];
    s[..NS].copy_from_slice(ns);
    s[NS] = 1; // version 0, sequence start
    s
}

// ------------------------------------------------------------------ ADR-013 commitment

pub fn round_up_pow2(n: u64) -> u64 {
    let mut k = 1;
    while k < n {
        k *= 2;
    }
    k
}

pub fn round_down_pow2(n: u64) -> u64 {
    assert!(n > 0);
    let mut k = 1;
    while k * 2 <= n {
        k *= 2;
    }
    k
}

pub fn isqrt_ceil(n: u64) -> u64 {
    let mut r = (n as f64).sqrt() as u64;
    while r * r < n {
        r += 1;
    }
    while r > 0 && (r - 1) * (r - 1) >= n {
        r -= 1;
    }
    r
}

pub fn blob_min_square_size(share_count: u64) -> u64 {
    round_up_pow2(isqrt_ceil(share_count))
}

pub fn subtree_width(share_count: u64, threshold: u64) -> u64 {
    let mut s = share_count / threshold;
    if share_count % threshold != 0 {
        s += 1;
    }
    s = round_up_pow2(s);
    s.min(blob_min_square_size(share_count))
}

pub fn mmr_sizes(mut total: u64, max_tree: u64) -> Vec<u64> {
    let mut out = Vec::new();
    while total != 0 {
        if total >= max_tree {
            out.push(max_tree);
            total -= max_tree;
        } else {
            let t = round_down_pow2(total);
            out.push(t);
            total -= t;
        }
    }
    out
}

pub fn ref_commitment(ns: &[u8; NS], shares: &[[u8; SHARE]], threshold: u64) -> [u8; 32] {
    let w = subtree_width(shares.len() as u64, threshold);
    let sizes = mmr_sizes(shares.len() as u64, w);
    let mut roots: Vec<[u8; NMT_NODE]> = Vec::new();
    let mut at = 0usize;
    for sz in sizes {
        let leaves: Vec<NmtNode> = shares[at..at + sz as usize].iter().map(|s| nmt_leaf(ns, s)).collect();
        roots.push(nmt_root(&leaves).to_bytes());
        at += sz as usize;
    }
    rfc_root(&roots)
}

#[cfg(test)]
mod tests {
    use super::*;
    #[test]
    fn rfc_proofs_roundtrip() {
        for n in 1..40usize {
            let leaves: Vec<Vec<u8>> = (0..n).map(|i| vec![i as u8; 3]).collect();
            let root = rfc_root(&leaves);
            for i in 0..n {
                let p = rfc_proof(&leaves, i);
                assert_eq!(rfc_root_from_proof(rfc_leaf(&leaves[i]), i as u64, n as u64, &p), Some(root));
            }
        }
    }
}
