//! Reference verifiers / builders for merkle, row and NMT range proofs, on top of `refs` (sha2 only).
//! Used by C13 as the oracle for `MerkleProof`, `RowProof` and `ShareProof`.

use celestia_proto::celestia::core::v1::proof::{Proof as RawMerkleProof, RowProof as RawRowProof};
use celestia_types::ExtendedDataSquare;

use crate::refs::{self, NS, NmtNode, PARITY_NS};

/// Why the reference rejects (root-cause classes used for failure signatures).
#[derive(Clone, Debug, PartialEq, Eq)]
pub enum Reject {
    /// malformed field (negative index, non-positive total, hash of wrong size)
    Malformed,
    IndexGeTotal,
    LeafHashMismatch,
    /// aunts do not fit (index,total) or recomputed root differs
    RootMismatch,
    /// row proof: row_roots.len() != proofs.len()
    ListLengths,
    /// row proof: end_row - start_row + 1 != number of roots (computed without wrapping)
    Span,
    NoRoot,
}

/// RFC-6962 / tendermint inclusion check of `leaf` at (`index`,`total`) under `root`.
pub fn ref_merkle_check(p: &RawMerkleProof, leaf: &[u8], root: &[u8; 32]) -> Result<(), Reject> {
    if p.index < 0 || p.total <= 0 {
        return Err(Reject::Malformed);
    }
    let lh: [u8; 32] = p.leaf_hash.as_slice().try_into().map_err(|_| Reject::Malformed)?;
    let mut aunts = Vec::with_capacity(p.aunts.len());
    for a in &p.aunts {
        let a: [u8; 32] = a.as_slice().try_into().map_err(|_| Reject::Malformed)?;
        aunts.push(a);
    }
    if p.index >= p.total {
        return Err(Reject::IndexGeTotal);
    }
    if refs::rfc_leaf(leaf) != lh {
        return Err(Reject::LeafHashMismatch);
    }
    match refs::rfc_root_from_proof(lh, p.index as u64, p.total as u64, &aunts) {
        Some(r) if &r == root => Ok(()),
        _ => Err(Reject::RootMismatch),
    }
}

/// Reference row-proof check: list lengths, span (in wide arithmetic), every (row root, merkle proof) pair.
pub fn ref_row_proof_check(p: &RawRowProof, root: Option<&[u8; 32]>) -> Result<(), Reject> {
    if p.row_roots.len() != p.proofs.len() {
        return Err(Reject::ListLengths);
    }
    if p.end_row < p.start_row {
        return Err(Reject::Span);
    }
    let span = p.end_row as u64 - p.start_row as u64 + 1;
    if span != p.proofs.len() as u64 {
        return Err(Reject::Span);
    }
    let root = root.ok_or(Reject::NoRoot)?;
    for (r, m) in p.row_roots.iter().zip(&p.proofs) {
        ref_merkle_check(m, r, root)?;
    }
    Ok(())
}

/// NMT leaves (namespace, share bytes) of one axis of an EDS: own namespace in the original quadrant, parity elsewhere.
pub fn axis_leaves(eds: &ExtendedDataSquare, row_axis: bool, index: u16) -> Vec<([u8; NS], Vec<u8>)> {
    let w = eds.square_width();
    let half = w / 2;
    (0..w)
        .map(|i| {
            let (r, c) = if row_axis { (index, i) } else { (i, index) };
            let sh = eds.share(r, c).expect("in range");
            let data: &[u8] = sh.as_ref();
            let ns: [u8; NS] = if r < half && c < half { data[..NS].try_into().unwrap() } else { PARITY_NS };
            (ns, data.to_vec())
        })
        .collect()
}

pub fn axis_nodes(leaves: &[([u8; NS], Vec<u8>)]) -> Vec<NmtNode> {
    leaves.iter().map(|(ns, d)| refs::nmt_leaf(ns, d)).collect()
}

/// Sibling nodes proving leaves [lo, hi) of the tree over `leaves`, in left-to-right (in-order) order, as the
/// NMT specification lays a range proof out.
pub fn ref_nmt_range_proof(leaves: &[NmtNode], lo: usize, hi: usize) -> Vec<NmtNode> {
    fn go(leaves: &[NmtNode], base: usize, lo: usize, hi: usize, out: &mut Vec<NmtNode>) {
        let (a, b) = (base, base + leaves.len());
        if b <= lo || a >= hi {
            out.push(refs::nmt_root(leaves));
            return;
        }
        if (a >= lo && b <= hi) || leaves.len() == 1 {
            return;
        }
        let k = refs::split_point(leaves.len());
        go(&leaves[..k], base, lo, hi, out);
        go(&leaves[k..], base + k, lo, hi, out);
    }
    assert!(lo < hi && hi <= leaves.len());
    let mut out = Vec::new();
    go(leaves, 0, lo, hi, &mut out);
    out
}

#[cfg(test)]
mod tests {
    use super::*;

    #[test]
    fn range_proof_shapes() {
        let leaves: Vec<NmtNode> = (0..8u8).map(|i| refs::nmt_leaf(&[i; NS], &[i; 4])).collect();
        // [1,3) of 4 leaves -> [leaf0, leaf3]
        let p = ref_nmt_range_proof(&leaves[..4], 1, 3);
        assert_eq!(p, vec![leaves[0], leaves[3]]);
        // single leaf 5 of 8 -> [root(0..4), leaf4, root(6..8)]
        let p = ref_nmt_range_proof(&leaves, 5, 6);
        assert_eq!(p, vec![refs::nmt_root(&leaves[..4]), leaves[4], refs::nmt_root(&leaves[6..])]);
        assert!(ref_nmt_range_proof(&leaves, 0, 8).is_empty());
    }
}
