//! Square extras shared by C05–C08: a raw (byte-level) view of an extended square with a
//! brute-force namespace index, post-extension corruption recipes, and Reed-Solomon ground truth
//! computed by driving `leopard_codec` directly (never through `ExtendedDataSquare`).

use celestia_types::consts::appconsts::AppVersion;
use celestia_types::{ExtendedDataSquare, Result as CtResult};
use lv_common::{Prng, pick};
use proptest::prelude::*;
use serde::{Deserialize, Serialize};

use crate::refs::{self, NS, NmtNode, PARITY_NS, SHARE};

/// Row-major bytes of an extended square of width `w`.
#[derive(Clone, Debug, PartialEq)]
pub struct RawSquare {
    pub w: usize,
    pub shares: Vec<Vec<u8>>,
}

impl RawSquare {
    pub fn from_eds(eds: &ExtendedDataSquare) -> Self {
        RawSquare {
            w: eds.square_width() as usize,
            shares: eds.data_square().iter().map(|s| s.to_vec()).collect(),
        }
    }

    pub fn k(&self) -> usize {
        self.w / 2
    }

    pub fn share(&self, r: usize, c: usize) -> &Vec<u8> {
        &self.shares[r * self.w + c]
    }

    pub fn share_mut(&mut self, r: usize, c: usize) -> &mut Vec<u8> {
        let w = self.w;
        &mut self.shares[r * w + c]
    }

    pub fn in_q1(&self, r: usize, c: usize) -> bool {
        r < self.k() && c < self.k()
    }

    /// namespace under which the share at (r,c) is committed: its own prefix in the first quadrant,
    /// the parity namespace elsewhere
    pub fn ns_at(&self, r: usize, c: usize) -> [u8; NS] {
        if self.in_q1(r, c) { self.share(r, c)[..NS].try_into().unwrap() } else { PARITY_NS }
    }

    /// coordinates of slot `i` of the axis (row_axis, idx)
    pub fn coord(row_axis: bool, idx: usize, i: usize) -> (usize, usize) {
        if row_axis { (idx, i) } else { (i, idx) }
    }

    pub fn axis(&self, row_axis: bool, idx: usize) -> Vec<Vec<u8>> {
        (0..self.w)
            .map(|i| {
                let (r, c) = Self::coord(row_axis, idx, i);
                self.share(r, c).clone()
            })
            .collect()
    }

    /// reference NMT root of an axis (harness hashing only)
    pub fn axis_root(&self, row_axis: bool, idx: usize) -> NmtNode {
        let leaves: Vec<NmtNode> = (0..self.w)
            .map(|i| {
                let (r, c) = Self::coord(row_axis, idx, i);
                refs::nmt_leaf(&self.ns_at(r, c), self.share(r, c))
            })
            .collect();
        refs::nmt_root(&leaves)
    }

    /// true iff the parity half of the axis is the Reed-Solomon extension of its data half
    pub fn axis_is_codeword(&self, row_axis: bool, idx: usize) -> bool {
        is_codeword(&self.axis(row_axis, idx))
    }

    /// the square as an `ExtendedDataSquare` WITHOUT any erasure-code check (`new` validates only
    /// shape, share format and namespace order)
    pub fn to_eds(&self, app: AppVersion) -> CtResult<ExtendedDataSquare> {
        ExtendedDataSquare::new(self.shares.clone(), "Leopard".to_string(), app)
    }

    /// Brute-force namespace index: for every row whose (reference) root range covers `ns`, in row
    /// order, the shares committed under `ns` in that row (possibly none).
    pub fn namespace_rows(&self, ns: &[u8; NS]) -> Vec<(u16, Vec<Vec<u8>>)> {
        self.namespace_rows_with(&self.row_roots(), ns)
    }

    /// reference roots of all rows
    pub fn row_roots(&self) -> Vec<NmtNode> {
        (0..self.w).map(|r| self.axis_root(true, r)).collect()
    }

    /// `namespace_rows` with the reference row roots computed once by the caller
    pub fn namespace_rows_with(&self, roots: &[NmtNode], ns: &[u8; NS]) -> Vec<(u16, Vec<Vec<u8>>)> {
        let mut out = Vec::new();
        for (r, root) in roots.iter().enumerate() {
            if &root.min <= ns && ns <= &root.max {
                out.push((r as u16, self.row_namespace_shares(r, ns)));
            }
        }
        out
    }

    /// shares committed under `ns` in row `r` (by scanning every position)
    pub fn row_namespace_shares(&self, r: usize, ns: &[u8; NS]) -> Vec<Vec<u8>> {
        (0..self.w).filter(|&c| &self.ns_at(r, c) == ns).map(|c| self.share(r, c).clone()).collect()
    }
}

/// parity half for a data half, computed with leopard directly
pub fn rs_parity(data: &[Vec<u8>]) -> Vec<Vec<u8>> {
    let k = data.len();
    let size = data.first().map(|s| s.len()).unwrap_or(0);
    let mut all: Vec<Vec<u8>> = data.to_vec();
    all.resize(2 * k, vec![0u8; size]);
    leopard_codec::encode(&mut all, k).expect("harness re-encode");
    all.split_off(k)
}

pub fn is_codeword(axis: &[Vec<u8>]) -> bool {
    let k = axis.len() / 2;
    rs_parity(&axis[..k]) == axis[k..]
}

/// Reconstruct an axis from the positions flagged `present` (others erased) with leopard directly.
pub fn rs_reconstruct(axis: &[Vec<u8>], present: &[bool]) -> Result<Vec<Vec<u8>>, String> {
    let k = axis.len() / 2;
    let mut shards: Vec<Vec<u8>> = axis.iter().zip(present).map(|(s, p)| if *p { s.clone() } else { Vec::new() }).collect();
    leopard_codec::reconstruct(&mut shards, k).map_err(|e| e.to_string())?;
    // reconstruct restores the data half; recompute the parity half from it
    let parity = rs_parity(&shards[..k]);
    shards.truncate(k);
    shards.extend(parity);
    Ok(shards)
}

// ------------------------------------------------------------------ corruption after extension

#[derive(Clone, Debug, Serialize, Deserialize, PartialEq)]
pub enum Corruption {
    /// overwrite the payload of some shares of one axis after extension.
    /// `half`: 0 = data half of the axis, 1 = parity half, 2 = anywhere
    EditAxis { row_axis: bool, index: u16, half: u8, picks: Vec<u16>, seed: u64 },
    /// change one original share and re-extend only its row (`row_axis`) or only its column: that
    /// axis stays a codeword, every crossing axis of the touched positions breaks
    ReencodeOneAxis { row_axis: bool, r: u16, c: u16, seed: u64 },
    /// exchange two shares of the parity half of an axis
    SwapParity { row_axis: bool, index: u16, a: u16, b: u16 },
}

/// first byte of a first-quadrant share that may be edited without touching namespace, info byte
/// or sequence length
pub const Q1_EDIT_FROM: usize = NS + 1 + 4;

fn scramble(share: &mut [u8], q1: bool, rng: &mut Prng) {
    let from = if q1 { Q1_EDIT_FROM } else { 0 };
    let n = 1 + rng.below(24) as usize;
    for _ in 0..n {
        let p = from + rng.below((SHARE - from) as u64) as usize;
        share[p] ^= 1 + rng.below(255) as u8;
    }
}

/// Apply the recipe in place. Edits in the first quadrant keep namespace / info byte / sequence
/// length so that `ExtendedDataSquare::new` still accepts the square.
pub fn corrupt(sq: &mut RawSquare, c: &Corruption) {
    let w = sq.w;
    let k = sq.k();
    match c {
        Corruption::EditAxis { row_axis, index, half, picks, seed } => {
            let idx = pick(*index, w);
            let (lo, hi) = match half % 3 {
                0 => (0, k),
                1 => (k, w),
                _ => (0, w),
            };
            let mut rng = Prng::new(*seed);
            let mut done = Vec::new();
            for p in picks.iter().take(w) {
                let i = lo + pick(*p, hi - lo);
                if done.contains(&i) {
                    continue;
                }
                done.push(i);
                let (r, cc) = RawSquare::coord(*row_axis, idx, i);
                let q1 = sq.in_q1(r, cc);
                scramble(sq.share_mut(r, cc), q1, &mut rng);
            }
        }
        Corruption::ReencodeOneAxis { row_axis, r, c, seed } => {
            let (r, cc) = (pick(*r, k), pick(*c, k));
            let mut rng = Prng::new(*seed);
            scramble(sq.share_mut(r, cc), true, &mut rng);
            let idx = if *row_axis { r } else { cc };
            let axis = sq.axis(*row_axis, idx);
            let parity = rs_parity(&axis[..k]);
            for (j, p) in parity.into_iter().enumerate() {
                let (pr, pc) = RawSquare::coord(*row_axis, idx, k + j);
                *sq.share_mut(pr, pc) = p;
            }
        }
        Corruption::SwapParity { row_axis, index, a, b } => {
            let idx = pick(*index, w);
            let (a, b) = (k + pick(*a, k), k + pick(*b, k));
            let (ra, ca) = RawSquare::coord(*row_axis, idx, a);
            let (rb, cb) = RawSquare::coord(*row_axis, idx, b);
            let (ia, ib) = (ra * w + ca, rb * w + cb);
            sq.shares.swap(ia, ib);
        }
    }
}

pub fn corruption_strategy() -> impl Strategy<Value = Corruption> {
    prop_oneof![
        6 => (any::<bool>(), any::<u16>(), 0u8..3, prop::collection::vec(any::<u16>(), 1..6), any::<u64>())
            .prop_map(|(row_axis, index, half, picks, seed)| Corruption::EditAxis { row_axis, index, half, picks, seed }),
        1 => (any::<bool>(), any::<u16>(), 0u8..3, prop::collection::vec(any::<u16>(), 6..40), any::<u64>())
            .prop_map(|(row_axis, index, half, picks, seed)| Corruption::EditAxis { row_axis, index, half, picks, seed }),
        2 => (any::<bool>(), any::<u16>(), any::<u16>(), any::<u64>())
            .prop_map(|(row_axis, r, c, seed)| Corruption::ReencodeOneAxis { row_axis, r, c, seed }),
        1 => (any::<bool>(), any::<u16>(), any::<u16>(), any::<u16>())
            .prop_map(|(row_axis, index, a, b)| Corruption::SwapParity { row_axis, index, a, b }),
    ]
}

/// Panic signature that does not depend on where the repository is checked out
/// (`lv_common::panic_sig` only strips a literal `/repo/` prefix).
pub fn panic_site(rec: &str) -> String {
    let sig = lv_common::panic_sig(rec);
    match sig.find("/repo/") {
        Some(i) => format!("panic@{}", &sig[i + "/repo/".len()..]),
        None => sig,
    }
}

#[cfg(test)]
mod tests {
    use super::*;
    use crate::square::{build_square, square_strategy};

    #[test]
    fn honest_axes_are_codewords_and_corruptions_are_detected() {
        for seed in 0..20u64 {
            let spec = lv_common::sample_once(&square_strategy(1, 3), seed);
            let sq = build_square(&spec, AppVersion::V3);
            let raw = RawSquare::from_eds(&sq.eds);
            for i in 0..raw.w {
                assert!(raw.axis_is_codeword(true, i) && raw.axis_is_codeword(false, i));
            }
            let c = lv_common::sample_once(&corruption_strategy(), seed);
            let mut bad = raw.clone();
            corrupt(&mut bad, &c);
            if bad != raw {
                let broken = (0..raw.w).any(|i| !bad.axis_is_codeword(true, i) || !bad.axis_is_codeword(false, i));
                assert!(broken, "a changed square must have a non-codeword axis: {c:?}");
                bad.to_eds(AppVersion::V3).expect("corrupted square still passes shape validation");
            }
        }
    }
}
