//! hdrref: independent reference oracles for commit / header-chain verification (C01–C03) and
//! low-level commit builders.
//!
//! Nothing here calls lumina's `verify_commit_light*`, `vote_sign_bytes` or `ExtendedHeader::verify*`:
//! signatures are checked with `ed25519-consensus` directly over the hand-encoded canonical vote of
//! `chain::sign_bytes_of`, tallies are done in `u128`, times are compared as `i128` nanoseconds.

use celestia_types::{ExtendedHeader, ValidatorSet};
use ed25519_consensus::{Signature as EdSignature, SigningKey, VerificationKey};
use serde::{Deserialize, Serialize};
use tendermint::block::{Commit, CommitSig, Id as BlockId};
use tendermint::{PublicKey, Signature, Time, account};

use crate::chain::{canonical_vote_bytes, hash_bytes, sign_bytes_of, time_parts};
use crate::mutate::put_varint;

// ------------------------------------------------------------------ signatures

/// Independent ed25519 check (ZIP-215 rules of ed25519-consensus) of `sig` over `msg` under `pk`.
pub fn ref_sig_ok(pk: &PublicKey, msg: &[u8], sig: &Signature) -> bool {
    if !matches!(pk, PublicKey::Ed25519(_)) {
        return false;
    }
    let Ok(pkb) = <[u8; 32]>::try_from(pk.to_bytes().as_slice()) else { return false };
    let Ok(sb) = <[u8; 64]>::try_from(sig.as_bytes()) else { return false };
    let Ok(vk) = VerificationKey::try_from(pkb) else { return false };
    vk.verify(&EdSignature::from(sb), msg).is_ok()
}

/// Canonical sign-bytes of a *nil* precommit (CanonicalVote without a block id), hand-encoded.
pub fn nil_vote_bytes(chain_id: &str, height: u64, round: u32, ts_secs: i64, ts_nanos: i32) -> Vec<u8> {
    let mut ts = Vec::new();
    if ts_secs != 0 {
        ts.push(0x08);
        put_varint(&mut ts, ts_secs as u64);
    }
    if ts_nanos != 0 {
        ts.push(0x10);
        put_varint(&mut ts, ts_nanos as i64 as u64);
    }
    let mut v = vec![0x08, 0x02];
    if height != 0 {
        v.push(0x11);
        v.extend_from_slice(&(height as i64).to_le_bytes());
    }
    if round != 0 {
        v.push(0x19);
        v.extend_from_slice(&(round as i64).to_le_bytes());
    }
    v.push(0x2a);
    put_varint(&mut v, ts.len() as u64);
    v.extend_from_slice(&ts);
    if !chain_id.is_empty() {
        v.push(0x32);
        put_varint(&mut v, chain_id.len() as u64);
        v.extend_from_slice(chain_id.as_bytes());
    }
    let mut out = Vec::new();
    put_varint(&mut out, v.len() as u64);
    out.extend_from_slice(&v);
    out
}

fn mk_sig(b: [u8; 64]) -> Signature {
    Signature::new(b).unwrap().unwrap()
}

/// Re-sign every Nil-flagged slot of `h` as a genuine nil precommit (no block id in the sign-bytes), which
/// is what an honest validator produces; `chain::resign` signs Nil slots over the block id instead.
pub fn sign_nil_slots_properly(h: &mut ExtendedHeader, keys: &[SigningKey]) {
    let chain_id = h.header.chain_id.to_string();
    let (height, round) = (h.commit.height.value(), h.commit.round.value());
    for (i, s) in h.commit.signatures.iter_mut().enumerate() {
        if let CommitSig::BlockIdFlagNil { timestamp, signature, .. } = s {
            let Some(k) = keys.get(i) else { continue };
            let (ts, tn) = time_parts(*timestamp);
            *signature = Some(mk_sig(k.sign(&nil_vote_bytes(&chain_id, height, round, ts, tn)).to_bytes()));
        }
    }
}

// ------------------------------------------------------------------ commit builder (C03)

#[derive(Clone, Copy, Debug, Serialize, Deserialize, PartialEq, Eq)]
pub enum Slot {
    /// block-commit vote, valid signature
    Commit,
    /// nil vote signed as a real nil precommit (no block id)
    NilProper,
    /// Nil *flag* put on a genuine block-commit vote (signature valid over the block id)
    NilBlockSig,
    Absent,
}

/// Per-validator pre-signed commit entries for one (chain id, height, round, block id); assembling a commit
/// for a signer subset is then free of signing cost.
pub struct Prepared {
    pub chain_id: String,
    pub height: u64,
    pub round: u32,
    pub block_id: BlockId,
    pub commit: Vec<CommitSig>,
    pub nil_proper: Vec<CommitSig>,
    pub nil_block: Vec<CommitSig>,
}

pub fn prepare(
    set: &ValidatorSet,
    keys: &[SigningKey],
    chain_id: &str,
    height: u64,
    round: u32,
    block_id: BlockId,
    base_ts: i64,
) -> Prepared {
    let mut commit = Vec::new();
    let mut nil_proper = Vec::new();
    let mut nil_block = Vec::new();
    for (i, (v, k)) in set.validators().iter().zip(keys).enumerate() {
        let (ts, tn) = (base_ts + (i as i64 % 3), 1000 * (i as i32 + 1));
        let timestamp = Time::from_unix_timestamp(ts, tn as u32).unwrap();
        let cb = canonical_vote_bytes(
            chain_id,
            height,
            round,
            hash_bytes(&block_id.hash),
            block_id.part_set_header.total,
            hash_bytes(&block_id.part_set_header.hash),
            ts,
            tn,
        );
        let csig = mk_sig(k.sign(&cb).to_bytes());
        let nsig = mk_sig(k.sign(&nil_vote_bytes(chain_id, height, round, ts, tn)).to_bytes());
        commit.push(CommitSig::BlockIdFlagCommit {
            validator_address: v.address,
            timestamp,
            signature: Some(csig.clone()),
        });
        nil_proper.push(CommitSig::BlockIdFlagNil {
            validator_address: v.address,
            timestamp,
            signature: Some(nsig),
        });
        nil_block.push(CommitSig::BlockIdFlagNil {
            validator_address: v.address,
            timestamp,
            signature: Some(csig),
        });
    }
    Prepared {
        chain_id: chain_id.to_string(),
        height,
        round,
        block_id,
        commit,
        nil_proper,
        nil_block,
    }
}

impl Prepared {
    pub fn assemble(&self, slots: &[Slot]) -> Commit {
        let signatures = slots
            .iter()
            .enumerate()
            .map(|(i, s)| match s {
                Slot::Commit => self.commit[i].clone(),
                Slot::NilProper => self.nil_proper[i].clone(),
                Slot::NilBlockSig => self.nil_block[i].clone(),
                Slot::Absent => CommitSig::BlockIdFlagAbsent,
            })
            .collect();
        Commit {
            height: self.height.try_into().unwrap(),
            round: (self.round as u16).into(),
            block_id: self.block_id,
            signatures,
        }
    }
}

// ------------------------------------------------------------------ reference tallies

pub fn sum_power(set: &ValidatorSet) -> u128 {
    set.validators().iter().map(|v| v.power() as u128).sum()
}

/// (address, signature) of a Commit-flagged entry that carries a signature.
pub fn commit_entry(s: &CommitSig) -> Option<(&account::Id, &Signature)> {
    match s {
        CommitSig::BlockIdFlagCommit {
            validator_address,
            signature: Some(sig),
            ..
        } => Some((validator_address, sig)),
        _ => None,
    }
}

/// Is entry `i` a Commit-flagged entry whose signature is valid under validator `i` of `set`?
pub fn light_entry_valid(set: &ValidatorSet, chain_id: &str, commit: &Commit, i: usize) -> bool {
    let (Some(v), Some(s)) = (set.validators().get(i), commit.signatures.get(i)) else { return false };
    let Some((_, sig)) = commit_entry(s) else { return false };
    let Some(bytes) = sign_bytes_of(commit, chain_id, i) else { return false };
    ref_sig_ok(&v.pub_key, &bytes, sig)
}

/// Σ power{ i : sig_i Commit-flag ∧ valid under validator i } (index-matched, the light rule).
pub fn ref_light_power(set: &ValidatorSet, chain_id: &str, commit: &Commit) -> u128 {
    (0..set.validators().len().min(commit.signatures.len()))
        .filter(|&i| light_entry_valid(set, chain_id, commit, i))
        .map(|i| set.validators()[i].power() as u128)
        .sum()
}

/// Power of Commit-flagged, index-valid entries strictly before index `i`.
pub fn ref_light_power_before(set: &ValidatorSet, chain_id: &str, commit: &Commit, i: usize) -> u128 {
    (0..i.min(set.validators().len()).min(commit.signatures.len()))
        .filter(|&j| light_entry_valid(set, chain_id, commit, j))
        .map(|j| set.validators()[j].power() as u128)
        .sum()
}

/// Σ power{ distinct trusted v : some Commit-flagged entry carries v's address and a signature valid under v }.
pub fn ref_trusting_power(trusted: &ValidatorSet, chain_id: &str, commit: &Commit) -> u128 {
    let mut total = 0u128;
    for v in trusted.validators() {
        let counted = commit.signatures.iter().enumerate().any(|(i, s)| {
            let Some((addr, sig)) = commit_entry(s) else { return false };
            if *addr != v.address {
                return false;
            }
            let Some(bytes) = sign_bytes_of(commit, chain_id, i) else { return false };
            ref_sig_ok(&v.pub_key, &bytes, sig)
        });
        if counted {
            total += v.power() as u128;
        }
    }
    total
}

/// "Well-formed for the light rule": one entry per validator (entry i carries validator i's address when it is
/// not Absent), every Commit-flagged entry has a signature valid under validator i.
pub fn light_well_formed(set: &ValidatorSet, chain_id: &str, commit: &Commit) -> bool {
    if set.validators().len() != commit.signatures.len() {
        return false;
    }
    commit.signatures.iter().enumerate().all(|(i, s)| match s {
        CommitSig::BlockIdFlagAbsent => true,
        CommitSig::BlockIdFlagNil { validator_address, .. } => *validator_address == set.validators()[i].address,
        CommitSig::BlockIdFlagCommit { validator_address, .. } => {
            *validator_address == set.validators()[i].address && light_entry_valid(set, chain_id, commit, i)
        }
    })
}

/// "Well-formed for the trusting rule": every Commit-flagged entry carries a signature; no two Commit-flagged
/// entries share an address; every Commit-flagged entry whose address belongs to a trusted validator is valid
/// under that validator.
pub fn trusting_well_formed(trusted: &ValidatorSet, chain_id: &str, commit: &Commit) -> bool {
    let mut seen: Vec<account::Id> = Vec::new();
    for (i, s) in commit.signatures.iter().enumerate() {
        match s {
            CommitSig::BlockIdFlagCommit { signature: None, .. } => return false,
            CommitSig::BlockIdFlagCommit {
                validator_address,
                signature: Some(sig),
                ..
            } => {
                if seen.contains(validator_address) {
                    return false;
                }
                seen.push(*validator_address);
                if let Some(v) = trusted.validators().iter().find(|v| v.address == *validator_address) {
                    let Some(bytes) = sign_bytes_of(commit, chain_id, i) else { return false };
                    if !ref_sig_ok(&v.pub_key, &bytes, sig) {
                        return false;
                    }
                }
            }
            _ => {}
        }
    }
    true
}

// ------------------------------------------------------------------ reference header verification (C02)

pub fn nanos_of(t: Time) -> i128 {
    let (s, n) = time_parts(t);
    s as i128 * 1_000_000_000 + n as i128
}

pub const DRIFT_NANOS: i128 = 10 * 1_000_000_000;

/// The individual conditions of the C02 sentence, each decided independently of lumina's `verify`.
#[derive(Clone, Debug)]
pub struct RefConds {
    pub height_gt: bool,
    pub chain_eq: bool,
    pub time_later: bool,
    pub before_drift: bool,
    pub adjacent: bool,
    pub parent_ok: bool,
    pub nextvals_ok: bool,
    /// power of distinct trusted validators with valid Commit signatures in the untrusted commit
    pub trust_power: u128,
    pub trust_total: u128,
}

impl RefConds {
    pub fn trust_ok(&self) -> bool {
        3 * self.trust_power > self.trust_total
    }
    pub fn link_ok(&self) -> bool {
        if self.adjacent { self.parent_ok && self.nextvals_ok } else { self.trust_ok() }
    }
    pub fn ok(&self) -> bool {
        self.height_gt && self.chain_eq && self.time_later && self.before_drift && self.link_ok()
    }
    /// names of the failing conditions (only those that apply to the pair)
    pub fn failing(&self) -> Vec<&'static str> {
        let mut f = Vec::new();
        if !self.height_gt {
            f.push("height");
        }
        if !self.chain_eq {
            f.push("chain-id");
        }
        if !self.time_later {
            f.push("time-not-later");
        }
        if !self.before_drift {
            f.push("clock");
        }
        if self.adjacent {
            if !self.parent_ok {
                f.push("parent");
            }
            if !self.nextvals_ok {
                f.push("next-validators");
            }
        } else if !self.trust_ok() {
            f.push("trust");
        }
        f
    }
}

/// Reference for `trusted.verify(untrusted)` at local time `now`.
pub fn ref_conds(trusted: &ExtendedHeader, untrusted: &ExtendedHeader, now: Time) -> RefConds {
    let th = trusted.header.height.value() as u128;
    let uh = untrusted.header.height.value() as u128;
    let adjacent = th + 1 == uh;
    let chain_eq = trusted.header.chain_id.as_str() == untrusted.header.chain_id.as_str();
    let tt = nanos_of(trusted.header.time);
    let ut = nanos_of(untrusted.header.time);
    let parent = untrusted.header.last_block_id.map(|b| hash_bytes(&b.hash).to_vec()).unwrap_or_default();
    let trusted_hash = trusted.header.hash();
    let (trust_power, trust_total) = if adjacent {
        (0, 0)
    } else {
        (
            ref_trusting_power(&trusted.validator_set, trusted.header.chain_id.as_str(), &untrusted.commit),
            sum_power(&trusted.validator_set),
        )
    };
    RefConds {
        height_gt: uh > th,
        chain_eq,
        time_later: ut > tt,
        before_drift: ut < nanos_of(now) + DRIFT_NANOS,
        adjacent,
        parent_ok: parent.as_slice() == hash_bytes(&trusted_hash),
        nextvals_ok: hash_bytes(&untrusted.header.validators_hash) == hash_bytes(&trusted.header.next_validators_hash),
        trust_power,
        trust_total,
    }
}

/// Reference for `trusted.verify_range(xs)` / `verify_adjacent_range` at local time `now`.
pub fn ref_range_ok(trusted: &ExtendedHeader, xs: &[ExtendedHeader], now: Time, first_adjacent: bool) -> bool {
    let mut prev = trusted;
    for (k, x) in xs.iter().enumerate() {
        let consecutive = prev.header.height.value() as u128 + 1 == x.header.height.value() as u128;
        if (k > 0 || first_adjacent) && !consecutive {
            return false;
        }
        if !ref_conds(prev, x, now).ok() {
            return false;
        }
        prev = x;
    }
    true
}
