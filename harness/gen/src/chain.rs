//! ChainGen: deterministic multi-validator header chains built from a plain-data `ChainSpec`.
//!
//! Everything (keys, hashes, powers, votes, rotations, times) is a pure function of the spec; the
//! only exception is `TimeBase::AgoSecs`, which places the chain relative to the wall clock for the
//! window-sensitive node simulations.

use std::collections::HashMap;

use celestia_types::consts::appconsts::AppVersion;
use celestia_types::hash::Hash;
use celestia_types::{DataAvailabilityHeader, ExtendedDataSquare, ExtendedHeader, ValidatorSet};
use ed25519_consensus::SigningKey;
use lv_common::Prng;
use proptest::prelude::*;
use serde::{Deserialize, Serialize};
use tendermint::block::header::{Header, Version};
use tendermint::block::{Commit, CommitSig, parts};
use tendermint::public_key::PublicKey;
use tendermint::{Signature, Time, account, validator};

use crate::refs::sha256;
use crate::square::{SquareSpec, build_square};

pub const BLOCK_PROTOCOL: u64 = 11;

#[derive(Clone, Debug, Serialize, Deserialize, PartialEq)]
pub enum TimeBase {
    /// unix seconds of the first header (always far in the past)
    Fixed(u64),
    /// first header is `now - secs`
    AgoSecs(u64),
}

#[derive(Clone, Copy, Debug, Serialize, Deserialize, PartialEq, Eq)]
pub enum VoteKind {
    Commit,
    Nil,
    Absent,
}

#[derive(Clone, Debug, Serialize, Deserialize, PartialEq)]
pub enum DahKind {
    Empty,
    Square(SquareSpec),
}

#[derive(Clone, Debug, Serialize, Deserialize, PartialEq)]
pub struct BlockSpec {
    /// milliseconds after the previous header (>= 1)
    pub dt_ms: u32,
    /// requested vote kinds in validator-set order (missing entries = Commit); the builder flips
    /// non-Commit votes to Commit (in set order) until Commit power > 2/3
    pub votes: Vec<VoteKind>,
    pub dah: DahKind,
    /// validator set of the *next* height: None = unchanged
    pub next_set: Option<Vec<(u8, u64)>>,
}

#[derive(Clone, Debug, Serialize, Deserialize, PartialEq)]
pub struct ChainSpec {
    pub seed: u64,
    pub chain_id: String,
    pub start_height: u64,
    pub app_version: u8,
    pub time_base: TimeBase,
    /// initial validator set: (key index, power)
    pub set0: Vec<(u8, u64)>,
    pub blocks: Vec<BlockSpec>,
}

#[derive(Clone)]
pub struct Chain {
    pub spec: ChainSpec,
    pub headers: Vec<ExtendedHeader>,
    /// validator set of each header (same order as `header.validator_set.validators()`)
    pub keys: Vec<Vec<SigningKey>>,
    /// EDS of each header (None for the empty block)
    pub squares: Vec<Option<ExtendedDataSquare>>,
}

pub fn key_for(seed: u64, idx: u8) -> SigningKey {
    let s = sha256(&[b"lv-key", &seed.to_le_bytes(), &[idx]]);
    SigningKey::from(s)
}

pub fn pubkey_of(k: &SigningKey) -> PublicKey {
    PublicKey::from_raw_ed25519(&k.verification_key().to_bytes()).unwrap()
}

pub fn address_of(k: &SigningKey) -> account::Id {
    account::Id::from(pubkey_of(k))
}

pub fn val_info(k: &SigningKey, power: u64) -> validator::Info {
    let pk = pubkey_of(k);
    validator::Info {
        address: account::Id::from(pk),
        pub_key: pk,
        power: power.try_into().expect("power in range"),
        name: None,
        proposer_priority: 0_i64.into(),
    }
}

/// Build a validator set (tendermint ordering) and the signing keys aligned with its order.
pub fn build_set(seed: u64, members: &[(u8, u64)]) -> (ValidatorSet, Vec<SigningKey>) {
    // de-duplicate key indices (first wins), clamp powers to >= 1
    let mut seen = Vec::new();
    let mut infos = Vec::new();
    let mut by_addr: HashMap<account::Id, SigningKey> = HashMap::new();
    for (idx, power) in members {
        if seen.contains(idx) {
            continue;
        }
        seen.push(*idx);
        let k = key_for(seed, *idx);
        let info = val_info(&k, (*power).clamp(1, 1 << 55));
        by_addr.insert(info.address, k);
        infos.push(info);
    }
    assert!(!infos.is_empty());
    let proposer = Some(infos[0].clone());
    let set = ValidatorSet::new(infos, proposer);
    let keys = set.validators().iter().map(|v| by_addr[&v.address].clone()).collect();
    (set, keys)
}

fn put_varint(out: &mut Vec<u8>, mut v: u64) {
    loop {
        let b = (v & 0x7f) as u8;
        v >>= 7;
        if v == 0 {
            out.push(b);
            break;
        }
        out.push(b | 0x80);
    }
}

fn put_bytes_field(out: &mut Vec<u8>, tag: u8, b: &[u8]) {
    out.push(tag);
    put_varint(out, b.len() as u64);
    out.extend_from_slice(b);
}

/// Canonical precommit sign-bytes, hand-encoded from the CometBFT `CanonicalVote` protobuf
/// (independent of lumina's `vote_sign_bytes`).
pub fn canonical_vote_bytes(
    chain_id: &str,
    height: u64,
    round: u32,
    block_hash: &[u8],
    parts_total: u32,
    parts_hash: &[u8],
    ts_secs: i64,
    ts_nanos: i32,
) -> Vec<u8> {
    let mut psh = Vec::new();
    if parts_total != 0 {
        psh.push(0x08);
        put_varint(&mut psh, parts_total as u64);
    }
    if !parts_hash.is_empty() {
        put_bytes_field(&mut psh, 0x12, parts_hash);
    }
    let mut bid = Vec::new();
    if !block_hash.is_empty() {
        put_bytes_field(&mut bid, 0x0a, block_hash);
    }
    put_bytes_field(&mut bid, 0x12, &psh);
    let mut ts = Vec::new();
    if ts_secs != 0 {
        ts.push(0x08);
        put_varint(&mut ts, ts_secs as u64);
    }
    if ts_nanos != 0 {
        ts.push(0x10);
        put_varint(&mut ts, ts_nanos as i64 as u64);
    }
    let mut v = Vec::new();
    v.extend_from_slice(&[0x08, 0x02]);
    if height != 0 {
        v.push(0x11);
        v.extend_from_slice(&(height as i64).to_le_bytes());
    }
    if round != 0 {
        v.push(0x19);
        v.extend_from_slice(&(round as i64).to_le_bytes());
    }
    put_bytes_field(&mut v, 0x22, &bid);
    put_bytes_field(&mut v, 0x2a, &ts);
    if !chain_id.is_empty() {
        put_bytes_field(&mut v, 0x32, chain_id.as_bytes());
    }
    let mut out = Vec::new();
    put_varint(&mut out, v.len() as u64);
    out.extend_from_slice(&v);
    out
}

pub fn time_parts(t: Time) -> (i64, i32) {
    let ts: tendermint_proto::google::protobuf::Timestamp = t.into();
    (ts.seconds, ts.nanos)
}

/// Independent sign-bytes of signature slot `i` of `commit` (None for Absent).
pub fn sign_bytes_of(commit: &Commit, chain_id: &str, i: usize) -> Option<Vec<u8>> {
    let ts = match commit.signatures.get(i)? {
        CommitSig::BlockIdFlagCommit { timestamp, .. } | CommitSig::BlockIdFlagNil { timestamp, .. } => *timestamp,
        CommitSig::BlockIdFlagAbsent => return None,
    };
    let (s, n) = time_parts(ts);
    Some(canonical_vote_bytes(
        chain_id,
        commit.height.value(),
        commit.round.value(),
        hash_bytes(&commit.block_id.hash),
        commit.block_id.part_set_header.total,
        hash_bytes(&commit.block_id.part_set_header.hash),
        s,
        n,
    ))
}

pub fn hash_bytes(h: &Hash) -> &[u8] {
    match h {
        Hash::Sha256(b) => b,
        Hash::None => &[],
    }
}

/// (Re-)compute all derived hashes of `h` and sign every Commit/Nil slot with `keys[i]`.
/// `keys` is aligned with `h.validator_set.validators()`.
pub fn seal(h: &mut ExtendedHeader, keys: &[SigningKey]) {
    h.header.validators_hash = h.validator_set.hash();
    h.header.data_hash = Some(h.dah.hash());
    h.commit.block_id.hash = h.header.hash();
    resign(h, keys);
}

/// Sign every Commit/Nil slot (does not touch hashes).
pub fn resign(h: &mut ExtendedHeader, keys: &[SigningKey]) {
    let chain_id = h.header.chain_id.to_string();
    for i in 0..h.commit.signatures.len() {
        let Some(bytes) = sign_bytes_of(&h.commit, &chain_id, i) else { continue };
        let Some(k) = keys.get(i) else { continue };
        let sig = k.sign(&bytes).to_bytes();
        match &mut h.commit.signatures[i] {
            CommitSig::BlockIdFlagCommit { signature, .. } | CommitSig::BlockIdFlagNil { signature, .. } => {
                *signature = Some(Signature::new(sig).unwrap().unwrap());
            }
            CommitSig::BlockIdFlagAbsent => {}
        }
    }
}

pub fn sign_slot(h: &mut ExtendedHeader, i: usize, key: &SigningKey) {
    let chain_id = h.header.chain_id.to_string();
    let Some(bytes) = sign_bytes_of(&h.commit, &chain_id, i) else { return };
    let sig = key.sign(&bytes).to_bytes();
    if let CommitSig::BlockIdFlagCommit { signature, .. } | CommitSig::BlockIdFlagNil { signature, .. } =
        &mut h.commit.signatures[i]
    {
        *signature = Some(Signature::new(sig).unwrap().unwrap());
    }
}

fn sha_hash(parts: &[&[u8]]) -> Hash {
    Hash::Sha256(sha256(parts))
}

pub fn app_version_of(v: u8) -> AppVersion {
    AppVersion::from_u64(v as u64).unwrap_or(AppVersion::V3)
}

/// Fix requested votes so that Commit power is strictly above 2/3 of the total.
pub fn effective_votes(set: &ValidatorSet, requested: &[VoteKind]) -> Vec<VoteKind> {
    let n = set.validators().len();
    let mut votes: Vec<VoteKind> = (0..n).map(|i| requested.get(i).copied().unwrap_or(VoteKind::Commit)).collect();
    let total: u128 = set.validators().iter().map(|v| v.power() as u128).sum();
    let power = |votes: &[VoteKind]| -> u128 {
        set.validators()
            .iter()
            .zip(votes)
            .filter(|(_, k)| **k == VoteKind::Commit)
            .map(|(v, _)| v.power() as u128)
            .sum()
    };
    let mut i = 0;
    while 3 * power(&votes) <= 2 * total {
        if votes[i] != VoteKind::Commit {
            votes[i] = VoteKind::Commit;
        }
        i += 1;
    }
    votes
}

pub fn base_time(tb: &TimeBase) -> Time {
    match tb {
        TimeBase::Fixed(s) => Time::from_unix_timestamp(*s as i64, 0).unwrap(),
        TimeBase::AgoSecs(s) => {
            let now = Time::now();
            (now - std::time::Duration::from_secs(*s)).unwrap()
        }
    }
}

/// Build one header (not yet linked to a parent when `parent` is None).
#[allow(clippy::too_many_arguments)]
pub fn build_header(
    seed: u64,
    chain_id: &str,
    height: u64,
    app_version: u8,
    time: Time,
    parent: Option<&ExtendedHeader>,
    set: &ValidatorSet,
    keys: &[SigningKey],
    next_set_hash: Hash,
    votes: &[VoteKind],
    dah: DataAvailabilityHeader,
    salt: u64,
) -> ExtendedHeader {
    let hb = height.to_le_bytes();
    let sb = seed.to_le_bytes();
    let xb = salt.to_le_bytes();
    let last_block_id = match parent {
        Some(p) if p.height() + 1 == height => Some(p.commit.block_id),
        _ if height == 1 => None,
        _ => Some(tendermint::block::Id {
            hash: sha_hash(&[b"lbi", &sb, &hb, &xb]),
            part_set_header: parts::Header::new(1, sha_hash(&[b"lbp", &sb, &hb, &xb])).unwrap(),
        }),
    };
    let votes = effective_votes(set, votes);
    let (ts, tn) = time_parts(time);
    let signatures = set
        .validators()
        .iter()
        .zip(&votes)
        .enumerate()
        .map(|(i, (v, k))| {
            // distinct per-validator vote timestamps, within a second of block time
            let vt = Time::from_unix_timestamp(ts, ((tn as u32 / 1000) * 1000 + (i as u32 % 997)) % 1_000_000_000).unwrap();
            match k {
                VoteKind::Commit => CommitSig::BlockIdFlagCommit {
                    validator_address: v.address,
                    timestamp: vt,
                    signature: None,
                },
                VoteKind::Nil => CommitSig::BlockIdFlagNil {
                    validator_address: v.address,
                    timestamp: vt,
                    signature: None,
                },
                VoteKind::Absent => CommitSig::BlockIdFlagAbsent,
            }
        })
        .collect();
    let mut h = ExtendedHeader {
        header: Header {
            version: Version {
                block: BLOCK_PROTOCOL,
                app: app_version as u64,
            },
            chain_id: chain_id.try_into().expect("valid chain id"),
            height: height.try_into().unwrap(),
            time,
            last_block_id,
            last_commit_hash: Some(sha_hash(&[b"lch", &sb, &hb, &xb])),
            data_hash: Some(Hash::None),
            validators_hash: Hash::None,
            next_validators_hash: next_set_hash,
            consensus_hash: sha_hash(&[b"cons", &sb, &hb, &xb]),
            app_hash: sha256(&[b"app", &sb, &hb, &xb]).to_vec().try_into().unwrap(),
            last_results_hash: Some(sha_hash(&[b"lrh", &sb, &hb, &xb])),
            evidence_hash: Some(sha_hash(&[b"evh", &sb, &hb, &xb])),
            proposer_address: set.validators()[0].address,
        },
        commit: Commit {
            height: height.try_into().unwrap(),
            round: ((salt % 3) as u16).into(),
            block_id: tendermint::block::Id {
                hash: Hash::None,
                part_set_header: parts::Header::new(1, sha_hash(&[b"psh", &sb, &hb, &xb])).unwrap(),
            },
            signatures,
        },
        validator_set: set.clone(),
        dah,
    };
    seal(&mut h, keys);
    h
}

pub fn empty_dah() -> DataAvailabilityHeader {
    DataAvailabilityHeader::from_eds(&ExtendedDataSquare::empty())
}

pub fn build_chain(spec: &ChainSpec) -> Chain {
    let mut headers: Vec<ExtendedHeader> = Vec::with_capacity(spec.blocks.len());
    let mut keys_out = Vec::new();
    let mut squares = Vec::new();
    let mut time = base_time(&spec.time_base);
    // validator set per block
    let mut sets: Vec<(ValidatorSet, Vec<SigningKey>)> = Vec::new();
    let mut cur = build_set(spec.seed, &spec.set0);
    for b in &spec.blocks {
        sets.push(cur.clone());
        if let Some(ns) = &b.next_set {
            if !ns.is_empty() {
                cur = build_set(spec.seed, ns);
            }
        }
    }
    sets.push(cur);
    for (i, b) in spec.blocks.iter().enumerate() {
        let height = spec.start_height + i as u64;
        if i > 0 {
            time = (time + std::time::Duration::from_millis(b.dt_ms.max(1) as u64)).unwrap();
        }
        let (set, keys) = &sets[i];
        let next_hash = sets[i + 1].0.hash();
        let (dah, sq) = match &b.dah {
            DahKind::Empty => (empty_dah(), None),
            DahKind::Square(s) => {
                let sq = build_square(s, app_version_of(spec.app_version));
                (DataAvailabilityHeader::from_eds(&sq.eds), Some(sq.eds))
            }
        };
        let h = build_header(
            spec.seed,
            &spec.chain_id,
            height,
            spec.app_version,
            time,
            headers.last(),
            set,
            keys,
            next_hash,
            &b.votes,
            dah,
            0,
        );
        headers.push(h);
        keys_out.push(keys.clone());
        squares.push(sq);
    }
    Chain {
        spec: spec.clone(),
        headers,
        keys: keys_out,
        squares,
    }
}

/// A fork: headers for heights `from_idx..` of `chain` re-built with different content
/// (`salt != 0`), linked to `chain.headers[from_idx-1]`. `foreign_keys` replaces the validator
/// set by one the chain never announced.
pub fn build_fork(chain: &Chain, from_idx: usize, len: usize, salt: u64, foreign_keys: bool) -> Vec<ExtendedHeader> {
    let spec = &chain.spec;
    let mut out: Vec<ExtendedHeader> = Vec::new();
    let fseed = spec.seed ^ 0xf02c ^ salt;
    for j in 0..len {
        let i = from_idx + j;
        if i >= chain.headers.len() {
            break;
        }
        let orig = &chain.headers[i];
        let (set, keys) = if foreign_keys {
            build_set(fseed, &[(200, 10), (201, 7)])
        } else {
            (orig.validator_set.clone(), chain.keys[i].clone())
        };
        let next_hash = if foreign_keys { set.hash() } else { orig.header.next_validators_hash };
        let parent = if j == 0 {
            if i == 0 { None } else { Some(&chain.headers[i - 1]) }
        } else {
            out.last()
        };
        let h = build_header(
            spec.seed,
            &spec.chain_id,
            orig.height(),
            spec.app_version,
            orig.time(),
            parent,
            &set,
            &keys,
            next_hash,
            &[],
            orig.dah.clone(),
            salt.max(1),
        );
        out.push(h);
    }
    out
}

// ------------------------------------------------------------------ strategies

pub fn power_strategy() -> impl Strategy<Value = u64> {
    prop_oneof![
        3 => 1u64..=10,
        2 => Just(1u64),
        2 => 1u64..=1000,
        1 => 1u64..=(1u64 << 40),
    ]
}

pub fn set_strategy(max: usize) -> impl Strategy<Value = Vec<(u8, u64)>> {
    prop::collection::vec((0u8..24, power_strategy()), 1..=max)
}

pub fn vote_strategy() -> impl Strategy<Value = VoteKind> {
    prop_oneof![5 => Just(VoteKind::Commit), 1 => Just(VoteKind::Nil), 1 => Just(VoteKind::Absent)]
}

pub fn block_strategy(max_vals: usize, squares: bool, rotate: bool) -> impl Strategy<Value = BlockSpec> {
    let dah = if squares {
        prop_oneof![
            2 => Just(DahKind::Empty),
            3 => crate::square::square_strategy(0, 3).prop_map(DahKind::Square),
        ]
        .boxed()
    } else {
        Just(DahKind::Empty).boxed()
    };
    let next = if rotate {
        prop_oneof![3 => Just(None), 1 => set_strategy(max_vals).prop_map(Some)].boxed()
    } else {
        Just(None).boxed()
    };
    (1u32..600_000, prop::collection::vec(vote_strategy(), 0..=max_vals), dah, next).prop_map(|(dt_ms, votes, dah, next_set)| BlockSpec {
        dt_ms,
        votes,
        dah,
        next_set,
    })
}

pub fn chain_id_strategy() -> impl Strategy<Value = String> {
    prop_oneof![Just("private".to_string()), Just("celestia".to_string()), "[a-z]{1,8}-[0-9]{1,3}"]
}

/// General chain strategy with fixed (past) times.
pub fn chain_strategy(
    len: std::ops::RangeInclusive<usize>,
    max_vals: usize,
    squares: bool,
    rotate: bool,
) -> impl Strategy<Value = ChainSpec> {
    (
        any::<u64>(),
        chain_id_strategy(),
        prop_oneof![3 => Just(1u64), 2 => 2u64..1000, 1 => (1u64 << 32)..(1u64 << 40)],
        1u8..=7,
        set_strategy(max_vals),
        prop::collection::vec(block_strategy(max_vals, squares, rotate), len),
    )
        .prop_map(|(seed, chain_id, start_height, app_version, set0, blocks)| ChainSpec {
            seed,
            chain_id,
            start_height,
            app_version,
            time_base: TimeBase::Fixed(1_600_000_000 + (seed % 100_000_000)),
            set0,
            blocks,
        })
}

/// Cheap single-validator chain (for node-level sims where header content is irrelevant).
pub fn simple_chain_spec(seed: u64, start_height: u64, len: usize, time_base: TimeBase, dt_ms: u32) -> ChainSpec {
    ChainSpec {
        seed,
        chain_id: "private".into(),
        start_height,
        app_version: 3,
        time_base,
        set0: vec![(0, 5000)],
        blocks: (0..len)
            .map(|_| BlockSpec {
                dt_ms,
                votes: vec![],
                dah: DahKind::Empty,
                next_set: None,
            })
            .collect(),
    }
}

/// payload helper
pub fn prng_for(seed: u64, tag: u64) -> Prng {
    Prng::new(seed ^ tag.wrapping_mul(0x9E3779B97F4A7C15))
}
