//! Header-ex helpers shared by C28/C29/C30: header bodies, *invalid by construction* header variants,
//! header-ex request/response plain-data specs and a path-independent panic signature.
//!
//! Every invalid variant is invalid for a reason that does not depend on `ExtendedHeader::validate`
//! being right about subtle things:
//!   * `AllSigs`      every commit signature has one bit flipped  => zero verified voting power
//!   * `DahNone`      the `dah` field is removed from the protobuf => not even decodable
//!   * `DahCleared`   the DAH has no row/column roots              => hash differs from `data_hash`
//!   * `DahForeign`   the DAH of another square                    => hash differs from `data_hash`
//!   * `HeaderField`  `app_hash` changed without re-sealing        => commit.block_id.hash != header hash
//!   * `ValsetForeign` validator set never announced               => validators_hash mismatch
//!   * `HeightForged` height rewritten (hashes recomputed, old signatures kept) => signatures are over other bytes

use celestia_proto::header::pb::ExtendedHeader as RawExtendedHeader;
use celestia_proto::p2p::pb::header_request::Data;
use celestia_proto::p2p::pb::{HeaderRequest, HeaderResponse};
use celestia_types::{DataAvailabilityHeader, ExtendedDataSquare, ExtendedHeader};
use prost::Message;
use proptest::prelude::*;
use serde::{Deserialize, Serialize};
use tendermint::Signature;
use tendermint::block::CommitSig;
use tendermint_proto::Protobuf;

use crate::chain::{build_set, empty_dah};

pub const STATUS_INVALID: i32 = 0;
pub const STATUS_OK: i32 = 1;
pub const STATUS_NOT_FOUND: i32 = 2;

/// wire body of a header (the encoder of celestia-types; the harness has no second encoder for
/// tendermint headers — trusted base)
pub fn encode_header(h: &ExtendedHeader) -> Vec<u8> {
    h.clone().encode_vec()
}

pub fn raw_of(h: &ExtendedHeader) -> RawExtendedHeader {
    RawExtendedHeader::from(h.clone())
}

pub fn raw_decode(body: &[u8]) -> Option<RawExtendedHeader> {
    RawExtendedHeader::decode(body).ok()
}

#[derive(Clone, Copy, Debug, Serialize, Deserialize, PartialEq, Eq)]
pub enum Damage {
    AllSigs,
    DahNone,
    DahCleared,
    DahForeign,
    HeaderField,
    ValsetForeign,
    /// height := height + delta (delta != 0), hashes recomputed, signatures kept
    HeightForged(i8),
}

impl Damage {
    pub fn label(&self) -> &'static str {
        match self {
            Damage::AllSigs => "invalid-all-signatures-broken",
            Damage::DahNone => "invalid-dah-missing",
            Damage::DahCleared => "invalid-dah-cleared",
            Damage::DahForeign => "invalid-dah-foreign",
            Damage::HeaderField => "invalid-header-field-tampered",
            Damage::ValsetForeign => "invalid-validator-set-foreign",
            Damage::HeightForged(_) => "invalid-height-forged",
        }
    }
}

pub fn damage_strategy() -> impl Strategy<Value = Damage> {
    prop_oneof![
        3 => Just(Damage::AllSigs),
        1 => Just(Damage::DahNone),
        2 => Just(Damage::DahCleared),
        1 => Just(Damage::DahForeign),
        1 => Just(Damage::HeaderField),
        1 => Just(Damage::ValsetForeign),
        2 => prop_oneof![Just(1i8), Just(-1i8), -5i8..=5].prop_map(|d| Damage::HeightForged(if d == 0 { 1 } else { d })),
    ]
}

fn nonempty_dah() -> DataAvailabilityHeader {
    use celestia_types::consts::appconsts::AppVersion;
    let spec = crate::square::SquareSpec {
        seed: 0x0dab,
        ods_log2: 1,
        kind: crate::square::SquareKind::Dummy,
    };
    let sq = crate::square::build_square(&spec, AppVersion::V3);
    DataAvailabilityHeader::from_eds(&sq.eds)
}

/// The wire body of `h` damaged so that it is certainly not a valid header (see module doc).
pub fn damaged_body(h: &ExtendedHeader, d: Damage) -> Vec<u8> {
    let mut x = h.clone();
    match d {
        Damage::AllSigs => {
            for s in x.commit.signatures.iter_mut() {
                if let CommitSig::BlockIdFlagCommit { signature, .. } | CommitSig::BlockIdFlagNil { signature, .. } = s {
                    if let Some(sig) = signature {
                        let mut b = sig.as_bytes().to_vec();
                        b[7] ^= 0x10;
                        *signature = Some(Signature::new(b).unwrap().unwrap());
                    }
                }
            }
        }
        Damage::DahNone => {
            let mut raw = raw_of(&x);
            raw.dah = None;
            return raw.encode_to_vec();
        }
        Damage::DahCleared => {
            let mut raw = raw_of(&x);
            if let Some(d) = raw.dah.as_mut() {
                d.row_roots.clear();
                d.column_roots.clear();
            }
            return raw.encode_to_vec();
        }
        Damage::DahForeign => {
            let e = DataAvailabilityHeader::from_eds(&ExtendedDataSquare::empty());
            x.dah = if x.dah == e { nonempty_dah() } else { empty_dah() };
        }
        Damage::HeaderField => {
            let mut a = x.header.app_hash.as_bytes().to_vec();
            if a.is_empty() {
                a.push(1);
            } else {
                a[0] ^= 1;
            }
            x.header.app_hash = a.try_into().unwrap();
        }
        Damage::ValsetForeign => {
            let (set, _) = build_set(0xf00d, &[(250, 3), (251, 2)]);
            x.validator_set = set;
        }
        Damage::HeightForged(delta) => {
            let cur = x.header.height.value() as i128;
            let mut nh = cur + delta as i128;
            if nh < 1 || nh > i64::MAX as i128 {
                nh = cur - delta as i128;
            }
            let nh = (nh.clamp(1, i64::MAX as i128)) as u64;
            x.header.height = nh.try_into().unwrap();
            x.commit.height = nh.try_into().unwrap();
            x.commit.block_id.hash = x.header.hash();
        }
    }
    encode_header(&x)
}

// ------------------------------------------------------------------ request specs (plain data)

#[derive(Clone, Debug, Serialize, Deserialize, PartialEq, Eq)]
pub enum ReqData {
    None,
    Origin(u64),
    Hash(Vec<u8>),
}

pub fn make_request(data: &ReqData, amount: u64) -> HeaderRequest {
    HeaderRequest {
        amount,
        data: match data {
            ReqData::None => None,
            ReqData::Origin(o) => Some(Data::Origin(*o)),
            ReqData::Hash(h) => Some(Data::Hash(h.clone())),
        },
    }
}

/// The request-validity rule as the property sentences spell it (C29 "invalid request"; the same rule is
/// the caller precondition of the client, C28): data present, amount >= 1, head (origin 0) and hash
/// requests have amount exactly 1, hashes are 32 bytes.
pub fn ref_request_is_valid(data: &ReqData, amount: u64) -> bool {
    match data {
        ReqData::None => false,
        _ if amount == 0 => false,
        ReqData::Origin(0) => amount == 1,
        ReqData::Origin(_) => true,
        ReqData::Hash(h) => h.len() == 32 && amount == 1,
    }
}

pub fn ok_response(h: &ExtendedHeader) -> HeaderResponse {
    HeaderResponse {
        body: encode_header(h),
        status_code: STATUS_OK,
    }
}

/// `C28:panic@p2p/header_ex/client.rs:attempt to add with overflow` — independent of where the
/// repository is checked out and of line numbers.
pub fn panic_signature(prop: &str, rec: &str) -> String {
    let s = lv_common::panic_sig(rec); // panic@<file>:<normalised msg>
    let s = s.strip_prefix("panic@").unwrap_or(&s);
    let s = match s.find("/src/") {
        Some(i) => {
            // keep "<crate dir>/src/..." : find the path component before /src/
            let head = &s[..i];
            let start = head.rfind('/').map(|j| j + 1).unwrap_or(0);
            &s[start..]
        }
        None => s,
    };
    format!("{prop}:panic@{s}")
}
