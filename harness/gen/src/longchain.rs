//! Cached long single-validator chains for node-level simulations (C26, C27, C37).
//!
//! A chain is a pure function of `(seed, start_height, len)` (`simple_chain_spec` with a fixed past
//! time base), built once per process and shared; cases slice it. Every chain is self-checked once
//! (`validate()` on every header and `verify_adjacent_range` along it) — a failure there is a
//! generator fault (panic with a clear message), never a finding.

use std::collections::HashMap;
use std::sync::{Arc, Mutex, OnceLock};

use celestia_types::ExtendedHeader;

use crate::chain::{TimeBase, build_chain, simple_chain_spec};

type Key = (u64, u64);

fn cache() -> &'static Mutex<HashMap<Key, Arc<Vec<ExtendedHeader>>>> {
    static C: OnceLock<Mutex<HashMap<Key, Arc<Vec<ExtendedHeader>>>>> = OnceLock::new();
    C.get_or_init(|| Mutex::new(HashMap::new()))
}

/// Headers `start_height .. start_height + len` (at least `len` of them) of the deterministic
/// chain `(seed, start_height)`. Block time 1 s, first header at 2021-01-01 + seed seconds.
pub fn cached_chain(seed: u64, start_height: u64, len: usize) -> Arc<Vec<ExtendedHeader>> {
    let mut g = cache().lock().unwrap_or_else(|e| e.into_inner());
    if let Some(c) = g.get(&(seed, start_height)) {
        if c.len() >= len {
            return c.clone();
        }
    }
    let spec = simple_chain_spec(
        seed,
        start_height,
        len,
        TimeBase::Fixed(1_609_459_200 + (seed % 1_000_000)),
        1000,
    );
    let chain = build_chain(&spec);
    let headers = chain.headers;
    // self-check (generator fault if it fails)
    for (i, h) in headers.iter().enumerate() {
        assert_eq!(h.height(), start_height + i as u64, "longchain: height of header {i}");
        h.validate()
            .unwrap_or_else(|e| panic!("longchain generator fault: header {i} of ({seed},{start_height}) invalid: {e}"));
    }
    if let Some((first, rest)) = headers.split_first() {
        first
            .verify_adjacent_range(rest)
            .unwrap_or_else(|e| panic!("longchain generator fault: chain ({seed},{start_height}) does not link: {e}"));
    }
    let arc = Arc::new(headers);
    g.insert((seed, start_height), arc.clone());
    arc
}

/// Slice of the cached chain by absolute heights `lo..=hi` (cloned headers).
pub fn slice_by_height(chain: &[ExtendedHeader], lo: u64, hi: u64) -> Vec<ExtendedHeader> {
    let Some(first) = chain.first().map(|h| h.height()) else {
        return Vec::new();
    };
    if hi < lo || lo < first {
        return Vec::new();
    }
    let a = (lo - first) as usize;
    let b = ((hi - first) as usize).min(chain.len().saturating_sub(1));
    if a > b || a >= chain.len() {
        return Vec::new();
    }
    chain[a..=b].to_vec()
}
