//! Byte-level and protobuf-aware mutators whose decisions are plain data (proptest values).

use proptest::prelude::*;
use serde::{Deserialize, Serialize};

#[derive(Clone, Debug, Serialize, Deserialize, PartialEq)]
pub enum ByteMut {
    Flip { pos: u16, bit: u8 },
    Set { pos: u16, val: u8 },
    Insert { pos: u16, bytes: Vec<u8> },
    Delete { pos: u16, len: u8 },
    Truncate { pos: u16 },
    Duplicate { pos: u16, len: u8 },
    /// protobuf-aware: pick the n-th top-level/nested field and apply an operator
    Field { nth: u16, depth: u8, op: FieldOp },
}

#[derive(Clone, Debug, Serialize, Deserialize, PartialEq)]
pub enum FieldOp {
    Drop,
    /// replace a varint value by a boundary value
    Varint(u8),
    /// repeat the field n times
    Repeat(u16),
    /// empty a length-delimited field
    Empty,
    /// truncate a length-delimited field's content to n bytes
    Shorten(u8),
}

pub const VARINT_BOUNDARIES: [u64; 16] = [
    0,
    1,
    2,
    63,
    64,
    65,
    255,
    65535,
    65536,
    (1 << 31) - 1,
    1 << 31,
    (1 << 32) - 1,
    1 << 32,
    i64::MAX as u64,
    1 << 63,
    u64::MAX,
];

fn pos_in(sel: u16, len: usize) -> usize {
    ((sel as u64 * (len as u64 + 1)) >> 16) as usize
}

pub fn put_varint(out: &mut Vec<u8>, mut v: u64) {
    loop {
        let b = (v & 0x7f) as u8;
        v >>= 7;
        if v == 0 {
            out.push(b);
            break;
        }
        out.push(b | 0x80);
    }
}

fn get_varint(b: &[u8]) -> Option<(u64, usize)> {
    let mut v = 0u64;
    for (i, x) in b.iter().enumerate().take(10) {
        v |= ((*x & 0x7f) as u64) << (7 * i);
        if x & 0x80 == 0 {
            return Some((v, i + 1));
        }
    }
    None
}

#[derive(Debug, Clone)]
pub struct PbField {
    pub start: usize,
    pub end: usize,
    pub wire: u8,
    pub tag_len: usize,
    /// for wire type 2: content range
    pub content: Option<(usize, usize)>,
}

/// Parse a byte string as a flat protobuf message; None if it does not parse fully.
pub fn pb_fields(b: &[u8]) -> Option<Vec<PbField>> {
    let mut out = Vec::new();
    let mut i = 0;
    while i < b.len() {
        let (key, kl) = get_varint(&b[i..])?;
        let wire = (key & 7) as u8;
        if key >> 3 == 0 {
            return None;
        }
        let start = i;
        i += kl;
        let mut content = None;
        match wire {
            0 => {
                let (_, l) = get_varint(&b[i..])?;
                i += l;
            }
            1 => i += 8,
            5 => i += 4,
            2 => {
                let (len, l) = get_varint(&b[i..])?;
                i += l;
                let end = i.checked_add(len as usize)?;
                if end > b.len() {
                    return None;
                }
                content = Some((i, end));
                i = end;
            }
            _ => return None,
        }
        if i > b.len() {
            return None;
        }
        out.push(PbField {
            start,
            end: i,
            wire,
            tag_len: kl,
            content,
        });
    }
    Some(out)
}

fn apply_field(b: &[u8], nth: u16, depth: u8, op: &FieldOp) -> Option<Vec<u8>> {
    let fields = pb_fields(b)?;
    if fields.is_empty() {
        return None;
    }
    let f = &fields[pos_in(nth, fields.len() - 1)];
    if depth > 0 {
        if let Some((cs, ce)) = f.content {
            if let Some(inner) = apply_field(&b[cs..ce], nth.rotate_left(5) ^ 0x5a5a, depth - 1, op) {
                let mut out = b[..f.start + f.tag_len].to_vec();
                put_varint(&mut out, inner.len() as u64);
                out.extend_from_slice(&inner);
                out.extend_from_slice(&b[f.end..]);
                return Some(out);
            }
        }
    }
    let mut out = b[..f.start].to_vec();
    match op {
        FieldOp::Drop => {}
        FieldOp::Varint(k) => {
            if f.wire != 0 {
                return None;
            }
            out.extend_from_slice(&b[f.start..f.start + f.tag_len]);
            put_varint(&mut out, VARINT_BOUNDARIES[*k as usize % VARINT_BOUNDARIES.len()]);
        }
        FieldOp::Repeat(n) => {
            for _ in 0..(*n).max(2) {
                out.extend_from_slice(&b[f.start..f.end]);
            }
        }
        FieldOp::Empty => {
            f.content?;
            out.extend_from_slice(&b[f.start..f.start + f.tag_len]);
            out.push(0);
        }
        FieldOp::Shorten(n) => {
            let (cs, ce) = f.content?;
            let keep = (*n as usize).min(ce - cs);
            out.extend_from_slice(&b[f.start..f.start + f.tag_len]);
            put_varint(&mut out, keep as u64);
            out.extend_from_slice(&b[cs..cs + keep]);
        }
    }
    out.extend_from_slice(&b[f.end..]);
    Some(out)
}

impl ByteMut {
    pub fn apply(&self, b: &[u8]) -> Vec<u8> {
        let mut v = b.to_vec();
        match self {
            ByteMut::Flip { pos, bit } => {
                if !v.is_empty() {
                    let p = pos_in(*pos, v.len() - 1);
                    v[p] ^= 1 << (bit % 8);
                }
            }
            ByteMut::Set { pos, val } => {
                if !v.is_empty() {
                    let p = pos_in(*pos, v.len() - 1);
                    v[p] = *val;
                }
            }
            ByteMut::Insert { pos, bytes } => {
                let p = pos_in(*pos, v.len());
                v.splice(p..p, bytes.iter().copied());
            }
            ByteMut::Delete { pos, len } => {
                if !v.is_empty() {
                    let p = pos_in(*pos, v.len() - 1);
                    let e = (p + *len as usize + 1).min(v.len());
                    v.drain(p..e);
                }
            }
            ByteMut::Truncate { pos } => {
                let p = pos_in(*pos, v.len());
                v.truncate(p);
            }
            ByteMut::Duplicate { pos, len } => {
                if !v.is_empty() {
                    let p = pos_in(*pos, v.len() - 1);
                    let e = (p + *len as usize + 1).min(v.len());
                    let chunk = v[p..e].to_vec();
                    v.splice(e..e, chunk);
                }
            }
            ByteMut::Field { nth, depth, op } => {
                if let Some(o) = apply_field(b, *nth, *depth, op) {
                    v = o;
                }
            }
        }
        v
    }
}

pub fn field_op_strategy() -> impl Strategy<Value = FieldOp> {
    prop_oneof![
        2 => Just(FieldOp::Drop),
        4 => (0u8..16).prop_map(FieldOp::Varint),
        2 => prop_oneof![Just(2u16), Just(63), Just(64), Just(65), Just(1000)].prop_map(FieldOp::Repeat),
        2 => Just(FieldOp::Empty),
        2 => (0u8..100).prop_map(FieldOp::Shorten),
    ]
}

pub fn byte_mut_strategy() -> impl Strategy<Value = ByteMut> {
    prop_oneof![
        2 => (any::<u16>(), 0u8..8).prop_map(|(pos, bit)| ByteMut::Flip { pos, bit }),
        2 => (any::<u16>(), prop_oneof![Just(0u8), Just(0xff), Just(0x7f), Just(0x80), any::<u8>()]).prop_map(|(pos, val)| ByteMut::Set { pos, val }),
        1 => (any::<u16>(), prop::collection::vec(any::<u8>(), 1..6)).prop_map(|(pos, bytes)| ByteMut::Insert { pos, bytes }),
        1 => (any::<u16>(), 0u8..8).prop_map(|(pos, len)| ByteMut::Delete { pos, len }),
        1 => any::<u16>().prop_map(|pos| ByteMut::Truncate { pos }),
        1 => (any::<u16>(), 0u8..32).prop_map(|(pos, len)| ByteMut::Duplicate { pos, len }),
        8 => (any::<u16>(), 0u8..4, field_op_strategy()).prop_map(|(nth, depth, op)| ByteMut::Field { nth, depth, op }),
    ]
}

pub fn apply_all(b: &[u8], muts: &[ByteMut]) -> Vec<u8> {
    let mut v = b.to_vec();
    for m in muts {
        v = m.apply(&v);
        if v.len() > 4 << 20 {
            v.truncate(4 << 20);
        }
    }
    v
}
