//! lv-gen: shared generators and independent reference implementations.
pub mod blob;
pub mod chain;
pub mod hdrref;
pub mod headerex;
pub mod longchain;
pub mod mutate;
pub mod panicsite;
pub mod proofrefs;
pub mod ranges;
pub mod refs;
pub mod square;
pub mod sqx;

#[cfg(test)]
mod tests {
    use super::*;
    use celestia_types::consts::appconsts::AppVersion;

    #[test]
    fn generated_chains_validate_and_link() {
        for seed in 0..40u64 {
            let spec = lv_common::sample_once(&chain::chain_strategy(2..=6, 6, true, true), seed);
            let c = chain::build_chain(&spec);
            for (i, h) in c.headers.iter().enumerate() {
                h.validate().unwrap_or_else(|e| panic!("seed {seed} header {i}: {e} spec={spec:?}"));
                if i > 0 {
                    c.headers[i - 1].verify_adjacent(h).unwrap_or_else(|e| panic!("seed {seed} link {i}: {e}"));
                }
            }
            // forks
            if c.headers.len() > 2 {
                let f = chain::build_fork(&c, 1, 2, 7, false);
                f[0].validate().unwrap();
                c.headers[0].verify_adjacent(&f[0]).unwrap();
                assert_ne!(f[0].hash(), c.headers[1].hash());
                let g = chain::build_fork(&c, 1, 2, 7, true);
                g[0].validate().unwrap();
                assert!(c.headers[0].verify_adjacent(&g[0]).is_err() || c.headers[0].header.next_validators_hash == g[0].header.validators_hash);
            }
        }
    }

    #[test]
    fn squares_match_reference_roots() {
        for seed in 0..30u64 {
            let spec = lv_common::sample_once(&square::square_strategy(0, 3), seed);
            let sq = square::build_square(&spec, AppVersion::V3);
            let w = sq.eds.square_width();
            for i in 0..w {
                let r = square::ref_axis_root(&sq.eds, true, i);
                assert_eq!(&r.to_bytes()[..], &celestia_types::nmt::NamespacedHashExt::to_array(&sq.dah.row_root(i).unwrap())[..], "row {i} seed {seed}");
                let c = square::ref_axis_root(&sq.eds, false, i);
                assert_eq!(&c.to_bytes()[..], &celestia_types::nmt::NamespacedHashExt::to_array(&sq.dah.column_root(i).unwrap())[..]);
            }
        }
    }

    #[test]
    fn sign_bytes_match_lumina() {
        use celestia_types::block::CommitExt;
        let spec = lv_common::sample_once(&chain::chain_strategy(3..=3, 5, false, true), 3);
        let c = chain::build_chain(&spec);
        for h in &c.headers {
            for i in 0..h.commit.signatures.len() {
                if let Some(b) = chain::sign_bytes_of(&h.commit, h.header.chain_id.as_str(), i) {
                    assert_eq!(b, h.commit.vote_sign_bytes(&h.header.chain_id, i).unwrap());
                }
            }
        }
    }
}
