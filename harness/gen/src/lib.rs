//! lv-gen: shared generators and independent reference implementations.
pub mod chain;
pub mod mutate;
pub mod refs;
pub mod square;
