//! SquareGen: original data squares from plain-data specs, extended by the code under test
//! (`ExtendedDataSquare::from_ods`), with brute-force indexes used as reference by the oracles.

use celestia_types::consts::appconsts::AppVersion;
use celestia_types::nmt::Namespace;
use celestia_types::{DataAvailabilityHeader, ExtendedDataSquare};
use lv_common::Prng;
use proptest::prelude::*;
use serde::{Deserialize, Serialize};

use crate::refs::{self, NS, SHARE};

#[derive(Clone, Debug, Serialize, Deserialize, PartialEq)]
pub enum Run {
    /// compact shares in the TRANSACTION namespace
    Tx(u8),
    /// compact shares in the PAY_FOR_BLOB namespace
    Pfb(u8),
    /// primary reserved padding shares
    PrimaryPadding(u8),
    /// a blob of `shares` shares in user namespace `ns_key`, followed by `pad` namespace padding shares
    Blob { ns_key: u16, shares: u8, pad: u8 },
}

#[derive(Clone, Debug, Serialize, Deserialize, PartialEq)]
pub enum SquareKind {
    /// one random user namespace, random payloads, every share a sequence start of a 1-share blob
    Dummy,
    /// namespace runs in namespace order, tail padding at the end
    Structured(Vec<Run>),
    /// low-entropy square: one user namespace, every cell is one of `pool` (2..=4) distinct shares
    /// (a namespace-padding share and one-share blobs), chosen per cell by `picks` (cycled). Produces
    /// rows/columns with byte-identical shares at arbitrary positions (equal ends, constant runs, ...).
    Pool { pool: u8, picks: Vec<u8> },
}

#[derive(Clone, Debug, Serialize, Deserialize, PartialEq)]
pub struct SquareSpec {
    pub seed: u64,
    /// ODS width = 2^ods_log2
    pub ods_log2: u8,
    pub kind: SquareKind,
}

pub struct Square {
    pub spec: SquareSpec,
    pub ods: Vec<Vec<u8>>,
    pub eds: ExtendedDataSquare,
    pub dah: DataAvailabilityHeader,
    /// user namespaces present (sorted, deduplicated)
    pub namespaces: Vec<Namespace>,
}

/// user namespace from an ordering key (strictly above the primary reserved range)
pub fn user_ns(key: u16) -> Namespace {
    let k = key.to_be_bytes();
    Namespace::const_v0([0, 0, 0, 0, 0, 0, 1, k[0], k[1], 0])
}

pub fn ns_bytes(ns: &Namespace) -> [u8; NS] {
    ns.as_bytes().try_into().unwrap()
}

fn compact_share(ns: &Namespace, first: bool, rng: &mut Prng) -> Vec<u8> {
    let mut s = vec![0u8; SHARE];
    s[..NS].copy_from_slice(ns.as_bytes());
    s[NS] = first as u8;
    rng.fill(&mut s[NS + 1..]);
    if first {
        // plausible sequence length
        s[NS + 1..NS + 5].copy_from_slice(&400u32.to_be_bytes());
    }
    s
}

/// Row-major ODS shares of the spec.
pub fn build_ods(spec: &SquareSpec) -> (Vec<Vec<u8>>, Vec<Namespace>) {
    let k = 1usize << spec.ods_log2;
    let total = k * k;
    let mut rng = Prng::new(spec.seed);
    let mut out: Vec<Vec<u8>> = Vec::with_capacity(total);
    let mut namespaces = Vec::new();
    match &spec.kind {
        SquareKind::Dummy => {
            let ns = user_ns((rng.next_u64() % 60000) as u16 + 1);
            namespaces.push(ns);
            for _ in 0..total {
                let mut s = vec![0u8; SHARE];
                s[..NS].copy_from_slice(ns.as_bytes());
                s[NS] = 1;
                s[NS + 1..NS + 5].copy_from_slice(&(refs::FIRST_CAP_V0 as u32).to_be_bytes());
                rng.fill(&mut s[NS + 5..]);
                out.push(s);
            }
        }
        SquareKind::Pool { pool, picks } => {
            let ns = user_ns((rng.next_u64() % 60000) as u16 + 1);
            namespaces.push(ns);
            let n = (*pool).clamp(2, 4) as usize;
            let mut shares: Vec<Vec<u8>> = vec![refs::padding_share(&ns_bytes(&ns)).to_vec()];
            while shares.len() < n {
                let mut s = vec![0u8; SHARE];
                s[..NS].copy_from_slice(ns.as_bytes());
                s[NS] = 1;
                s[NS + 1..NS + 5].copy_from_slice(&(refs::FIRST_CAP_V0 as u32).to_be_bytes());
                rng.fill(&mut s[NS + 5..]);
                shares.push(s);
            }
            for i in 0..total {
                let p = if picks.is_empty() { 0 } else { picks[i % picks.len()] as usize % n };
                out.push(shares[p].clone());
            }
        }
        SquareKind::Structured(runs) => {
            // order: Tx, Pfb, PrimaryPadding, blobs by ns_key (stable)
            let mut tx = 0usize;
            let mut pfb = 0usize;
            let mut pp = 0usize;
            let mut blobs: Vec<(u16, u8, u8)> = Vec::new();
            for r in runs {
                match r {
                    Run::Tx(n) => tx += *n as usize,
                    Run::Pfb(n) => pfb += *n as usize,
                    Run::PrimaryPadding(n) => pp += *n as usize,
                    Run::Blob { ns_key, shares, pad } => blobs.push((*ns_key, (*shares).max(1), *pad)),
                }
            }
            blobs.sort_by_key(|b| b.0);
            let room = |out: &Vec<Vec<u8>>| total - out.len();
            for i in 0..tx.min(room(&out)) {
                out.push(compact_share(&Namespace::TRANSACTION, i == 0, &mut rng));
            }
            for i in 0..pfb.min(room(&out)) {
                out.push(compact_share(&Namespace::PAY_FOR_BLOB, i == 0, &mut rng));
            }
            for _ in 0..pp.min(room(&out)) {
                out.push(refs::padding_share(&ns_bytes(&Namespace::PRIMARY_RESERVED_PADDING)).to_vec());
            }
            for (key, shares, pad) in blobs {
                let shares = shares as usize;
                if room(&out) < shares {
                    break;
                }
                let ns = user_ns(key);
                if namespaces.last() != Some(&ns) {
                    namespaces.push(ns);
                }
                let len = refs::FIRST_CAP_V0 + (shares - 1) * refs::CONT_CAP - (rng.below(refs::FIRST_CAP_V0 as u64 - 1) as usize);
                let data = rng.bytes(len);
                for s in refs::ref_split_blob(&ns_bytes(&ns), &data, 0, None) {
                    out.push(s.to_vec());
                }
                for _ in 0..(pad as usize).min(room(&out)) {
                    out.push(refs::padding_share(&ns_bytes(&ns)).to_vec());
                }
            }
            while out.len() < total {
                out.push(refs::padding_share(&ns_bytes(&Namespace::TAIL_PADDING)).to_vec());
            }
        }
    }
    (out, namespaces)
}

pub fn build_square(spec: &SquareSpec, app: AppVersion) -> Square {
    let (ods, namespaces) = build_ods(spec);
    let eds = ExtendedDataSquare::from_ods(ods.clone(), app).expect("generated ODS must extend");
    let dah = DataAvailabilityHeader::from_eds(&eds);
    Square {
        spec: spec.clone(),
        ods,
        eds,
        dah,
        namespaces,
    }
}

/// All shares of the EDS as raw bytes, row-major.
pub fn eds_raw(eds: &ExtendedDataSquare) -> Vec<Vec<u8>> {
    eds.data_square().iter().map(|s| s.to_vec()).collect()
}

/// Reference NMT root of an axis computed with the harness' own hashing.
pub fn ref_axis_root(eds: &ExtendedDataSquare, row_axis: bool, index: u16) -> refs::NmtNode {
    let w = eds.square_width();
    let half = w / 2;
    let mut leaves = Vec::new();
    for i in 0..w {
        let (r, c) = if row_axis { (index, i) } else { (i, index) };
        let sh = eds.share(r, c).unwrap();
        let data: &[u8] = sh.as_ref();
        let ns: [u8; NS] = if r < half && c < half { data[..NS].try_into().unwrap() } else { refs::PARITY_NS };
        leaves.push(refs::nmt_leaf(&ns, data));
    }
    refs::nmt_root(&leaves)
}

pub fn run_strategy() -> impl Strategy<Value = Run> {
    prop_oneof![
        1 => (1u8..4).prop_map(Run::Tx),
        1 => (1u8..4).prop_map(Run::Pfb),
        1 => (1u8..3).prop_map(Run::PrimaryPadding),
        8 => (prop_oneof![1u16..12, any::<u16>()], prop_oneof![3 => 1u8..4, 1 => 4u8..40], 0u8..3)
            .prop_map(|(ns_key, shares, pad)| Run::Blob { ns_key: ns_key.max(1), shares, pad }),
    ]
}

/// squares with ODS width 2^lo ..= 2^hi
pub fn square_strategy(lo: u8, hi: u8) -> impl Strategy<Value = SquareSpec> {
    (any::<u64>(), lo..=hi, prop_oneof![
        2 => Just(SquareKind::Dummy),
        6 => prop::collection::vec(run_strategy(), 0..14).prop_map(SquareKind::Structured),
        1 => (2u8..=4, prop::collection::vec(0u8..4, 1..40)).prop_map(|(pool, picks)| SquareKind::Pool { pool, picks }),
    ])
        .prop_map(|(seed, ods_log2, kind)| SquareSpec { seed, ods_log2, kind })
}

pub fn structured_square_strategy(lo: u8, hi: u8) -> impl Strategy<Value = SquareSpec> {
    (any::<u64>(), lo..=hi, prop::collection::vec(run_strategy(), 1..16))
        .prop_map(|(seed, ods_log2, runs)| SquareSpec { seed, ods_log2, kind: SquareKind::Structured(runs) })
}
