//! Panic-site signatures: like `lv_common::panic_sig` (`panic@<file>:<normalised message>`), but
//! for panics raised inside third-party registry crates (whose sources are pinned by Cargo.lock,
//! so line numbers are stable) the line is appended as `@L<line>`, so that two panic sites of one
//! file with the same message (e.g. two different `index out of bounds` in nmt-rs/src/lib.rs) get
//! distinct signatures.

/// `rec` is the engine's panic record `"<file>:<line>: <message>"`.
pub fn site_sig(rec: &str) -> String {
    let base = lv_common::panic_sig(rec);
    let mut parts = rec.splitn(3, ':');
    let file = parts.next().unwrap_or("");
    let line = parts.next().unwrap_or("").trim();
    let in_repo = ["types/", "node/", "proto/", "rpc/", "grpc/", "utils/", "client/", "cli/", "/tmp/", "/verif/", "src/"]
        .iter()
        .any(|p| file.starts_with(p));
    if in_repo || line.is_empty() || !line.chars().all(|c| c.is_ascii_digit()) {
        base
    } else {
        format!("{base}@L{line}")
    }
}
