//! Reference model of "a set of heights" as a canonical interval list with u128 endpoints, plus
//! boundary-biased strategies for u64 heights / range lists. Independent of lumina's `BlockRanges`
//! (no lumina import): used as the oracle of C17/C18/C24.
//!
//! Canonical form: sorted by `lo`, `lo <= hi`, and `prev.hi + 1 < next.lo` (disjoint AND non-touching).
use proptest::prelude::*;
use serde::{Deserialize, Serialize};

pub const HMAX: u128 = u64::MAX as u128;

#[derive(Clone, Debug, PartialEq, Eq, Default, Serialize, Deserialize)]
pub struct ISet(pub Vec<(u128, u128)>);

impl ISet {
    pub fn new() -> ISet {
        ISet(Vec::new())
    }

    /// sort + merge overlapping / touching intervals; drops empty ones (lo > hi)
    pub fn normalise(mut v: Vec<(u128, u128)>) -> ISet {
        v.retain(|(a, b)| a <= b);
        v.sort();
        let mut out: Vec<(u128, u128)> = Vec::with_capacity(v.len());
        for (a, b) in v {
            match out.last_mut() {
                Some(l) if a <= l.1 + 1 => {
                    if b > l.1 {
                        l.1 = b
                    }
                }
                _ => out.push((a, b)),
            }
        }
        ISet(out)
    }

    pub fn single(lo: u128, hi: u128) -> ISet {
        ISet::normalise(vec![(lo, hi)])
    }

    /// bits 0..=63 of `mask` as a set
    pub fn from_mask(mask: u64) -> ISet {
        let mut v = Vec::new();
        let mut i = 0u32;
        while i < 64 {
            if mask >> i & 1 == 1 {
                let s = i;
                while i + 1 < 64 && mask >> (i + 1) & 1 == 1 {
                    i += 1;
                }
                v.push((s as u128, i as u128));
            }
            i += 1;
        }
        ISet(v)
    }

    /// Some(mask) when every element is <= 63
    pub fn to_mask(&self) -> Option<u64> {
        let mut m = 0u64;
        for &(a, b) in &self.0 {
            if b > 63 {
                return None;
            }
            for i in a..=b {
                m |= 1 << i;
            }
        }
        Some(m)
    }

    pub fn is_canonical(&self) -> bool {
        self.0.iter().all(|(a, b)| a <= b) && self.0.windows(2).all(|w| w[0].1 + 1 < w[1].0)
    }

    pub fn is_empty(&self) -> bool {
        self.0.is_empty()
    }

    pub fn len(&self) -> u128 {
        self.0.iter().map(|(a, b)| b - a + 1).sum()
    }

    pub fn contains(&self, h: u128) -> bool {
        self.0.iter().any(|&(a, b)| a <= h && h <= b)
    }

    pub fn min(&self) -> Option<u128> {
        self.0.first().map(|x| x.0)
    }

    pub fn max(&self) -> Option<u128> {
        self.0.last().map(|x| x.1)
    }

    pub fn union(&self, o: &ISet) -> ISet {
        let mut v = self.0.clone();
        v.extend_from_slice(&o.0);
        ISet::normalise(v)
    }

    /// two-pointer intersection
    pub fn inter(&self, o: &ISet) -> ISet {
        let (mut i, mut j) = (0, 0);
        let mut out = Vec::new();
        while i < self.0.len() && j < o.0.len() {
            let (a, b) = self.0[i];
            let (c, d) = o.0[j];
            let lo = a.max(c);
            let hi = b.min(d);
            if lo <= hi {
                out.push((lo, hi));
            }
            if b < d {
                i += 1
            } else {
                j += 1
            }
        }
        ISet::normalise(out)
    }

    /// complement within [lo, hi]
    pub fn complement_in(&self, lo: u128, hi: u128) -> ISet {
        let mut out = Vec::new();
        let mut next = lo;
        for &(a, b) in &self.0 {
            if b < lo {
                continue;
            }
            if a > hi {
                break;
            }
            if a > next {
                out.push((next, a - 1));
            }
            next = next.max(b + 1);
        }
        if next <= hi {
            out.push((next, hi));
        }
        ISet::normalise(out)
    }

    /// complement within the height universe [1, u64::MAX]
    pub fn complement(&self) -> ISet {
        self.complement_in(1, HMAX)
    }

    pub fn diff(&self, o: &ISet) -> ISet {
        // A \ B = A ∩ ([0, 2^64] \ B)
        self.inter(&o.complement_in(0, HMAX + 1))
    }

    pub fn insert(&self, lo: u128, hi: u128) -> ISet {
        self.union(&ISet::single(lo, hi))
    }

    pub fn remove(&self, lo: u128, hi: u128) -> ISet {
        self.diff(&ISet::single(lo, hi))
    }

    /// the n highest elements
    pub fn headn(&self, n: u128) -> ISet {
        let mut left = n;
        let mut out = Vec::new();
        for &(a, b) in self.0.iter().rev() {
            if left == 0 {
                break;
            }
            let l = b - a + 1;
            if l <= left {
                out.push((a, b));
                left -= l;
            } else {
                out.push((b - left + 1, b));
                left = 0;
            }
        }
        ISet::normalise(out)
    }

    /// the n lowest elements
    pub fn tailn(&self, n: u128) -> ISet {
        let mut left = n;
        let mut out = Vec::new();
        for &(a, b) in self.0.iter() {
            if left == 0 {
                break;
            }
            let l = b - a + 1;
            if l <= left {
                out.push((a, b));
                left -= l;
            } else {
                out.push((a, a + left - 1));
                left = 0;
            }
        }
        ISet::normalise(out)
    }

    /// first and last element of every maximal run
    pub fn edges(&self) -> ISet {
        let mut v = Vec::new();
        for &(a, b) in &self.0 {
            v.push((a, a));
            v.push((b, b));
        }
        ISet::normalise(v)
    }

    /// greatest element strictly below h
    pub fn left_of(&self, h: u128) -> Option<u128> {
        let mut best = None;
        for &(a, b) in &self.0 {
            if a < h {
                best = Some(b.min(h - 1));
            }
        }
        best
    }

    /// smallest element strictly above h
    pub fn right_of(&self, h: u128) -> Option<u128> {
        for &(a, b) in &self.0 {
            if b > h {
                return Some(a.max(h + 1));
            }
        }
        None
    }

    /// number of maximal runs that overlap or touch [lo, hi]
    pub fn runs_touching(&self, lo: u128, hi: u128) -> usize {
        self.0.iter().filter(|&&(a, b)| a <= hi + 1 && lo <= b + 1).count()
    }

    /// true when [lo,hi] lies strictly inside one run (removing it splits the run in two)
    pub fn strictly_inside_run(&self, lo: u128, hi: u128) -> bool {
        self.0.iter().any(|&(a, b)| a < lo && hi < b)
    }

    /// all edges (run starts and ends) as a flat sorted list
    pub fn edge_points(&self) -> Vec<u128> {
        let mut v = Vec::new();
        for &(a, b) in &self.0 {
            v.push(a);
            if b != a {
                v.push(b);
            }
        }
        v
    }

    pub fn touches_high_half(&self) -> bool {
        self.max().is_some_and(|m| m >= 1u128 << 63)
    }
}

/// boundary-biased u64 height (may be 0 with small probability when `allow_zero`)
pub fn height_strategy(allow_zero: bool) -> impl Strategy<Value = u64> {
    let z = if allow_zero { 0u64 } else { 1u64 };
    prop_oneof![
        1 => Just(z),
        3 => Just(1u64),
        2 => Just(2u64),
        4 => Just(u64::MAX),
        3 => Just(u64::MAX - 1),
        2 => Just(u64::MAX - 2),
        2 => Just(1u64 << 63),
        1 => Just((1u64 << 63) - 1),
        1 => Just((1u64 << 63) + 1),
        4 => 1u64..40,
        2 => (0u64..40).prop_map(|d| u64::MAX - d),
        2 => (0u64..40).prop_map(|d| (1u64 << 63) - 20 + d),
        3 => any::<u64>(),
        1 => (0u32..64, any::<u64>()).prop_map(|(s, r)| (r >> s).max(1)),
    ]
}

/// boundary-biased count / limit
pub fn count_strategy() -> impl Strategy<Value = u64> {
    prop_oneof![
        2 => Just(0u64),
        3 => Just(1u64),
        2 => Just(2u64),
        3 => 0u64..20,
        1 => Just(512u64),
        3 => Just(u64::MAX),
        2 => Just(u64::MAX - 1),
        1 => Just(1u64 << 63),
        1 => Just((1u64 << 63) + 1),
        1 => (0u64..20).prop_map(|d| u64::MAX - d),
        2 => any::<u64>(),
        1 => (0u32..64, any::<u64>()).prop_map(|(s, r)| r >> s),
    ]
}

/// How a canonical range list is laid out: runs described by (gap, len) magnitudes, built upwards
/// from `base` or downwards from u64::MAX.
#[derive(Clone, Debug, Serialize, Deserialize, PartialEq)]
pub struct RangesSpec {
    /// true: first run ends at u64::MAX - top_gap and the list grows downwards
    pub from_top: bool,
    /// distance of the first run from the anchor (1 when building upwards with base_gap=0)
    pub base_gap: u64,
    /// (gap before the run minus 2 [so runs never touch], run length minus 1)
    pub runs: Vec<(u64, u64)>,
}

fn mag_strategy() -> impl Strategy<Value = u64> {
    prop_oneof![
        5 => Just(0u64),
        3 => Just(1u64),
        3 => 0u64..12,
        1 => 0u64..2000,
        1 => any::<u64>().prop_map(|r| r >> 34),
        1 => any::<u64>().prop_map(|r| r >> 3),
        1 => any::<u64>(),
        1 => Just(1u64 << 62),
    ]
}

pub fn ranges_spec_strategy(max_runs: usize) -> impl Strategy<Value = RangesSpec> {
    (
        any::<bool>(),
        prop_oneof![4 => Just(0u64), 2 => 0u64..5, 1 => mag_strategy()],
        prop::collection::vec((mag_strategy(), mag_strategy()), 0..=max_runs),
    )
        .prop_map(|(from_top, base_gap, runs)| RangesSpec { from_top, base_gap, runs })
}

/// Build the canonical list (ascending, non-touching, within [1, u64::MAX]); runs that would not
/// fit are dropped.
pub fn build_ranges(spec: &RangesSpec) -> ISet {
    let mut out: Vec<(u128, u128)> = Vec::new();
    if spec.from_top {
        // grow downwards from u64::MAX - base_gap
        let mut hi: i128 = HMAX as i128 - spec.base_gap as i128;
        for (k, &(gap, len)) in spec.runs.iter().enumerate() {
            if k > 0 {
                hi -= gap as i128 + 2;
            }
            let lo = hi - len as i128;
            if lo < 1 {
                if hi >= 1 {
                    out.push((1, hi as u128));
                }
                break;
            }
            out.push((lo as u128, hi as u128));
            hi = lo;
            // next run's hi is computed from this run's lo
        }
        out.reverse();
    } else {
        let mut lo: u128 = 1 + spec.base_gap as u128;
        for (k, &(gap, len)) in spec.runs.iter().enumerate() {
            if k > 0 {
                lo += gap as u128 + 2;
            }
            if lo > HMAX {
                break;
            }
            let hi = (lo + len as u128).min(HMAX);
            out.push((lo, hi));
            lo = hi;
            // next run's lo is computed from this run's hi
        }
    }
    let s = ISet(out);
    debug_assert!(s.is_canonical(), "build_ranges produced non-canonical {s:?} from {spec:?}");
    s
}

#[cfg(test)]
mod tests {
    use super::*;

    #[test]
    fn model_agrees_with_bitmask_on_small_universe() {
        // every pair of subsets of {1..6}, shifted near both ends of the u64 range
        for a in 0u64..64 {
            for b in 0u64..64 {
                let (ma, mb) = (a << 1, b << 1);
                let (sa, sb) = (ISet::from_mask(ma), ISet::from_mask(mb));
                assert!(sa.is_canonical());
                assert_eq!(sa.union(&sb).to_mask(), Some(ma | mb));
                assert_eq!(sa.inter(&sb).to_mask(), Some(ma & mb));
                assert_eq!(sa.diff(&sb).to_mask(), Some(ma & !mb));
                assert_eq!(sa.len(), ma.count_ones() as u128);
                assert_eq!(sa.complement_in(1, 7).to_mask(), Some(!ma & 0xfe));
                for n in 0..8u128 {
                    let h = sa.headn(n).to_mask().unwrap();
                    assert_eq!(h.count_ones() as u128, n.min(sa.len()));
                    assert_eq!(h & ma, h);
                    // every element not taken is below every element taken
                    if h != 0 {
                        assert!((ma & !h) < (1 << h.trailing_zeros()));
                    }
                    let t = sa.tailn(n).to_mask().unwrap();
                    assert_eq!(t.count_ones() as u128, n.min(sa.len()));
                    assert_eq!(t & ma, t);
                    if t != 0 && (ma & !t) != 0 {
                        assert!((ma & !t).trailing_zeros() > 63 - t.leading_zeros());
                    }
                }
                for h in 0..9u128 {
                    let lo = (0..h).rev().find(|x| sa.contains(*x));
                    let hi = (h + 1..9).find(|x| sa.contains(*x));
                    assert_eq!(sa.left_of(h), lo);
                    assert_eq!(sa.right_of(h), hi);
                }
            }
        }
        let full = ISet::single(1, HMAX);
        assert_eq!(full.len(), HMAX);
        assert!(full.complement().is_empty());
        assert_eq!(ISet::new().complement(), full);
        assert_eq!(ISet::single(5, HMAX).tailn(HMAX), ISet::single(5, HMAX));
        assert_eq!(ISet::single(HMAX, HMAX).tailn(1), ISet::single(HMAX, HMAX));
    }

    #[test]
    fn built_ranges_are_canonical() {
        for seed in 0..3000u64 {
            let spec = lv_common::sample_once(&ranges_spec_strategy(6), seed);
            let s = build_ranges(&spec);
            assert!(s.is_canonical(), "{spec:?} -> {s:?}");
            assert!(s.min().is_none_or(|m| m >= 1) && s.max().is_none_or(|m| m <= HMAX), "{spec:?} -> {s:?}");
        }
    }
}
