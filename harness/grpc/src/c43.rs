//! C43 — Transaction submission keeps account sequences consistent.
//!
//! The real `GrpcClient` (public builder, in-process secp256k1 signer, fake transport) submits 1..3 messages
//! concurrently (`submit_message` / `submit_blobs`, gas limit/price fixed in `TxConfig`) to a fake node that serves `GetLatestBlock`,
//! `Account`, `BroadcastTx` and `TxStatus` from a generated script and records every request it decides on.
//! The recorded trace (plus one "done" marker per submission) is replayed against a reference model of the
//! client's sequence protocol.
use std::collections::{BTreeMap, BTreeSet};
use std::sync::{Arc, Mutex};
use std::time::Duration;

use celestia_grpc::{GrpcClient, TxConfig};
use celestia_proto::celestia::core::v1::tx as ptxs;
use celestia_proto::cosmos::auth::v1beta1 as pauth;
use celestia_proto::cosmos::bank::v1beta1::MsgSend;
use celestia_proto::cosmos::base::abci::v1beta1::TxResponse as RawTxResponse;
use celestia_proto::cosmos::base::tendermint::v1beta1::GetLatestBlockResponse;
use celestia_proto::cosmos::base::v1beta1::Coin as RawCoin;
use celestia_proto::cosmos::tx::v1beta1 as ptx;
use celestia_proto::tendermint_celestia_mods::types::Block as RawBlock;
use celestia_types::blob::RawBlobTx;
use celestia_types::block::{Block, Data};
use celestia_types::nmt::Namespace;
use celestia_types::{AppVersion, Blob};
use celestia_types::state::AccAddress;
use k256::ecdsa::signature::Verifier;
use k256::ecdsa::{Signature, SigningKey, VerifyingKey};
use lv_common::Prng;
use lv_common::prelude::*;
use lv_gen::chain::{TimeBase, build_chain, simple_chain_spec};
use prost::{Message, Name};
use sha2::{Digest, Sha256};
use tendermint_proto::google::protobuf::Any;

use crate::fake::{FakeEndpoint, Handler, Incoming, Reply};

const P_BLOCK: &str = "/cosmos.base.tendermint.v1beta1.Service/GetLatestBlock";
const P_ACCOUNT: &str = "/cosmos.auth.v1beta1.Query/Account";
const P_BROADCAST: &str = "/cosmos.tx.v1beta1.Service/BroadcastTx";
const P_STATUS: &str = "/celestia.core.v1.tx.Tx/TxStatus";
const ACCOUNT_NUMBER: u64 = 37;
const CHAIN_ID: &str = "private";

/// non-sequence check-tx / execution codes used for rejections
const REJECT_CODES: [u32; 6] = [5, 11, 13, 20, 21, 18];

#[derive(Clone, Debug, Serialize, Deserialize, PartialEq)]
pub enum Expect {
    Abs(u32),
    /// relative to the sequence carried by the offending tx
    Rel(i8),
}

#[derive(Clone, Debug, Serialize, Deserialize, PartialEq)]
pub enum Form {
    /// TxResponse code 32 (WrongSequence), raw_log carries the text
    Code32,
    /// TxResponse code 3 (InvalidSequence)
    Code3,
    /// gRPC status error whose message carries the text (how simulate / ante-handler failures surface)
    Grpc { code: u8 },
}

/// answer to a (re-)signed broadcast
#[derive(Clone, Debug, Serialize, Deserialize, PartialEq)]
pub enum BAns {
    Accept,
    CacheHit,
    Mismatch { expected: Expect, form: Form },
    /// sequence code but the log cannot be parsed for the expected value
    Unparsable { kind: u8 },
    Reject { code: u8 },
    GrpcFail { code: u8 },
}

/// answer to the re-broadcast of an evicted / unknown tx
#[derive(Clone, Debug, Serialize, Deserialize, PartialEq)]
pub enum RAns {
    Accept,
    CacheHit,
    Refuse { code: u8 },
    SequenceRefuse { expected: u32 },
}

#[derive(Clone, Debug, Serialize, Deserialize, PartialEq)]
pub enum SAns {
    Pending,
    CommittedOk,
    CommittedFail { code: u8 },
    /// seq_code: rejected because of a wrong sequence (no roll-back expected)
    Rejected { code: u8, seq_code: bool },
    Evicted { re: RAns },
    Unknown { re: RAns },
}

#[derive(Clone, Debug, Serialize, Deserialize)]
pub struct SubSpec {
    /// submit a blob (PayForBlobs, `sign_and_broadcast_blobs`) instead of a bank message (`sign_and_broadcast_tx`)
    pub blob: bool,
    pub start_delay: u8,
    pub interval_ms: u8,
    pub broadcast: Vec<BAns>,
    pub status: Vec<SAns>,
}

#[derive(Clone, Debug, Serialize, Deserialize)]
pub struct Case {
    pub initial_seq: u32,
    pub high: bool,
    pub delay_seed: u64,
    pub max_delay: u8,
    pub subs: Vec<SubSpec>,
    /// a last submission issued after all others finished (observes the final belief)
    pub tail: bool,
}

fn expect_strategy() -> impl Strategy<Value = Expect> {
    prop_oneof![2 => (0u32..2000).prop_map(Expect::Abs), 3 => (-3i8..=6).prop_map(Expect::Rel)]
}

fn form_strategy() -> impl Strategy<Value = Form> {
    prop_oneof![3 => Just(Form::Code32), 1 => Just(Form::Code3), 2 => prop_oneof![Just(3u8), Just(13u8), Just(9u8), Just(2u8)].prop_map(|code| Form::Grpc { code })]
}

fn bans_strategy() -> impl Strategy<Value = BAns> {
    prop_oneof![
        5 => Just(BAns::Accept),
        2 => Just(BAns::CacheHit),
        5 => (expect_strategy(), form_strategy()).prop_map(|(expected, form)| BAns::Mismatch { expected, form }),
        1 => (0u8..4).prop_map(|kind| BAns::Unparsable { kind }),
        2 => (0u8..6).prop_map(|code| BAns::Reject { code }),
        1 => prop_oneof![Just(3u8), Just(13u8), Just(5u8)].prop_map(|code| BAns::GrpcFail { code }),
    ]
}

fn rans_strategy() -> impl Strategy<Value = RAns> {
    prop_oneof![
        4 => Just(RAns::Accept),
        1 => Just(RAns::CacheHit),
        2 => (0u8..6).prop_map(|code| RAns::Refuse { code }),
        1 => (0u32..2000).prop_map(|expected| RAns::SequenceRefuse { expected }),
    ]
}

fn sans_strategy() -> impl Strategy<Value = SAns> {
    prop_oneof![
        4 => Just(SAns::Pending),
        3 => Just(SAns::CommittedOk),
        1 => (0u8..6).prop_map(|code| SAns::CommittedFail { code }),
        3 => (0u8..6, prop::bool::weighted(0.25)).prop_map(|(code, seq_code)| SAns::Rejected { code, seq_code }),
        3 => rans_strategy().prop_map(|re| SAns::Evicted { re }),
        1 => rans_strategy().prop_map(|re| SAns::Unknown { re }),
    ]
}

fn sub_strategy() -> impl Strategy<Value = SubSpec> {
    (prop::bool::weighted(0.35), 0u8..4, 1u8..20, prop::collection::vec(bans_strategy(), 0..4), prop::collection::vec(sans_strategy(), 0..5))
        .prop_map(|(blob, start_delay, interval_ms, broadcast, status)| SubSpec { blob, start_delay, interval_ms, broadcast, status })
}

fn case_strategy() -> impl Strategy<Value = Case> {
    (0u32..1000, prop::bool::weighted(0.1), any::<u64>(), 0u8..4, prop::collection::vec(sub_strategy(), 1..=3), any::<bool>())
        .prop_map(|(initial_seq, high, delay_seed, max_delay, subs, tail)| Case { initial_seq, high, delay_seed, max_delay, subs, tail })
}

// ---------------------------------------------------------------------------------------------------------------
// trace

#[derive(Clone, Debug, PartialEq)]
enum BKind {
    Accept,
    CacheHit,
    Mismatch(u64),
    /// terminal failure of the signing loop (reject / unparsable / grpc failure)
    Fail,
}

#[derive(Clone, Debug)]
enum Ev {
    Block,
    Account { seq: u64 },
    /// a broadcast the node treated as (re-)signed submission
    Sign { sub: usize, seq: u64, body: Vec<u8>, sig_ok: bool, fields_ok: bool, bytes: Vec<u8>, ans: BKind },
    /// a broadcast arriving while the node had answered Evicted/Unknown for this submission's tx
    Rebroadcast { sub: usize, bytes: Vec<u8>, accepted: bool },
    Status { sub: usize, ans: SAns },
    Foreign { what: String },
    Done { sub: usize, ok: bool, err: String },
}

struct SubNode {
    b_idx: usize,
    s_idx: usize,
    awaiting_re: Option<RAns>,
    events: u64,
}

struct Node {
    case: Case,
    trace: Vec<Ev>,
    subs: Vec<SubNode>,
    hashes: BTreeMap<String, usize>,
    block: Vec<u8>,
    account: Vec<u8>,
    vk: VerifyingKey,
}

fn seq_text(expected: u64, got: u64) -> String {
    format!("account sequence mismatch, expected {expected}, got {got}: incorrect account sequence")
}

fn tx_hash(bytes: &[u8]) -> String {
    hex::encode_upper(Sha256::digest(bytes))
}

fn tx_response(bytes: &[u8], code: u32, log: String) -> Vec<u8> {
    ptx::BroadcastTxResponse {
        tx_response: Some(RawTxResponse { height: 0, txhash: tx_hash(bytes), code, raw_log: log, codespace: if code == 0 { String::new() } else { "sdk".into() }, ..Default::default() }),
    }
    .encode_to_vec()
}

fn status_response(status: &str, height: i64, code: u32, error: &str) -> Vec<u8> {
    ptxs::TxStatusResponse { height, index: 0, execution_code: code, error: error.into(), status: status.into(), ..Default::default() }.encode_to_vec()
}

struct Decoded {
    memo: String,
    seq: u64,
    body: Vec<u8>,
    sig_ok: bool,
    fields_ok: bool,
    is_blob: bool,
}

fn decode_tx(bytes: &[u8], vk: &VerifyingKey) -> Option<Decoded> {
    // a blob transaction wraps the signed tx: BlobTx { tx, blobs, type_id: "BLOB" }
    let inner: Vec<u8> = match RawBlobTx::decode(bytes) {
        Ok(b) if b.type_id == "BLOB" => b.tx,
        _ => bytes.to_vec(),
    };
    let is_blob = inner.len() != bytes.len();
    let bytes = inner.as_slice();
    let raw = ptx::TxRaw::decode(bytes).ok()?;
    let body = ptx::TxBody::decode(raw.body_bytes.as_slice()).ok()?;
    let auth = ptx::AuthInfo::decode(raw.auth_info_bytes.as_slice()).ok()?;
    let si = auth.signer_infos.first()?;
    let doc = ptx::SignDoc { body_bytes: raw.body_bytes.clone(), auth_info_bytes: raw.auth_info_bytes.clone(), chain_id: CHAIN_ID.into(), account_number: ACCOUNT_NUMBER };
    let sig_ok = raw.signatures.len() == 1
        && Signature::from_slice(&raw.signatures[0]).map(|s| vk.verify(&doc.encode_to_vec(), &s).is_ok()).unwrap_or(false);
    let fields_ok = auth.signer_infos.len() == 1 && body.messages.len() == 1 && auth.fee.as_ref().is_some_and(|f| f.gas_limit == 100_000);
    Some(Decoded { memo: body.memo.clone(), seq: si.sequence, body: raw.body_bytes, sig_ok, fields_ok, is_blob })
}

impl Node {
    fn delay_for(&mut self, sub: usize) -> u64 {
        if self.case.max_delay == 0 {
            return 0;
        }
        let s = &mut self.subs[sub];
        s.events += 1;
        Prng::new(self.case.delay_seed ^ ((sub as u64) << 32) ^ s.events).below(self.case.max_delay as u64 + 1)
    }

    fn re_answer(&mut self, sub: usize, bytes: &[u8], re: &RAns, seq: u64) -> Reply {
        let (accepted, reply) = match re {
            RAns::Accept => (true, Reply::Ok(tx_response(bytes, 0, String::new()))),
            RAns::CacheHit => (false, Reply::Ok(tx_response(bytes, 19, "tx already in mempool cache".into()))),
            RAns::Refuse { code } => (false, Reply::Ok(tx_response(bytes, REJECT_CODES[*code as usize % REJECT_CODES.len()], "refused".into()))),
            RAns::SequenceRefuse { expected } => (false, Reply::Ok(tx_response(bytes, 32, seq_text(*expected as u64, seq)))),
        };
        self.trace.push(Ev::Rebroadcast { sub, bytes: bytes.to_vec(), accepted });
        reply
    }

    fn on_broadcast(&mut self, inc: &Incoming) -> Reply {
        let Some(req) = inc.decode::<ptx::BroadcastTxRequest>() else {
            self.trace.push(Ev::Foreign { what: "undecodable BroadcastTxRequest".into() });
            return Reply::Status { code: 3, message: "bad request".into(), trailers_only: true };
        };
        let bytes = req.tx_bytes;
        let Some(d) = decode_tx(&bytes, &self.vk) else {
            self.trace.push(Ev::Foreign { what: "undecodable tx".into() });
            return Reply::Ok(tx_response(&bytes, 2, "tx parse error".into()));
        };
        let Some(sub) = d.memo.strip_prefix("sub-").and_then(|s| s.parse::<usize>().ok()).filter(|s| *s < self.subs.len()) else {
            self.trace.push(Ev::Foreign { what: format!("tx with unknown memo {:?}", d.memo) });
            return Reply::Ok(tx_response(&bytes, 2, "unknown".into()));
        };
        if req.mode != ptx::BroadcastMode::Sync as i32 {
            self.trace.push(Ev::Foreign { what: format!("broadcast mode {}", req.mode) });
        }
        if let Some(re) = self.subs[sub].awaiting_re.take() {
            return self.re_answer(sub, &bytes, &re, d.seq);
        }
        let spec = self.case.subs.get(sub).cloned();
        let idx = self.subs[sub].b_idx;
        self.subs[sub].b_idx += 1;
        let ans = spec.and_then(|s| s.broadcast.get(idx).cloned()).unwrap_or(BAns::Accept);
        let (kind, reply) = match &ans {
            BAns::Accept => (BKind::Accept, Reply::Ok(tx_response(&bytes, 0, String::new()))),
            BAns::CacheHit => (BKind::CacheHit, Reply::Ok(tx_response(&bytes, 19, "tx already in mempool cache".into()))),
            BAns::Mismatch { expected, form } => {
                let n = match expected {
                    Expect::Abs(n) => *n as u64,
                    Expect::Rel(dl) => if *dl >= 0 { d.seq.saturating_add(*dl as u64) } else { d.seq.saturating_sub(dl.unsigned_abs() as u64) },
                };
                let text = seq_text(n, d.seq);
                let reply = match form {
                    Form::Code32 => Reply::Ok(tx_response(&bytes, 32, text)),
                    Form::Code3 => Reply::Ok(tx_response(&bytes, 3, text)),
                    Form::Grpc { code } => Reply::Status { code: *code as i32, message: format!("rpc error: {text}"), trailers_only: (n % 2) == 0 },
                };
                (BKind::Mismatch(n), reply)
            }
            BAns::Unparsable { kind } => {
                let text = match kind % 4 {
                    0 => "account sequence mismatch, expected 12".to_string(),
                    1 => "account sequence mismatch, expected many, got 3: incorrect account sequence".to_string(),
                    2 => "incorrect account sequence".to_string(),
                    _ => "account sequence mismatch, expected -4, got 3".to_string(),
                };
                (BKind::Fail, Reply::Ok(tx_response(&bytes, 32, text)))
            }
            BAns::Reject { code } => (BKind::Fail, Reply::Ok(tx_response(&bytes, REJECT_CODES[*code as usize % REJECT_CODES.len()], "rejected by check-tx".into()))),
            BAns::GrpcFail { code } => (BKind::Fail, Reply::Status { code: *code as i32, message: "broadcast failed for unrelated reasons".into(), trailers_only: true }),
        };
        if matches!(kind, BKind::Accept | BKind::CacheHit) {
            self.hashes.insert(tx_hash(&bytes), sub);
        }
        let kind_ok = self.case.subs.get(sub).map(|s| s.blob == d.is_blob).unwrap_or(!d.is_blob);
        self.trace.push(Ev::Sign { sub, seq: d.seq, body: d.body, sig_ok: d.sig_ok, fields_ok: d.fields_ok && kind_ok, bytes, ans: kind });
        reply
    }

    fn on_status(&mut self, inc: &Incoming) -> Reply {
        let Some(req) = inc.decode::<ptxs::TxStatusRequest>() else {
            self.trace.push(Ev::Foreign { what: "undecodable TxStatusRequest".into() });
            return Reply::Status { code: 3, message: "bad request".into(), trailers_only: true };
        };
        let Some(&sub) = self.hashes.get(&req.tx_id.to_uppercase()) else {
            self.trace.push(Ev::Foreign { what: format!("status query for a hash the node never accepted: {}", req.tx_id) });
            return Reply::Ok(status_response("COMMITTED", 5, 0, ""));
        };
        let idx = self.subs[sub].s_idx;
        self.subs[sub].s_idx += 1;
        let ans = self.case.subs.get(sub).and_then(|s| s.status.get(idx).cloned()).unwrap_or(SAns::CommittedOk);
        let reply = match &ans {
            SAns::Pending => Reply::Ok(status_response("PENDING", 0, 0, "")),
            SAns::CommittedOk => Reply::Ok(status_response("COMMITTED", 100 + sub as i64, 0, "")),
            SAns::CommittedFail { code } => Reply::Ok(status_response("COMMITTED", 100 + sub as i64, REJECT_CODES[*code as usize % REJECT_CODES.len()], "execution failed")),
            SAns::Rejected { code, seq_code } => {
                let c = if *seq_code { if code % 2 == 0 { 32 } else { 3 } } else { REJECT_CODES[*code as usize % REJECT_CODES.len()] };
                Reply::Ok(status_response("REJECTED", 0, c, "rejected in prepare proposal"))
            }
            SAns::Evicted { re } => {
                self.subs[sub].awaiting_re = Some(re.clone());
                Reply::Ok(status_response("EVICTED", 0, 0, ""))
            }
            SAns::Unknown { re } => {
                self.subs[sub].awaiting_re = Some(re.clone());
                Reply::Ok(status_response("UNKNOWN", 0, 0, ""))
            }
        };
        self.trace.push(Ev::Status { sub, ans });
        reply
    }
}

// ---------------------------------------------------------------------------------------------------------------
// scenario

fn signing_key() -> SigningKey {
    SigningKey::from_slice(&[0x43; 32]).unwrap()
}

fn initial_sequence(case: &Case) -> u64 {
    if case.high { (1u64 << 40) + case.initial_seq as u64 } else { case.initial_seq as u64 }
}

fn run_scenario(case: &Case) -> Vec<Ev> {
    let sk = signing_key();
    let vk = *sk.verifying_key();
    let address = AccAddress::from(vk);
    // chain state answer
    let chain = build_chain(&simple_chain_spec(7, 10, 1, TimeBase::Fixed(1_700_000_000), 1000));
    let header = chain.headers[0].header.clone();
    assert_eq!(header.chain_id.as_str(), CHAIN_ID);
    let block = Block::new(header, Data { txs: vec![], square_size: 1, hash: vec![0; 32] }, Default::default(), None);
    let block_msg = GetLatestBlockResponse { block_id: None, block: Some(RawBlock::from(block)), sdk_block: None }.encode_to_vec();
    let base = pauth::BaseAccount { address: address.to_string(), pub_key: None, account_number: ACCOUNT_NUMBER, sequence: initial_sequence(case) };
    let account_msg = pauth::QueryAccountResponse { account: Some(Any { type_url: pauth::BaseAccount::type_url(), value: base.encode_to_vec() }) }.encode_to_vec();

    let total = case.subs.len() + usize::from(case.tail);
    let node = Arc::new(Mutex::new(Node {
        case: case.clone(),
        trace: Vec::new(),
        subs: (0..total).map(|_| SubNode { b_idx: 0, s_idx: 0, awaiting_re: None, events: 0 }).collect(),
        hashes: BTreeMap::new(),
        block: block_msg,
        account: account_msg,
        vk,
    }));

    let handler: Handler = {
        let node = node.clone();
        Arc::new(move |inc: Incoming| {
            let node = node.clone();
            Box::pin(async move {
                // delay first (keyed by the submission when it can be told), then decide + record atomically
                let delay = {
                    let mut n = node.lock().unwrap();
                    let sub = match inc.path.as_str() {
                        P_BROADCAST => inc
                            .decode::<ptx::BroadcastTxRequest>()
                            .and_then(|r| decode_tx(&r.tx_bytes, &n.vk))
                            .and_then(|d| d.memo.strip_prefix("sub-").and_then(|s| s.parse::<usize>().ok())),
                        P_STATUS => inc.decode::<ptxs::TxStatusRequest>().and_then(|r| n.hashes.get(&r.tx_id.to_uppercase()).copied()),
                        _ => None,
                    };
                    match sub {
                        Some(s) if s < n.subs.len() => n.delay_for(s),
                        _ => 0,
                    }
                };
                if delay > 0 {
                    tokio::time::sleep(Duration::from_millis(delay)).await;
                }
                let mut n = node.lock().unwrap();
                match inc.path.as_str() {
                    P_BLOCK => {
                        n.trace.push(Ev::Block);
                        Reply::Ok(n.block.clone())
                    }
                    P_ACCOUNT => {
                        let seq = initial_sequence(&n.case);
                        n.trace.push(Ev::Account { seq });
                        Reply::Ok(n.account.clone())
                    }
                    P_BROADCAST => n.on_broadcast(&inc),
                    P_STATUS => n.on_status(&inc),
                    other => {
                        n.trace.push(Ev::Foreign { what: format!("unexpected method {other}") });
                        Reply::Status { code: 12, message: "unimplemented".into(), trailers_only: true }
                    }
                }
            })
        })
    };

    let client = GrpcClient::builder().transport(FakeEndpoint::new(0, handler)).signer_keypair(sk).build().expect("client builds");
    let rt = tokio::runtime::Builder::new_current_thread().enable_time().start_paused(true).build().unwrap();
    let from = address.to_string();
    let submit = |client: GrpcClient, node: Arc<Mutex<Node>>, sub: usize, blob: bool, start_delay: u64, interval: u64, from: String| async move {
        if start_delay > 0 {
            tokio::time::sleep(Duration::from_millis(start_delay)).await;
        }
        let msg = MsgSend { from_address: from.clone(), to_address: from, amount: vec![RawCoin { denom: "utia".into(), amount: format!("{}", 1000 + sub) }] };
        let cfg = TxConfig::default().with_gas_limit(100_000).with_gas_price(0.002).with_memo(format!("sub-{sub}")).with_confirmation_interval_ms(interval);
        let res = if blob {
            let ns = Namespace::new_v0(b"c43").expect("namespace");
            let b = Blob::new(ns, format!("blob of submission {sub}").into_bytes(), None, AppVersion::V3).expect("blob");
            client.submit_blobs(&[b], cfg).await
        } else {
            client.submit_message(msg, cfg).await
        };
        let (ok, err) = match &res {
            Ok(_) => (true, String::new()),
            Err(e) => (false, e.to_string()),
        };
        node.lock().unwrap().trace.push(Ev::Done { sub, ok, err });
    };
    rt.block_on(async {
        let mut handles = Vec::new();
        for (i, s) in case.subs.iter().enumerate() {
            handles.push(tokio::spawn(submit(client.clone(), node.clone(), i, s.blob, s.start_delay as u64, s.interval_ms.max(1) as u64, from.clone())));
        }
        for h in handles {
            if let Err(e) = h.await {
                if e.is_panic() {
                    std::panic::resume_unwind(e.into_panic());
                }
            }
        }
        if case.tail {
            submit(client.clone(), node.clone(), case.subs.len(), false, 0, 1, from.clone()).await;
        }
    });
    drop(rt);
    let n = node.lock().unwrap();
    n.trace.clone()
}

// ---------------------------------------------------------------------------------------------------------------
// reference model

#[derive(Clone, Debug, PartialEq, Eq, PartialOrd, Ord)]
struct MState {
    belief: u64,
    /// roll-backs decided by a Rejected status but possibly not applied yet: submission -> sequence
    pending: BTreeMap<usize, u64>,
}

/// all states reachable by applying any sequence of pending roll-backs (each application overwrites the belief)
fn closure(states: &BTreeSet<MState>) -> BTreeSet<MState> {
    let mut out = states.clone();
    let mut frontier: Vec<MState> = states.iter().cloned().collect();
    while let Some(s) = frontier.pop() {
        for (sub, seq) in s.pending.clone() {
            let mut n = s.clone();
            n.pending.remove(&sub);
            n.belief = seq;
            if out.insert(n.clone()) {
                frontier.push(n);
            }
        }
    }
    out
}

#[derive(Default, Clone)]
struct SubModel {
    /// sequence the node told this submission to use, while it still holds the account (signing loop)
    forced: Option<u64>,
    body: Option<Vec<u8>>,
    accepted: Option<(Vec<u8>, u64)>,
    in_loop: bool,
    finished_loop: bool,
    last_status: Option<SAns>,
    done: bool,
}

fn judge(case: &Case, trace: &[Ev], obs: &mut Obs) -> Result<(), Failure> {
    let total = case.subs.len() + usize::from(case.tail);
    let mut subs: Vec<SubModel> = vec![SubModel::default(); total];
    let mut states: BTreeSet<MState> = BTreeSet::new();
    let mut accounts = 0;
    let mut interesting = false;
    let mut holder: Option<usize> = None; // submission currently inside its signing loop (holds the account)
    let brief = |i: usize| -> String {
        let lo = i.saturating_sub(6);
        trace[lo..=i]
            .iter()
            .map(|e| match e {
                Ev::Sign { sub, seq, ans, .. } => format!("Sign(sub{sub},seq={seq},{ans:?})"),
                Ev::Rebroadcast { sub, accepted, .. } => format!("Rebroadcast(sub{sub},accepted={accepted})"),
                Ev::Status { sub, ans, .. } => format!("Status(sub{sub},{ans:?})"),
                Ev::Done { sub, ok, err } => format!("Done(sub{sub},ok={ok},{err})"),
                Ev::Account { seq } => format!("Account(seq={seq})"),
                Ev::Block => "Block".into(),
                Ev::Foreign { what } => format!("Foreign({what})"),
            })
            .collect::<Vec<_>>()
            .join(" -> ")
    };

    for (i, ev) in trace.iter().enumerate() {
        match ev {
            Ev::Block => {}
            Ev::Foreign { what } => {
                obs.fail("C43:unexpected-request", format!("{what}; trace tail: {}", brief(i)))?;
            }
            Ev::Account { seq } => {
                accounts += 1;
                obs.check(accounts == 1, "C43:account-fetched-twice", || format!("account queried {accounts} times; {}", brief(i)))?;
                states = BTreeSet::from([MState { belief: *seq, pending: BTreeMap::new() }]);
            }
            Ev::Sign { sub, seq, body, sig_ok, fields_ok, bytes, ans } => {
                let sm = &mut subs[*sub];
                obs.check(!states.is_empty(), "C43:broadcast-before-account-known", || format!("broadcast before the account was fetched; {}", brief(i)))?;
                obs.check(*sig_ok, "C43:broadcast-signature-invalid", || format!("signature does not verify over (body, auth_info, chain id, account number); {}", brief(i)))?;
                obs.check(*fields_ok, "C43:broadcast-tx-malformed", || format!("unexpected tx structure; {}", brief(i)))?;
                obs.check(!sm.finished_loop && !sm.done, "C43:signed-again-after-broadcast", || {
                    format!("submission {sub} produced a newly signed broadcast after its tx had been handed to the node (eviction must re-broadcast identical bytes, never re-sign); {}", brief(i))
                })?;
                if let Some(b) = &sm.body {
                    obs.check(b == body, "C43:resigned-body-differs", || format!("re-signed tx of submission {sub} has a different body; {}", brief(i)))?;
                }
                sm.body = Some(body.clone());
                match sm.forced {
                    Some(n) => {
                        // still the same account holder: the node's expected value must be used, nothing else may interleave
                        obs.check(*seq == n, "C43:mismatch-not-resynced-to-expected", || {
                            format!("node answered 'expected {n}' to submission {sub}, the re-signed tx carries sequence {seq}; {}", brief(i))
                        })?;
                        obs.label("mismatch-resync-resigned");
                        let keep: BTreeSet<MState> = states.iter().filter(|s| s.belief == *seq).cloned().collect();
                        states = if keep.is_empty() { states.iter().map(|s| MState { belief: *seq, pending: s.pending.clone() }).collect() } else { keep };
                    }
                    None => {
                        if let Some(h) = holder {
                            obs.check(h == *sub, "C43:signing-loops-interleaved", || {
                                format!("submission {sub} broadcast a signed tx while submission {h} was still inside its sign-and-broadcast loop; {}", brief(i))
                            })?;
                        }
                        let cl = closure(&states);
                        if cl.len() > states.len() {
                            obs.label("rollback-order-nondeterministic");
                        }
                        let keep: BTreeSet<MState> = cl.iter().filter(|s| s.belief == *seq).cloned().collect();
                        if keep.is_empty() {
                            let beliefs: BTreeSet<u64> = cl.iter().map(|s| s.belief).collect();
                            obs.fail(
                                "C43:broadcast-sequence-not-believed",
                                format!("submission {sub} broadcast a tx signed with sequence {seq}, but the sequence the client can believe current at this point is one of {beliefs:?}; {}", brief(i)),
                            )?;
                            states = cl.iter().map(|s| MState { belief: *seq, pending: s.pending.clone() }).collect();
                        } else {
                            states = keep;
                        }
                    }
                }
                sm.in_loop = true;
                holder = Some(*sub);
                match ans {
                    BKind::Accept | BKind::CacheHit => {
                        states = states.iter().map(|s| MState { belief: s.belief + 1, pending: s.pending.clone() }).collect();
                        sm.accepted = Some((bytes.clone(), *seq));
                        sm.forced = None;
                        sm.in_loop = false;
                        sm.finished_loop = true;
                        holder = None;
                        obs.label(if *ans == BKind::Accept { "broadcast-accepted" } else { "broadcast-cache-hit" });
                        if *ans == BKind::CacheHit {
                            interesting = true;
                        }
                    }
                    BKind::Mismatch(n) => {
                        states = states.iter().map(|s| MState { belief: *n, pending: s.pending.clone() }).collect();
                        sm.forced = Some(*n);
                        interesting = true;
                        obs.label("mismatch-answered");
                    }
                    BKind::Fail => {
                        sm.forced = None;
                        sm.in_loop = false;
                        sm.finished_loop = true;
                        holder = None;
                        interesting = true;
                        obs.label("broadcast-refused");
                    }
                }
            }
            Ev::Rebroadcast { sub, bytes, accepted } => {
                let sm = &mut subs[*sub];
                interesting = true;
                match &sm.accepted {
                    Some((orig, _)) => {
                        obs.check(orig == bytes, "C43:evicted-tx-resigned", || {
                            let seq = decode_tx(bytes, signing_key().verifying_key()).map(|d| d.seq);
                            format!("tx of submission {sub} was evicted/unknown; the re-broadcast bytes differ from the accepted tx (sequence now {seq:?}); {}", brief(i))
                        })?;
                    }
                    None => obs.fail("C43:rebroadcast-without-accepted-tx", format!("{}", brief(i)))?,
                }
                obs.label(if *accepted { "rebroadcast-accepted" } else { "rebroadcast-refused" });
                // no belief change
            }
            Ev::Status { sub, ans, .. } => {
                let sm = &mut subs[*sub];
                match ans {
                    SAns::Rejected { seq_code, .. } => {
                        interesting = true;
                        if !*seq_code {
                            if let Some((_, seq)) = &sm.accepted {
                                let seq = *seq;
                                states = states
                                    .iter()
                                    .map(|s| {
                                        let mut n = s.clone();
                                        n.pending.insert(*sub, seq);
                                        n
                                    })
                                    .collect();
                            }
                            obs.label("status-rejected-rollback");
                        } else {
                            obs.label("status-rejected-sequence-code");
                        }
                    }
                    SAns::Pending => obs.label("status-pending"),
                    SAns::Evicted { .. } => obs.label("status-evicted"),
                    SAns::Unknown { .. } => obs.label("status-unknown"),
                    SAns::CommittedOk => obs.label("status-committed"),
                    SAns::CommittedFail { .. } => obs.label("status-committed-failed"),
                }
                sm.last_status = Some(ans.clone());
            }
            Ev::Done { sub, ok, err } => {
                let sm = &mut subs[*sub];
                sm.done = true;
                if sm.in_loop {
                    // left the signing loop with an error that never reached the node's script (e.g. parse failure)
                    sm.in_loop = false;
                    if holder == Some(*sub) {
                        holder = None;
                    }
                }
                // every roll-back owed by this submission has been applied before its future resolved
                let cl = closure(&states);
                let keep: BTreeSet<MState> = cl.iter().filter(|s| !s.pending.contains_key(sub)).cloned().collect();
                states = keep;
                obs.label(if *ok { "submission-ok" } else { "submission-err" });
                if !*ok {
                    let class = if err.contains("Broadcasting transaction") {
                        "broadcast-failed"
                    } else if err.contains("execution failed") {
                        "execution-failed"
                    } else if err.contains("was rejected") {
                        "tx-rejected"
                    } else if err.contains("was evicted") {
                        "tx-evicted"
                    } else if err.contains("wasn't found") {
                        "tx-not-found"
                    } else if err.contains("parse expected sequence") {
                        "sequence-parsing-failed"
                    } else if err.starts_with("status:") {
                        "grpc-status"
                    } else {
                        "other"
                    };
                    obs.label(&format!("err:{class}"));
                }
                // result plausibility (labels only; not part of the property)
                match (&sm.last_status, ok) {
                    (Some(SAns::CommittedOk), true) | (None, true) => {}
                    (Some(SAns::CommittedOk), false) | (_, true) => obs.label("result-unexpected-for-script"),
                    _ => {}
                }
            }
        }
    }
    for (i, s) in subs.iter().enumerate() {
        obs.check(s.done, "C43:submission-did-not-finish", || format!("submission {i} never resolved"))?;
    }
    if case.subs.len() >= 2 {
        obs.label(&format!("concurrent-{}", case.subs.len()));
    }
    if case.tail {
        obs.label("tail-submission");
    }
    if case.subs.iter().any(|s| s.blob) {
        obs.label("blob-submission");
        if case.subs.iter().any(|s| !s.blob) && case.subs.len() >= 2 {
            obs.label("blob-and-message-concurrent");
        }
    }
    obs.eval(interesting.then(|| digest_of(case)));
    Ok(())
}

pub fn run(ctx: &mut Ctx) {
    ctx.assume("the client is observed only through what reaches the fake node (decoded BroadcastTx/TxStatus/Account requests, in the order the node decides its answers) plus one completion marker per submission; the client's private sequence variable is inferred by the reference model, not read");
    ctx.assume("roll-backs after a REJECTED status are applied at an unobservable moment between the status answer and the submission's completion: the model keeps every admissible belief (set of states) and flags a broadcast only if no admissible belief matches");
    ctx.assume("interleavings are those tokio's current-thread scheduler produces under generated start delays, polling intervals and per-answer node delays (virtual time); exhaustive model checking of the 3-submission protocol is outside this technique");
    ctx.assume("gas limit and price are set in TxConfig (no simulation / estimation calls); messages are bank MsgSend or a one-blob PayForBlobs; sequences stay far below u64::MAX");
    ctx.essential(&[
        "broadcast-accepted",
        "broadcast-cache-hit",
        "mismatch-answered",
        "mismatch-resync-resigned",
        "broadcast-refused",
        "status-rejected-rollback",
        "status-rejected-sequence-code",
        "status-evicted",
        "status-unknown",
        "rebroadcast-accepted",
        "rebroadcast-refused",
        "rollback-order-nondeterministic",
        "concurrent-2",
        "concurrent-3",
        "tail-submission",
        "blob-submission",
        "blob-and-message-concurrent",
    ]);
    let cases = ctx.tier.pick(10000, 100000);
    ctx.proptest(
        "sequence-protocol",
        "1..3 concurrent submit_message / submit_blobs calls (+ optional trailing one) against a scripted fake node: per submission a list of broadcast answers (accept, mempool-cache hit, sequence mismatch 'expected N' as TxResponse code 32/3 or as gRPC status text, unparsable mismatch, rejection, gRPC failure) and a list of status answers (pending, committed ok/failed, rejected with/without sequence code, evicted/unknown followed by a re-broadcast answer), generated delays. The recorded trace is replayed against the reference model: every signed broadcast carries a sequence the client can believe current; +1 per accepted broadcast or cache hit; 'expected N' forces the re-signed tx (same body) to carry N; re-broadcast after eviction is byte-identical; non-sequence rejection rolls the belief back to that tx's sequence; signing loops never interleave. Non-trivial = a script in which the node answered at least one mismatch, cache hit, refusal, rejection or eviction (distinct by recipe)",
        cases,
        case_strategy,
        |case, obs| {
            let trace = run_scenario(case);
            judge(case, &trace, obs)
        },
    );
}
