//! Harness-side prover for cosmos-sdk style state: an IAVL-shaped tree per store and the multistore
//! "simple" (RFC-6962) merkle tree over (store name -> store root). Roots are computed with `sha2` only; the
//! proofs are emitted as `ics23::ExistenceProof`s in the layout real nodes use (`ics23:iavl` / `ics23:simple`).
#![allow(dead_code)]
use ics23::{ExistenceProof, HashOp, InnerOp, LeafOp, LengthOp};
use lv_common::Prng;
use sha2::{Digest, Sha256};

pub fn sha(b: &[u8]) -> [u8; 32] {
    Sha256::digest(b).into()
}

pub fn uvarint(mut x: u64, out: &mut Vec<u8>) {
    while x >= 0x80 {
        out.push((x as u8) | 0x80);
        x >>= 7;
    }
    out.push(x as u8);
}

/// amino/IAVL signed varint (zig-zag)
pub fn zigzag(x: i64, out: &mut Vec<u8>) {
    uvarint(((x << 1) ^ (x >> 63)) as u64, out);
}

pub fn leaf_op(prefix: Vec<u8>) -> LeafOp {
    LeafOp {
        hash: HashOp::Sha256 as i32,
        prehash_key: HashOp::NoHash as i32,
        prehash_value: HashOp::Sha256 as i32,
        length: LengthOp::VarProto as i32,
        prefix,
    }
}

/// hash of a leaf as both tree kinds define it: H(prefix || len(key) || key || len(H(value)) || H(value))
pub fn leaf_hash(prefix: &[u8], key: &[u8], value: &[u8]) -> [u8; 32] {
    let mut pre = prefix.to_vec();
    uvarint(key.len() as u64, &mut pre);
    pre.extend_from_slice(key);
    uvarint(32, &mut pre);
    pre.extend_from_slice(&sha(value));
    sha(&pre)
}

// ---------------------------------------------------------------------------------------------------------------
// IAVL-shaped store

#[derive(Clone, Debug)]
pub struct KV {
    pub key: Vec<u8>,
    pub value: Vec<u8>,
    pub version: i64,
}

enum Node {
    Leaf { idx: usize, hash: [u8; 32] },
    Inner { height: i64, size: i64, version: i64, hash: [u8; 32], left: Box<Node>, right: Box<Node>, split: usize },
}

impl Node {
    fn hash(&self) -> [u8; 32] {
        match self {
            Node::Leaf { hash, .. } | Node::Inner { hash, .. } => *hash,
        }
    }
    fn height(&self) -> i64 {
        match self {
            Node::Leaf { .. } => 0,
            Node::Inner { height, .. } => *height,
        }
    }
    fn size(&self) -> i64 {
        match self {
            Node::Leaf { .. } => 1,
            Node::Inner { size, .. } => *size,
        }
    }
}

pub struct IavlStore {
    /// sorted by key, keys distinct
    pub kvs: Vec<KV>,
    root: Node,
}

fn iavl_leaf_prefix(version: i64) -> Vec<u8> {
    let mut p = Vec::new();
    zigzag(0, &mut p);
    zigzag(1, &mut p);
    zigzag(version, &mut p);
    p
}

fn iavl_inner_header(height: i64, size: i64, version: i64) -> Vec<u8> {
    let mut p = Vec::new();
    zigzag(height, &mut p);
    zigzag(size, &mut p);
    zigzag(version, &mut p);
    p
}

fn build_iavl(kvs: &[KV], lo: usize, hi: usize, rng: &mut Prng, balanced: bool, max_version: i64) -> Node {
    if hi - lo == 1 {
        let kv = &kvs[lo];
        return Node::Leaf { idx: lo, hash: leaf_hash(&iavl_leaf_prefix(kv.version), &kv.key, &kv.value) };
    }
    let len = hi - lo;
    let split = if balanced { lo + len / 2 } else { lo + 1 + rng.below((len - 1) as u64) as usize };
    let left = build_iavl(kvs, lo, split, rng, balanced, max_version);
    let right = build_iavl(kvs, split, hi, rng, balanced, max_version);
    let height = 1 + left.height().max(right.height());
    let size = left.size() + right.size();
    let version = 1 + rng.below(max_version as u64) as i64;
    let mut pre = iavl_inner_header(height, size, version);
    pre.push(32);
    pre.extend_from_slice(&left.hash());
    pre.push(32);
    pre.extend_from_slice(&right.hash());
    Node::Inner { height, size, version, hash: sha(&pre), left: Box::new(left), right: Box::new(right), split }
}

impl IavlStore {
    /// `kvs` need not be sorted; duplicates (by key) keep the first occurrence.
    pub fn build(mut kvs: Vec<KV>, shape_seed: u64, balanced: bool, max_version: i64) -> IavlStore {
        kvs.sort_by(|a, b| a.key.cmp(&b.key));
        kvs.dedup_by(|b, a| a.key == b.key);
        assert!(!kvs.is_empty());
        let mut rng = Prng::new(shape_seed);
        let root = build_iavl(&kvs, 0, kvs.len(), &mut rng, balanced, max_version.max(1));
        IavlStore { kvs, root }
    }

    pub fn root(&self) -> [u8; 32] {
        self.root.hash()
    }

    pub fn get(&self, key: &[u8]) -> Option<&KV> {
        self.kvs.binary_search_by(|kv| kv.key.as_slice().cmp(key)).ok().map(|i| &self.kvs[i])
    }

    pub fn index_of(&self, key: &[u8]) -> Option<usize> {
        self.kvs.binary_search_by(|kv| kv.key.as_slice().cmp(key)).ok()
    }

    pub fn prove(&self, key: &[u8]) -> Option<ExistenceProof> {
        let idx = self.index_of(key)?;
        let kv = &self.kvs[idx];
        let mut path = Vec::new();
        fn walk(n: &Node, idx: usize, path: &mut Vec<InnerOp>) {
            if let Node::Inner { height, size, version, left, right, split, .. } = n {
                let mut prefix = iavl_inner_header(*height, *size, *version);
                if idx < *split {
                    walk(left, idx, path);
                    prefix.push(32);
                    let mut suffix = vec![32u8];
                    suffix.extend_from_slice(&right.hash());
                    path.push(InnerOp { hash: HashOp::Sha256 as i32, prefix, suffix });
                } else {
                    walk(right, idx, path);
                    prefix.push(32);
                    prefix.extend_from_slice(&left.hash());
                    prefix.push(32);
                    path.push(InnerOp { hash: HashOp::Sha256 as i32, prefix, suffix: vec![] });
                }
            }
        }
        walk(&self.root, idx, &mut path);
        Some(ExistenceProof { key: kv.key.clone(), value: kv.value.clone(), leaf: Some(leaf_op(iavl_leaf_prefix(kv.version))), path })
    }
}

// ---------------------------------------------------------------------------------------------------------------
// multistore: RFC-6962 tree over leaves H(0x00 || len(name) || name || 0x20 || H(store_root))

pub struct MultiStore {
    /// sorted by name
    pub stores: Vec<(String, [u8; 32])>,
}

fn split_point(n: usize) -> usize {
    let mut k = 1;
    while k * 2 < n {
        k *= 2;
    }
    k
}

fn simple_root(leaves: &[[u8; 32]]) -> [u8; 32] {
    match leaves.len() {
        0 => sha(&[]),
        1 => leaves[0],
        n => {
            let k = split_point(n);
            let mut pre = vec![1u8];
            pre.extend_from_slice(&simple_root(&leaves[..k]));
            pre.extend_from_slice(&simple_root(&leaves[k..]));
            sha(&pre)
        }
    }
}

fn simple_path(leaves: &[[u8; 32]], idx: usize, path: &mut Vec<InnerOp>) {
    let n = leaves.len();
    if n <= 1 {
        return;
    }
    let k = split_point(n);
    if idx < k {
        simple_path(&leaves[..k], idx, path);
        path.push(InnerOp { hash: HashOp::Sha256 as i32, prefix: vec![1], suffix: simple_root(&leaves[k..]).to_vec() });
    } else {
        simple_path(&leaves[k..], idx - k, path);
        let mut prefix = vec![1u8];
        prefix.extend_from_slice(&simple_root(&leaves[..k]));
        path.push(InnerOp { hash: HashOp::Sha256 as i32, prefix, suffix: vec![] });
    }
}

impl MultiStore {
    pub fn build(mut stores: Vec<(String, [u8; 32])>) -> MultiStore {
        stores.sort_by(|a, b| a.0.cmp(&b.0));
        stores.dedup_by(|b, a| a.0 == b.0);
        MultiStore { stores }
    }

    fn leaves(&self) -> Vec<[u8; 32]> {
        self.stores.iter().map(|(n, r)| leaf_hash(&[0], n.as_bytes(), r)).collect()
    }

    pub fn app_hash(&self) -> [u8; 32] {
        simple_root(&self.leaves())
    }

    pub fn prove(&self, name: &str) -> Option<ExistenceProof> {
        let idx = self.stores.iter().position(|(n, _)| n == name)?;
        let mut path = Vec::new();
        simple_path(&self.leaves(), idx, &mut path);
        Some(ExistenceProof { key: name.as_bytes().to_vec(), value: self.stores[idx].1.to_vec(), leaf: Some(leaf_op(vec![0])), path })
    }
}

/// Independent recomputation of the root an existence proof commits to (sha2 only, no ics23 code):
/// used by the generator self-check.
pub fn recompute(p: &ExistenceProof) -> [u8; 32] {
    let mut h = leaf_hash(&p.leaf.as_ref().unwrap().prefix, &p.key, &p.value);
    for op in &p.path {
        let mut pre = op.prefix.clone();
        pre.extend_from_slice(&h);
        pre.extend_from_slice(&op.suffix);
        h = sha(&pre);
    }
    h
}
