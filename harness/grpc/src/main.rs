fn main(){}
