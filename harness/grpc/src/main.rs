//! lv-grpc: dispatcher. One module per property; each exposes `pub fn run(ctx: &mut Ctx)`.
use lv_common::{Ctx, parse_args};

mod c43;
mod c44;
mod c45;
mod fake;
mod prover;

fn main() {
    let args = parse_args();
    let level = "exploration";
    let mut ctx = Ctx::from_args(&args, level);
    match args.prop.as_str() {
        "C43" => c43::run(&mut ctx),
        "C44" => c44::run(&mut ctx),
        "C45" => c45::run(&mut ctx),
        other => {
            eprintln!("lv-grpc: unknown property {other}");
            std::process::exit(2);
        }
    }
    ctx.finish();
}
