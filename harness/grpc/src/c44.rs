//! C44 — gRPC calls fail over across endpoints.
//!
//! The real `GrpcClient` (public builder, `.transport(fake)` once per endpoint) runs against 1..5 fake endpoints.
//! Every (call, endpoint) pair has a generated outcome (ok / network error kinds / non-network error kinds) and a
//! generated delay; calls are tagged with an `x-call` metadata entry so the fake node knows which script row applies
//! and records (call, endpoint, path) in a trace. The oracle judges every call from its own trace, its scripted
//! outcomes and the value / error the client returned.
use std::sync::{Arc, Mutex};

use celestia_grpc::grpc::TxPriority;
use celestia_grpc::{Error, GrpcClient};
use celestia_proto::celestia::blob::v1 as pblob;
use celestia_proto::celestia::core::v1::gas_estimation as pgas;
use celestia_proto::cosmos::auth::v1beta1 as pauth;
use celestia_proto::cosmos::base::node::v1beta1 as pnode;
use lv_common::prelude::*;
use prost::Message;

use crate::fake::{FakeEndpoint, Handler, Incoming, Reply, yields};

pub const MAX_EP: usize = 5;

#[derive(Clone, Debug, Serialize, Deserialize, PartialEq)]
pub enum Outcome {
    Ok,
    /// gRPC status code (tonic numbering), delivered trailers-only or as trailers after an empty body
    Status { code: u8, trailers_only: bool },
    /// bare HTTP status without grpc-status
    Http(u16),
    /// the transport future resolves to an error
    Transport,
}

#[derive(Clone, Copy, Debug, PartialEq, Eq)]
pub enum Class {
    Ok,
    Network,
    NonNetwork,
}

const NET_CODES: [u8; 4] = [14, 2, 4, 10]; // Unavailable, Unknown, DeadlineExceeded, Aborted
const NON_NET_CODES: [u8; 12] = [3, 5, 13, 1, 6, 7, 8, 9, 11, 12, 15, 16];
const NET_HTTP: [u16; 5] = [503, 502, 504, 429, 500]; // tonic: 503/502/504/429 -> Unavailable, other -> Unknown
const NON_NET_HTTP: [u16; 4] = [401, 403, 404, 400]; // Unauthenticated, PermissionDenied, Unimplemented, Internal

/// Reference classification, independent of `Error::is_network_error`.
pub fn classify(o: &Outcome) -> Class {
    match o {
        Outcome::Ok => Class::Ok,
        Outcome::Status { code, .. } => {
            if NET_CODES.contains(code) {
                Class::Network
            } else {
                Class::NonNetwork
            }
        }
        Outcome::Http(h) => {
            if NET_HTTP.contains(h) {
                Class::Network
            } else {
                Class::NonNetwork
            }
        }
        Outcome::Transport => Class::Network,
    }
}

fn kind_label(o: &Outcome) -> String {
    match o {
        Outcome::Ok => "ep-ok".into(),
        Outcome::Status { code, trailers_only } => format!("ep-status-{code}{}", if *trailers_only { "-trailers-only" } else { "" }),
        Outcome::Http(h) => format!("ep-http-{h}"),
        Outcome::Transport => "ep-transport-error".into(),
    }
}

#[derive(Clone, Debug, Serialize, Deserialize)]
pub struct CallSpec {
    pub method: u8,
    pub caller: u16,
    pub outcomes: Vec<Outcome>,
    pub delays: Vec<u8>,
}

#[derive(Clone, Debug, Serialize, Deserialize)]
pub struct Case {
    pub n: usize,
    /// 1 = sequential; 2..4 concurrent callers
    pub callers: usize,
    pub multi_thread: bool,
    pub calls: Vec<CallSpec>,
}

fn outcome_strategy() -> impl Strategy<Value = Outcome> {
    prop_oneof![
        30 => Just(Outcome::Ok),
        30 => (0usize..NET_CODES.len(), any::<bool>()).prop_map(|(i, t)| Outcome::Status { code: NET_CODES[i], trailers_only: t }),
        10 => Just(Outcome::Transport),
        6 => (0usize..NET_HTTP.len()).prop_map(|i| Outcome::Http(NET_HTTP[i])),
        16 => (0usize..NON_NET_CODES.len(), any::<bool>()).prop_map(|(i, t)| Outcome::Status { code: NON_NET_CODES[i], trailers_only: t }),
        4 => (0usize..NON_NET_HTTP.len()).prop_map(|i| Outcome::Http(NON_NET_HTTP[i])),
    ]
}

fn call_strategy() -> impl Strategy<Value = CallSpec> {
    (
        0u8..4,
        any::<u16>(),
        prop::collection::vec(outcome_strategy(), MAX_EP),
        prop::collection::vec(0u8..4, MAX_EP),
    )
        .prop_map(|(method, caller, outcomes, delays)| CallSpec { method, caller, outcomes, delays })
}

fn case_strategy(max_calls: usize) -> impl Strategy<Value = Case> {
    (
        1usize..=MAX_EP,
        prop_oneof![3 => Just(1usize), 1 => Just(2usize), 1 => Just(3usize), 1 => Just(4usize)],
        any::<bool>(),
        prop::collection::vec(call_strategy(), 1..=max_calls),
    )
        .prop_map(|(n, callers, multi_thread, calls)| Case { n, callers, multi_thread, calls })
}

const PATHS: [&str; 4] = [
    "/cosmos.auth.v1beta1.Query/Params",
    "/celestia.blob.v1.Query/Params",
    "/celestia.core.v1.gas_estimation.GasEstimator/EstimateGasPrice",
    "/cosmos.base.node.v1beta1.Service/Config",
];

fn ident(call: usize, ep: usize) -> u64 {
    (call as u64) * 8 + ep as u64 + 1
}

fn ok_message(method: u8, id: u64) -> Vec<u8> {
    match method {
        0 => pauth::QueryParamsResponse {
            params: Some(pauth::Params { max_memo_characters: id, tx_sig_limit: 7, tx_size_cost_per_byte: 10, sig_verify_cost_ed25519: 590, sig_verify_cost_secp256k1: 1000 }),
        }
        .encode_to_vec(),
        1 => pblob::QueryParamsResponse { params: Some(pblob::Params { gas_per_blob_byte: 8, gov_max_square_size: id }) }.encode_to_vec(),
        2 => pgas::EstimateGasPriceResponse { estimated_gas_price: id as f64 }.encode_to_vec(),
        _ => pnode::ConfigResponse {
            minimum_gas_price: "0.002utia".into(),
            pruning_keep_recent: "100".into(),
            pruning_interval: "10".into(),
            halt_height: id,
        }
        .encode_to_vec(),
    }
}

#[derive(Debug, Clone)]
struct Ev {
    call: usize,
    endpoint: usize,
    path: String,
    request_ok: bool,
}

#[derive(Debug)]
enum CallResult {
    Ok(u64),
    Err { network: bool, tonic: Option<(i32, String)>, #[allow(dead_code)] text: String },
}

fn err_message(call: usize, ep: usize) -> String {
    format!("scripted failure, call {call} endpoint {ep}")
}

async fn do_call(client: &GrpcClient, method: u8, call: usize) -> CallResult {
    let tag = call.to_string();
    let res: Result<u64, Error> = match method {
        0 => match client.get_auth_params().metadata("x-call", &tag) {
            Ok(c) => c.await.map(|p| p.max_memo_characters),
            Err(e) => Err(e.into()),
        },
        1 => match client.get_blob_params().metadata("x-call", &tag) {
            Ok(c) => c.await.map(|p| p.gov_max_square_size),
            Err(e) => Err(e.into()),
        },
        2 => match client.estimate_gas_price(TxPriority::Medium).metadata("x-call", &tag) {
            Ok(c) => c.await.map(|p| p as u64),
            Err(e) => Err(e.into()),
        },
        _ => match client.get_node_config().metadata("x-call", &tag) {
            Ok(c) => c.await.map(|p| p.halt_height),
            Err(e) => Err(e.into()),
        },
    };
    match res {
        Ok(v) => CallResult::Ok(v),
        Err(e) => {
            let network = e.is_network_error();
            let text = e.to_string();
            let tonic = match &e {
                Error::TonicError(st) => Some((st.code() as i32, st.message().to_string())),
                _ => None,
            };
            CallResult::Err { network, tonic, text }
        }
    }
}

fn run_scenario(case: &Case) -> (Vec<Ev>, Vec<Option<CallResult>>) {
    let n = case.n;
    let probe = case.calls.len();
    // script rows: the generated calls plus one final probe row where every endpoint is Unavailable
    let mut rows: Vec<(u8, Vec<Outcome>, Vec<u8>)> =
        case.calls.iter().map(|c| (c.method, c.outcomes.clone(), c.delays.clone())).collect();
    rows.push((0, vec![Outcome::Status { code: 14, trailers_only: true }; MAX_EP], vec![0; MAX_EP]));
    let rows = Arc::new(rows);
    let trace: Arc<Mutex<Vec<Ev>>> = Arc::new(Mutex::new(Vec::new()));

    let handler: Handler = {
        let rows = rows.clone();
        let trace = trace.clone();
        Arc::new(move |inc: Incoming| {
            let rows = rows.clone();
            let trace = trace.clone();
            Box::pin(async move {
                let call = inc.header_str("x-call").and_then(|s| s.parse::<usize>().ok());
                let Some(call) = call.filter(|c| *c < rows.len()) else {
                    trace.lock().unwrap().push(Ev { call: usize::MAX, endpoint: inc.endpoint, path: inc.path.clone(), request_ok: false });
                    return Reply::Status { code: 13, message: "harness: untagged call".into(), trailers_only: true };
                };
                let (method, outcomes, delays) = &rows[call];
                yields(delays[inc.endpoint]).await;
                let request_ok = inc.well_framed
                    && match method {
                        2 => inc.decode::<pgas::EstimateGasPriceRequest>().map(|r| r.tx_priority == TxPriority::Medium as i32).unwrap_or(false),
                        _ => inc.msg.is_empty(),
                    };
                trace.lock().unwrap().push(Ev { call, endpoint: inc.endpoint, path: inc.path.clone(), request_ok });
                match &outcomes[inc.endpoint] {
                    Outcome::Ok => Reply::Ok(ok_message(*method, ident(call, inc.endpoint))),
                    Outcome::Status { code, trailers_only } => {
                        Reply::Status { code: *code as i32, message: err_message(call, inc.endpoint), trailers_only: *trailers_only }
                    }
                    Outcome::Http(h) => Reply::Http(*h),
                    Outcome::Transport => Reply::Transport(err_message(call, inc.endpoint)),
                }
            })
        })
    };

    let mut builder = GrpcClient::builder();
    for i in 0..n {
        builder = builder.transport(FakeEndpoint::new(i, handler.clone()));
    }
    let client = builder.build().expect("client with fake transports builds");

    let rt = if case.callers > 1 && case.multi_thread {
        tokio::runtime::Builder::new_multi_thread().worker_threads(2).build().unwrap()
    } else {
        tokio::runtime::Builder::new_current_thread().build().unwrap()
    };
    let mut results: Vec<Option<CallResult>> = (0..=probe).map(|_| None).collect();
    let methods: Vec<u8> = case.calls.iter().map(|c| c.method).collect();
    rt.block_on(async {
        if case.callers <= 1 {
            for (i, m) in methods.iter().enumerate() {
                results[i] = Some(do_call(&client, *m, i).await);
            }
        } else {
            let mut lists: Vec<Vec<usize>> = vec![Vec::new(); case.callers];
            for (i, c) in case.calls.iter().enumerate() {
                lists[pick(c.caller, case.callers)].push(i);
            }
            let mut handles = Vec::new();
            for list in lists {
                let client = client.clone();
                let methods = methods.clone();
                handles.push(tokio::spawn(async move {
                    let mut out = Vec::new();
                    for i in list {
                        out.push((i, do_call(&client, methods[i], i).await));
                    }
                    out
                }));
            }
            for h in handles {
                match h.await {
                    Ok(list) => {
                        for (i, r) in list {
                            results[i] = Some(r);
                        }
                    }
                    Err(e) if e.is_panic() => std::panic::resume_unwind(e.into_panic()),
                    Err(_) => {}
                }
            }
        }
        results[probe] = Some(do_call(&client, 0, probe).await);
    });
    drop(rt);
    let tr = trace.lock().unwrap().clone();
    (tr, results)
}

fn judge(case: &Case, trace: &[Ev], results: &[Option<CallResult>], obs: &mut Obs) -> Result<(), Failure> {
    let n = case.n;
    let probe = case.calls.len();
    let sequential = case.callers <= 1;
    let mut prev_winner: Option<usize> = None; // sequential mode: endpoint that answered the previous call
    let mut prev_failed = false;
    let mut exercised = false;
    obs.check(trace.iter().all(|e| e.call != usize::MAX), "C44:untagged-request", || "a request reached the node without its per-call metadata".into())?;

    for call in 0..=probe {
        let (method, outcomes): (u8, Vec<Outcome>) = if call == probe {
            (0, vec![Outcome::Status { code: 14, trailers_only: true }; MAX_EP])
        } else {
            (case.calls[call].method, case.calls[call].outcomes.clone())
        };
        let evs: Vec<&Ev> = trace.iter().filter(|e| e.call == call).collect();
        let t: Vec<usize> = evs.iter().map(|e| e.endpoint).collect();
        let Some(result) = results[call].as_ref() else {
            return Err(Failure::new("C44:call-did-not-complete", format!("call {call} produced no result")));
        };
        let ctx = |extra: &str| format!("call {call} (n={n}, {} mode): tried endpoints {t:?}, scripted {:?}, returned {result:?}: {extra}", if sequential { "sequential" } else { "concurrent" }, &outcomes[..n]);

        obs.check(!t.is_empty(), "C44:no-endpoint-tried", || ctx("no endpoint was contacted"))?;
        if t.is_empty() {
            continue;
        }
        let mut seen = [false; MAX_EP];
        for &e in &t {
            obs.check(!seen[e], "C44:endpoint-tried-twice", || ctx("an endpoint was contacted twice within one call"))?;
            seen[e] = true;
        }
        for e in &evs {
            obs.check(e.path == PATHS[method as usize] && e.request_ok, "C44:request-malformed", || ctx(&format!("request path/body wrong: {}", e.path)))?;
        }
        for &e in &t {
            obs.label(&kind_label(&outcomes[e]));
        }
        // every endpoint tried before the last one must have failed with a network error
        for &e in &t[..t.len() - 1] {
            match classify(&outcomes[e]) {
                Class::Network => {}
                Class::Ok => obs.fail("C44:continued-after-success", ctx(&format!("endpoint {e} answered ok but a later endpoint was still tried")))?,
                Class::NonNetwork => obs.fail("C44:continued-after-non-network-error", ctx(&format!("endpoint {e} returned a non-network error but a later endpoint was still tried")))?,
            }
        }
        let last = *t.last().unwrap();
        if t.len() > 1 {
            exercised = true;
        }
        match classify(&outcomes[last]) {
            Class::Ok => {
                match result {
                    CallResult::Ok(v) => {
                        obs.check(*v == ident(call, last), "C44:wrong-endpoint-answer-returned", || ctx(&format!("returned value {v} is not the answer of endpoint {last}")))?;
                    }
                    CallResult::Err { .. } => obs.fail("C44:error-although-endpoint-succeeded", ctx(&format!("endpoint {last} answered ok but the call returned an error")))?,
                }
                obs.label(if t.len() == 1 { "ok-first-endpoint" } else { "ok-after-failover" });
            }
            Class::NonNetwork => {
                exercised = true;
                match result {
                    CallResult::Ok(_) => obs.fail("C44:ok-without-ok-endpoint", ctx("call returned Ok although the last tried endpoint failed"))?,
                    CallResult::Err { network, tonic, .. } => {
                        obs.check(!*network, "C44:non-network-error-not-returned", || ctx("the returned error is a network error although the last endpoint failed with a non-network error"))?;
                        if let Outcome::Status { code, .. } = &outcomes[last] {
                            let want = (*code as i32, err_message(call, last));
                            obs.check(tonic.as_ref() == Some(&want), "C44:non-network-error-not-returned", || ctx(&format!("expected the endpoint's status {want:?}")))?;
                        }
                    }
                }
                obs.label("err-non-network-stops");
            }
            Class::Network => {
                exercised = true;
                match result {
                    CallResult::Ok(_) => obs.fail("C44:ok-without-ok-endpoint", ctx("call returned Ok although the last tried endpoint failed"))?,
                    CallResult::Err { network, .. } => {
                        // an error was returned: every configured endpoint must have been tried (each exactly once)
                        obs.check(t.len() == n, "C44:error-before-all-endpoints-tried", || ctx(&format!("error returned after {} of {n} endpoints; all of them failed with network errors only", t.len())))?;
                        obs.check(*network, "C44:all-failed-but-not-network-error", || ctx("all endpoints failed with network errors but the returned error is not a network error"))?;
                    }
                }
                obs.label(if call == probe { "probe-full-endpoint-set" } else { "err-all-network" });
            }
        }

        if sequential {
            if call == 0 {
                obs.check(t.iter().enumerate().all(|(i, e)| i == *e), "C44:initial-order-not-configured-order", || ctx("the first call must walk the endpoints in configured order"))?;
            }
            if let Some(p) = prev_winner {
                obs.check(t[0] == p, "C44:winner-not-tried-first-next", || ctx(&format!("the previous call succeeded on endpoint {p}, which must be tried first")))?;
                obs.label("next-call-starts-at-winner");
                if p != 0 {
                    obs.label("next-call-starts-at-nonzero-winner");
                }
            } else if prev_failed && call > 0 {
                obs.label("call-after-failed-call");
            }
            match result {
                CallResult::Ok(_) => {
                    prev_winner = Some(last);
                    prev_failed = false;
                }
                CallResult::Err { .. } => {
                    prev_winner = None;
                    prev_failed = true;
                }
            }
        }
    }
    if sequential {
        obs.label("sequential");
    } else {
        obs.label("concurrent");
        obs.label(if case.multi_thread { "concurrent-multi-thread" } else { "concurrent-single-thread" });
    }
    obs.label(&format!("endpoints-{n}"));
    obs.eval(exercised.then(|| digest_of(case)));
    Ok(())
}

pub fn run(ctx: &mut Ctx) {
    ctx.assume("network error = gRPC status Unavailable/Unknown/DeadlineExceeded/Aborted, a failing transport future, or an HTTP status tonic 0.13 maps to Unavailable/Unknown (429/502/503/504/500); non-network = every other gRPC status and HTTP 400/401/403/404 (tonic's documented HTTP->gRPC mapping is trusted)");
    ctx.assume("fake endpoints are tower services plugged in through the public GrpcClientBuilder::transport; no sockets, no tonic Channel (its own reconnect/timeout layers are not exercised)");
    ctx.assume("concurrent schedules are those tokio produces (current-thread and 2-worker multi-thread runtimes) plus generated yield delays inside the fake node; not an exhaustive interleaving search");
    ctx.assume("position of endpoints other than the winner after a reorder, and the order used after a fully failed call, are not asserted (not stated by the property)");
    ctx.essential(&[
        "ok-first-endpoint",
        "ok-after-failover",
        "err-all-network",
        "err-non-network-stops",
        "next-call-starts-at-nonzero-winner",
        "probe-full-endpoint-set",
        "sequential",
        "concurrent-multi-thread",
        "concurrent-single-thread",
        "ep-transport-error",
        "endpoints-1",
        "endpoints-5",
    ]);
    let cases = ctx.tier.pick(6000, 100000);
    let max_calls = 20;
    ctx.proptest(
        "failover",
        "1..5 fake endpoints x 1..20 calls (4 RPC methods) with a generated outcome and delay per (call, endpoint); sequential or 2..4 concurrent callers, plus a final all-endpoints-fail probe call. Per call: tried endpoints are distinct; all but the last tried failed with network errors; last ok => its answer is returned; last non-network => that error returned; last network => all n endpoints were tried and a network error is returned; sequential: first call walks the configured order, a call after a success starts at the winner. Non-trivial = a case in which at least one call had to fail over or returned an error (distinct by recipe)",
        cases,
        move || case_strategy(max_calls),
        |case, obs| {
            let (trace, results) = run_scenario(case);
            judge(case, &trace, &results, obs)
        },
    );
}
