//! In-memory fake gRPC node: a `tower::Service<http::Request<tonic::body::Body>>` that is plugged into the real
//! `GrpcClient` through the public `GrpcClientBuilder::transport`. It collects the request body, strips the
//! 5-byte gRPC frame prefix and hands (endpoint index, path, headers, message bytes) to a per-check handler
//! which decides the answer; the answer is turned into a well-formed gRPC/HTTP response (or a transport error).
#![allow(dead_code)]
use std::collections::VecDeque;
use std::convert::Infallible;
use std::fmt;
use std::future::Future;
use std::pin::Pin;
use std::sync::Arc;
use std::task::{Context, Poll};

use bytes::{BufMut, Bytes, BytesMut};
use http_body::Frame;
use http_body_util::BodyExt;
use tonic::body::Body as TonicBody;
use tonic::codegen::Service;

/// One request as seen by the fake node.
#[derive(Debug, Clone)]
pub struct Incoming {
    pub endpoint: usize,
    pub path: String,
    pub headers: http::HeaderMap,
    /// prost-encoded request message (frame prefix removed)
    pub msg: Bytes,
    /// false when the request body was not exactly one uncompressed gRPC frame
    pub well_framed: bool,
}

impl Incoming {
    pub fn header_str(&self, name: &str) -> Option<&str> {
        self.headers.get(name).and_then(|v| v.to_str().ok())
    }
    pub fn decode<M: prost::Message + Default>(&self) -> Option<M> {
        M::decode(self.msg.clone()).ok()
    }
}

/// What the fake node answers.
#[derive(Debug, Clone)]
pub enum Reply {
    /// HTTP 200, one data frame holding the prost-encoded message, trailers `grpc-status: 0`
    Ok(Vec<u8>),
    /// gRPC error status; `trailers_only` puts grpc-status into the response headers (no body),
    /// otherwise an empty body followed by a trailers frame
    Status { code: i32, message: String, trailers_only: bool },
    /// bare HTTP status without any grpc-status (what a proxy / load balancer produces)
    Http(u16),
    /// the transport itself fails (connection refused / reset): `Service::call` resolves to Err
    Transport(String),
}

pub type HandlerFuture = Pin<Box<dyn Future<Output = Reply> + Send + 'static>>;
pub type Handler = Arc<dyn Fn(Incoming) -> HandlerFuture + Send + Sync + 'static>;

#[derive(Clone)]
pub struct FakeEndpoint {
    idx: usize,
    handler: Handler,
}

impl FakeEndpoint {
    pub fn new(idx: usize, handler: Handler) -> Self {
        Self { idx, handler }
    }
}

#[derive(Debug)]
pub struct FakeTransportError(pub String);

impl fmt::Display for FakeTransportError {
    fn fmt(&self, f: &mut fmt::Formatter<'_>) -> fmt::Result {
        write!(f, "fake transport error: {}", self.0)
    }
}
impl std::error::Error for FakeTransportError {}

/// Response body made of pre-computed frames.
pub struct FrameBody(VecDeque<Frame<Bytes>>);

impl http_body::Body for FrameBody {
    type Data = Bytes;
    type Error = Infallible;

    fn poll_frame(mut self: Pin<&mut Self>, _cx: &mut Context<'_>) -> Poll<Option<Result<Frame<Bytes>, Infallible>>> {
        Poll::Ready(self.0.pop_front().map(Ok))
    }

    fn is_end_stream(&self) -> bool {
        self.0.is_empty()
    }
}

pub fn grpc_frame(msg: &[u8]) -> Bytes {
    let mut b = BytesMut::with_capacity(5 + msg.len());
    b.put_u8(0);
    b.put_u32(msg.len() as u32);
    b.put_slice(msg);
    b.freeze()
}

fn unframe(body: &Bytes) -> (Bytes, bool) {
    if body.len() < 5 || body[0] != 0 {
        return (body.clone(), false);
    }
    let len = u32::from_be_bytes([body[1], body[2], body[3], body[4]]) as usize;
    if body.len() != 5 + len {
        return (body.slice(5..), false);
    }
    (body.slice(5..), true)
}

fn response(status: u16, headers: http::HeaderMap, frames: Vec<Frame<Bytes>>) -> http::Response<FrameBody> {
    let mut r = http::Response::new(FrameBody(frames.into()));
    *r.status_mut() = http::StatusCode::from_u16(status).unwrap();
    *r.headers_mut() = headers;
    r.headers_mut().insert("content-type", http::HeaderValue::from_static("application/grpc"));
    r
}

pub fn build_response(reply: Reply) -> Result<http::Response<FrameBody>, FakeTransportError> {
    match reply {
        Reply::Ok(msg) => {
            let mut trailers = http::HeaderMap::new();
            trailers.insert("grpc-status", http::HeaderValue::from_static("0"));
            Ok(response(200, http::HeaderMap::new(), vec![Frame::data(grpc_frame(&msg)), Frame::trailers(trailers)]))
        }
        Reply::Status { code, message, trailers_only } => {
            let st = tonic::Status::new(tonic::Code::from_i32(code), message);
            let mut map = http::HeaderMap::new();
            st.add_header(&mut map).map_err(|_| FakeTransportError("status not encodable".into()))?;
            if trailers_only {
                Ok(response(200, map, vec![]))
            } else {
                Ok(response(200, http::HeaderMap::new(), vec![Frame::trailers(map)]))
            }
        }
        Reply::Http(code) => Ok(response(code, http::HeaderMap::new(), vec![])),
        Reply::Transport(m) => Err(FakeTransportError(m)),
    }
}

impl Service<http::Request<TonicBody>> for FakeEndpoint {
    type Response = http::Response<FrameBody>;
    type Error = FakeTransportError;
    type Future = Pin<Box<dyn Future<Output = Result<Self::Response, Self::Error>> + Send + 'static>>;

    fn poll_ready(&mut self, _cx: &mut Context<'_>) -> Poll<Result<(), Self::Error>> {
        Poll::Ready(Ok(()))
    }

    fn call(&mut self, req: http::Request<TonicBody>) -> Self::Future {
        let idx = self.idx;
        let handler = self.handler.clone();
        Box::pin(async move {
            let (parts, body) = req.into_parts();
            let collected = match body.collect().await {
                Ok(c) => c.to_bytes(),
                Err(e) => return Err(FakeTransportError(format!("request body: {e}"))),
            };
            let (msg, well_framed) = unframe(&collected);
            let incoming = Incoming { endpoint: idx, path: parts.uri.path().to_string(), headers: parts.headers, msg, well_framed };
            let reply = handler(incoming).await;
            build_response(reply)
        })
    }
}

/// Cooperative delay that works on any runtime flavour without touching the clock.
pub async fn yields(n: u8) {
    for _ in 0..n {
        tokio::task::yield_now().await;
    }
}
