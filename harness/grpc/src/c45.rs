//! C45 — Verified balances are backed by a proof to the header's app hash.
//!
//! A random bank store (IAVL-shaped tree) and multistore (simple merkle tree) are built by the harness prover; the
//! header carries the multistore root as app hash. The real `GrpcClient::get_verified_balance` runs against a fake
//! node answering `ABCIQuery` with value + ProofOps, first honestly and then under a list of tamperings.
use std::sync::{Arc, Mutex};

use celestia_grpc::GrpcClient;
use celestia_proto::cosmos::base::tendermint::v1beta1::{AbciQueryRequest, AbciQueryResponse, ProofOp, ProofOps};
use celestia_types::ExtendedHeader;
use celestia_types::state::{AccAddress, Address};
use ics23::commitment_proof::Proof;
use ics23::{BatchEntry, BatchProof, CommitmentProof, ExistenceProof, HashOp, LengthOp, NonExistenceProof};
use lv_common::Prng;
use lv_common::prelude::*;
use lv_gen::chain::{TimeBase, build_chain, seal, simple_chain_spec};
use prost::Message;
use tendermint::hash::AppHash;

use crate::fake::{FakeEndpoint, Handler, Incoming, Reply};
use crate::prover::{IavlStore, KV, MultiStore, recompute};

const ABCI_PATH: &str = "/cosmos.base.tendermint.v1beta1.Service/ABCIQuery";
const STORE_NAMES: [&str; 18] = [
    "acc", "authz", "blob", "capability", "distribution", "evidence", "feegrant", "gov", "ibc", "icahost", "minfee", "mint", "params", "signal", "slashing",
    "staking", "transfer", "upgrade",
];
const TWIN_STORE: &str = "wasm";

#[derive(Clone, Debug, Serialize, Deserialize)]
pub enum Amount {
    Zero,
    Small(u16),
    Big(u64),
    Max,
    /// decimal above u64::MAX (cosmos amounts are big integers)
    Overflow(u8),
}

impl Amount {
    fn text(&self) -> String {
        match self {
            Amount::Zero => "0".into(),
            Amount::Small(v) => v.to_string(),
            Amount::Big(v) => v.to_string(),
            Amount::Max => u64::MAX.to_string(),
            Amount::Overflow(d) => format!("1844674407370955161{}", 6 + (*d % 4)),
        }
    }
}

#[derive(Clone, Debug, Serialize, Deserialize)]
pub struct AccountSpec {
    pub addr: u64,
    pub amount: Amount,
    /// bit0: also holds "uatom", bit1: "utia2" (key extends the utia key), bit2: "utib"
    pub denoms: u8,
}

#[derive(Clone, Debug, Serialize, Deserialize)]
pub enum Tamper {
    /// one digit of the returned value replaced; `in_proof` edits the ExistenceProof value as well
    ValueDigit { pos: u16, delta: u8, in_proof: bool },
    ValueAppend { digit: u8, in_proof: bool },
    /// returned value := value of another account (proof untouched)
    ValueOfOther,
    OpKey { which: bool, pos: u16, bit: u8 },
    ExistKey { which: bool, pos: u16, bit: u8 },
    /// 0: version+1, 1: extra byte, 2: hash op, 3: length op, 4: prehash_value, 5: prehash_key, 6: prefix emptied
    Leaf { which: bool, kind: u8 },
    /// 0: flip prefix byte, 1: flip suffix byte, 2: drop, 3: duplicate, 4: swap with next, 5: hash op, 6: move sibling hash to the other side
    Inner { which: bool, idx: u16, pos: u16, kind: u8 },
    OpsSwap,
    OpsDrop { which: bool },
    OpsDup { which: bool },
    /// proof of another account answered to this query; with_value also returns that account's value
    OtherAccount { with_value: bool },
    /// proof of the same address under the denom "utia2"
    OtherDenom,
    /// 0: 2nd op proves another store (its own key), 1: same but op key rewritten to "bank",
    /// 2: forged balance proven inside the twin store, ops keyed (key, "wasm"), 3: same with op key "bank", 4: same with op+exist key "bank"
    WrongStore { kind: u8 },
    /// 0: random app hash, 1: bit flip, 2: answer honest for a state where the balance differs (header = real state), 3: header from that other state, answer from the real one
    WrongRoot { kind: u8, seed: u64 },
    /// 0..: unsupported strings; 100: swap the two supported strings
    SpecType { which: bool, kind: u8 },
    EmptyOps { none: bool },
    EmptyValue { keep_proof: bool },
    /// 0: CommitmentProof without proof, 1: non-existence proof wrapping the honest proof as neighbour
    NotExistence { which: bool, kind: u8 },
    /// honest proof wrapped in a batch next to another account's proof
    Batch { which: bool, honest_first: bool },
    /// a chain that is internally consistent for ANOTHER state (different balance) followed by an extra
    /// trailing operation: 0: whose proven value is that other state's root (so the forged chain "links" to
    /// it instead of the app hash), 1: a copy of the honest multistore op, 2: carrying a random value,
    /// 3: honest chain + trailing op carrying the real app hash
    TrailingOp { kind: u8 },
}

#[derive(Clone, Debug, Serialize, Deserialize)]
pub struct Case {
    pub accounts: Vec<AccountSpec>,
    pub extras: u8,
    pub shape_seed: u64,
    pub balanced: bool,
    pub version_bits: u8,
    pub store_mask: u32,
    pub height: u64,
    pub target: u16,
    pub other: u16,
    pub tampers: Vec<Tamper>,
}

fn amount_strategy() -> impl Strategy<Value = Amount> {
    prop_oneof![
        2 => Just(Amount::Zero),
        4 => any::<u16>().prop_map(Amount::Small),
        4 => any::<u64>().prop_map(Amount::Big),
        1 => Just(Amount::Max),
        1 => any::<u8>().prop_map(Amount::Overflow),
    ]
}

fn tamper_strategy() -> impl Strategy<Value = Tamper> {
    prop_oneof![
        3 => (any::<u16>(), 1u8..10, any::<bool>()).prop_map(|(pos, delta, in_proof)| Tamper::ValueDigit { pos, delta, in_proof }),
        1 => (0u8..10, any::<bool>()).prop_map(|(digit, in_proof)| Tamper::ValueAppend { digit, in_proof }),
        1 => Just(Tamper::ValueOfOther),
        2 => (any::<bool>(), any::<u16>(), 0u8..8).prop_map(|(which, pos, bit)| Tamper::OpKey { which, pos, bit }),
        2 => (any::<bool>(), any::<u16>(), 0u8..8).prop_map(|(which, pos, bit)| Tamper::ExistKey { which, pos, bit }),
        3 => (any::<bool>(), 0u8..7).prop_map(|(which, kind)| Tamper::Leaf { which, kind }),
        4 => (any::<bool>(), any::<u16>(), any::<u16>(), 0u8..7).prop_map(|(which, idx, pos, kind)| Tamper::Inner { which, idx, pos, kind }),
        1 => Just(Tamper::OpsSwap),
        1 => any::<bool>().prop_map(|which| Tamper::OpsDrop { which }),
        1 => any::<bool>().prop_map(|which| Tamper::OpsDup { which }),
        2 => any::<bool>().prop_map(|with_value| Tamper::OtherAccount { with_value }),
        1 => Just(Tamper::OtherDenom),
        3 => (0u8..5).prop_map(|kind| Tamper::WrongStore { kind }),
        3 => (0u8..4, any::<u64>()).prop_map(|(kind, seed)| Tamper::WrongRoot { kind, seed }),
        2 => (any::<bool>(), prop_oneof![0u8..6, Just(100u8)]).prop_map(|(which, kind)| Tamper::SpecType { which, kind }),
        1 => any::<bool>().prop_map(|none| Tamper::EmptyOps { none }),
        2 => any::<bool>().prop_map(|keep_proof| Tamper::EmptyValue { keep_proof }),
        1 => (any::<bool>(), 0u8..2).prop_map(|(which, kind)| Tamper::NotExistence { which, kind }),
        1 => (any::<bool>(), any::<bool>()).prop_map(|(which, honest_first)| Tamper::Batch { which, honest_first }),
        3 => (0u8..4).prop_map(|kind| Tamper::TrailingOp { kind }),
    ]
}

fn case_strategy(max_accounts: usize, tampers: usize) -> impl Strategy<Value = Case> {
    (
        prop_oneof![1 => Just(1usize), 1 => 2usize..=3, 6 => 1usize..=max_accounts].prop_flat_map(|n| {
            prop::collection::vec(
                (0u64..200, amount_strategy(), prop_oneof![1 => Just(0u8), 2 => 0u8..8]).prop_map(|(addr, amount, denoms)| AccountSpec { addr, amount, denoms }),
                n..=n,
            )
        }),
        prop_oneof![2 => Just(0u8), 3 => 0u8..6],
        any::<u64>(),
        any::<bool>(),
        0u8..40,
        prop_oneof![1 => Just(0u32), 1 => (0u32..21).prop_map(|b| 1 << b), 6 => any::<u32>()],
        prop_oneof![Just(1u64), Just(2u64), Just(3u64), 4u64..1_000_000],
        any::<u16>(),
        any::<u16>(),
        prop::collection::vec(tamper_strategy(), tampers),
    )
        .prop_map(|(accounts, extras, shape_seed, balanced, version_bits, store_mask, height, target, other, tampers)| Case {
            accounts,
            extras,
            shape_seed,
            balanced,
            version_bits,
            store_mask,
            height,
            target,
            other,
            tampers,
        })
}

fn addr_bytes(seed: u64) -> [u8; 20] {
    // small seed space on purpose: neighbouring keys share long prefixes
    let mut p = Prng::new(seed.wrapping_mul(0x9E37_79B9_7F4A_7C15) ^ 0xC45);
    let mut a: [u8; 20] = p.array();
    if seed % 4 == 0 {
        a[..16].copy_from_slice(&[0xAA; 16]);
    }
    a
}

fn balance_key(addr: &[u8; 20], denom: &str) -> Vec<u8> {
    let mut k = vec![0x02, 20];
    k.extend_from_slice(addr);
    k.extend_from_slice(denom.as_bytes());
    k
}

#[derive(Clone, Debug)]
struct Op {
    ty: String,
    key: Vec<u8>,
    proof: CommitmentProof,
}

#[derive(Clone, Debug)]
struct Answer {
    value: Vec<u8>,
    ops: Option<Vec<Op>>,
    app_hash: Vec<u8>,
}

impl Answer {
    fn fingerprint(&self) -> Vec<u8> {
        let mut v = self.value.clone();
        v.push(0xff);
        v.extend_from_slice(&self.app_hash);
        match &self.ops {
            None => v.push(0),
            Some(ops) => {
                v.push(1);
                for o in ops {
                    v.extend_from_slice(o.ty.as_bytes());
                    v.push(0xfe);
                    v.extend_from_slice(&o.key);
                    v.push(0xfd);
                    v.extend_from_slice(&o.proof.encode_to_vec());
                }
            }
        }
        v
    }
    fn raw(&self, key: &[u8], height: i64) -> AbciQueryResponse {
        AbciQueryResponse {
            code: 0,
            log: String::new(),
            info: String::new(),
            index: 0,
            key: key.to_vec(),
            value: self.value.clone(),
            proof_ops: self.ops.as_ref().map(|ops| ProofOps {
                ops: ops.iter().map(|o| ProofOp { r#type: o.ty.clone(), key: o.key.clone(), data: o.proof.encode_to_vec() }).collect(),
            }),
            height,
            codespace: String::new(),
        }
    }
}

fn exist(p: ExistenceProof) -> CommitmentProof {
    CommitmentProof { proof: Some(Proof::Exist(p)) }
}

fn exist_mut(op: &mut Op) -> Option<&mut ExistenceProof> {
    match op.proof.proof.as_mut()? {
        Proof::Exist(e) => Some(e),
        _ => None,
    }
}

struct World {
    bank: IavlStore,
    twin: IavlStore,
    multi: MultiStore,
    /// bank state in which the target's balance is different, and its multistore
    bank2: IavlStore,
    multi2: MultiStore,
    target_addr: [u8; 20],
    target_key: Vec<u8>,
    target_value: Vec<u8>,
    other_key: Option<Vec<u8>>,
    denom2_key: Option<Vec<u8>>,
}

fn build_world(case: &Case) -> World {
    let max_version = 1i64 << case.version_bits.min(40);
    let mut vr = Prng::new(case.shape_seed ^ 0x5eed);
    let mut kvs: Vec<KV> = Vec::new();
    let mut seen = std::collections::BTreeSet::new();
    let mut accts: Vec<(&AccountSpec, [u8; 20])> = Vec::new();
    for a in &case.accounts {
        if !seen.insert(a.addr) {
            continue;
        }
        let addr = addr_bytes(a.addr);
        accts.push((a, addr));
        let mut put = |k: Vec<u8>, v: String| kvs.push(KV { key: k, value: v.into_bytes(), version: 1 + vr.below(max_version as u64) as i64 });
        put(balance_key(&addr, "utia"), a.amount.text());
        if a.denoms & 1 != 0 {
            put(balance_key(&addr, "uatom"), "77".into());
        }
        if a.denoms & 2 != 0 {
            put(balance_key(&addr, "utia2"), "999999".into());
        }
        if a.denoms & 4 != 0 {
            put(balance_key(&addr, "utib"), "5".into());
        }
    }
    for i in 0..case.extras {
        // supply / denom metadata / params style keys around the balances prefix
        let k = match i % 3 {
            0 => [vec![0x00], format!("utia{i}").into_bytes()].concat(),
            1 => [vec![0x01], format!("meta{i}").into_bytes()].concat(),
            _ => [vec![0x03], format!("denomidx{i}").into_bytes()].concat(),
        };
        kvs.push(KV { key: k, value: format!("{}", 1000 + i as u32).into_bytes(), version: 1 + vr.below(max_version as u64) as i64 });
    }
    let ti = pick(case.target, accts.len());
    let (tspec, taddr) = (accts[ti].0, accts[ti].1);
    let target_key = balance_key(&taddr, "utia");
    let target_value = tspec.amount.text().into_bytes();
    let oi = pick(case.other, accts.len());
    let other_key = (oi != ti).then(|| balance_key(&accts[oi].1, "utia"));
    let denom2_key = (tspec.denoms & 2 != 0).then(|| balance_key(&taddr, "utia2"));

    let bank = IavlStore::build(kvs.clone(), case.shape_seed, case.balanced, max_version);
    // second state: target balance changed (one more digit), same everything else
    let mut kvs2 = kvs.clone();
    for kv in kvs2.iter_mut() {
        if kv.key == target_key {
            kv.value = if kv.value == b"0" { b"1".to_vec() } else { [kv.value.clone(), b"0".to_vec()].concat() };
        }
    }
    let bank2 = IavlStore::build(kvs2, case.shape_seed, case.balanced, max_version);
    // twin store: holds the target's bank key with a forged (bigger) balance
    let twin = IavlStore::build(
        vec![
            KV { key: target_key.clone(), value: b"123456789012".to_vec(), version: 3 },
            KV { key: b"contract/state".to_vec(), value: b"x".to_vec(), version: 2 },
            KV { key: [target_key.clone(), b"z".to_vec()].concat(), value: b"1".to_vec(), version: 1 },
        ],
        case.shape_seed ^ 1,
        false,
        max_version,
    );
    let mut rr = Prng::new(case.shape_seed ^ 0x0570_7e5);
    let mut stores: Vec<(String, [u8; 32])> = Vec::new();
    for (i, n) in STORE_NAMES.iter().enumerate() {
        if case.store_mask & (1 << i) != 0 {
            stores.push((n.to_string(), rr.array()));
        }
    }
    if case.store_mask & (1 << 20) != 0 {
        stores.push((TWIN_STORE.to_string(), twin.root()));
    }
    let mut stores2 = stores.clone();
    stores.push(("bank".into(), bank.root()));
    stores2.push(("bank".into(), bank2.root()));
    World {
        bank,
        twin,
        multi: MultiStore::build(stores),
        bank2,
        multi2: MultiStore::build(stores2),
        target_addr: taddr,
        target_key,
        target_value,
        other_key,
        denom2_key,
    }
}

fn honest_answer(w: &World, bank: &IavlStore, multi: &MultiStore, key: &[u8]) -> Answer {
    let p0 = bank.prove(key).expect("key in bank store");
    let p1 = multi.prove("bank").expect("bank store in multistore");
    Answer {
        value: p0.value.clone(),
        ops: Some(vec![
            Op { ty: "ics23:iavl".into(), key: key.to_vec(), proof: exist(p0) },
            Op { ty: "ics23:simple".into(), key: b"bank".to_vec(), proof: exist(p1) },
        ]),
        app_hash: w.multi.app_hash().to_vec(),
    }
}

#[derive(Clone, Copy, PartialEq, Eq, Debug)]
enum Strict {
    /// the answer no longer links (key, returned value) to the app hash: must be rejected
    MustReject,
    /// structural variation of a possibly still valid chain: only "Ok(c) => c is the committed balance" is asserted
    SoundOnly,
}

fn flip(v: &mut Vec<u8>, pos: u16, bit: u8) -> bool {
    if v.is_empty() {
        return false;
    }
    let p = pick(pos, v.len());
    v[p] ^= 1 << (bit % 8);
    true
}

/// Apply a tampering to the honest answer. None = not applicable to this world (counted as no-op).
fn apply(t: &Tamper, w: &World, honest: &Answer) -> Option<(Answer, Strict, &'static str)> {
    let mut a = honest.clone();
    let idx = |which: bool| if which { 1usize } else { 0usize };
    let r = match t {
        Tamper::ValueDigit { pos, delta, in_proof } => {
            let p = pick(*pos, a.value.len());
            let d = a.value[p] - b'0';
            let nd = (d + *delta) % 10;
            if nd == d {
                return None;
            }
            a.value[p] = b'0' + nd;
            if *in_proof {
                exist_mut(&mut a.ops.as_mut()?[0])?.value = a.value.clone();
            }
            (Strict::MustReject, if *in_proof { "value-digit-also-in-proof" } else { "value-digit" })
        }
        Tamper::ValueAppend { digit, in_proof } => {
            a.value.push(b'0' + digit % 10);
            if *in_proof {
                exist_mut(&mut a.ops.as_mut()?[0])?.value = a.value.clone();
            }
            (Strict::MustReject, "value-append")
        }
        Tamper::ValueOfOther => {
            let k = w.other_key.as_ref()?;
            let v = w.bank.get(k)?.value.clone();
            if v == a.value {
                return None;
            }
            a.value = v;
            (Strict::MustReject, "value-of-other-account")
        }
        Tamper::OpKey { which, pos, bit } => {
            let op = &mut a.ops.as_mut()?[idx(*which)];
            if !flip(&mut op.key, *pos, *bit) {
                return None;
            }
            (Strict::MustReject, if *which { "op-key-store" } else { "op-key-account" })
        }
        Tamper::ExistKey { which, pos, bit } => {
            let e = exist_mut(&mut a.ops.as_mut()?[idx(*which)])?;
            if !flip(&mut e.key, *pos, *bit) {
                return None;
            }
            (Strict::MustReject, if *which { "exist-key-store" } else { "exist-key-account" })
        }
        Tamper::Leaf { which, kind } => {
            let e = exist_mut(&mut a.ops.as_mut()?[idx(*which)])?;
            let leaf = e.leaf.as_mut()?;
            match kind {
                0 => {
                    let last = leaf.prefix.len() - 1;
                    leaf.prefix[last] = leaf.prefix[last].wrapping_add(2) & 0x7f;
                }
                1 => leaf.prefix.push(0x02),
                2 => leaf.hash = HashOp::Sha512 as i32,
                3 => leaf.length = LengthOp::NoPrefix as i32,
                4 => leaf.prehash_value = HashOp::NoHash as i32,
                5 => leaf.prehash_key = HashOp::Sha256 as i32,
                _ => leaf.prefix.clear(),
            }
            (Strict::MustReject, "leaf-op")
        }
        Tamper::Inner { which, idx: i, pos, kind } => {
            let e = exist_mut(&mut a.ops.as_mut()?[idx(*which)])?;
            if e.path.is_empty() {
                return None;
            }
            let k = pick(*i, e.path.len());
            match kind {
                0 => {
                    if !flip(&mut e.path[k].prefix, *pos, (*pos % 8) as u8) {
                        return None;
                    }
                }
                1 => {
                    if !flip(&mut e.path[k].suffix, *pos, (*pos % 8) as u8) {
                        return None;
                    }
                }
                2 => {
                    e.path.remove(k);
                }
                3 => {
                    let d = e.path[k].clone();
                    e.path.insert(k, d);
                }
                4 => {
                    if k + 1 >= e.path.len() || e.path[k] == e.path[k + 1] {
                        return None;
                    }
                    e.path.swap(k, k + 1);
                }
                5 => e.path[k].hash = HashOp::Sha512 as i32,
                _ => {
                    // move the sibling hash to the other side (mirror the step)
                    let op = &mut e.path[k];
                    if op.suffix.is_empty() {
                        // we were the right child: prefix = hdr || [20] left || [20]  (iavl)  or 01 || left (simple)
                        if *which {
                            if op.prefix.len() != 33 {
                                return None;
                            }
                            op.suffix = op.prefix.split_off(1);
                        } else {
                            if op.prefix.len() < 34 {
                                return None;
                            }
                            let cut = op.prefix.len() - 34;
                            let mut tail = op.prefix.split_off(cut); // [20] left [20]
                            tail.pop();
                            op.prefix.push(32);
                            op.suffix = tail;
                        }
                    } else if *which {
                        let s = std::mem::take(&mut op.suffix);
                        op.prefix.extend_from_slice(&s);
                    } else {
                        let s = std::mem::take(&mut op.suffix); // [20] right
                        if s.len() != 33 {
                            return None;
                        }
                        op.prefix.extend_from_slice(&s[1..]);
                        op.prefix.push(32);
                    }
                }
            }
            (Strict::MustReject, "inner-op")
        }
        Tamper::OpsSwap => {
            a.ops.as_mut()?.swap(0, 1);
            (Strict::MustReject, "ops-swapped")
        }
        Tamper::OpsDrop { which } => {
            a.ops.as_mut()?.remove(idx(*which));
            (Strict::MustReject, "ops-dropped")
        }
        Tamper::TrailingOp { kind } => {
            let forged = honest_answer(w, &w.bank2, &w.multi2, &w.target_key);
            let mut extra = w.multi2.prove("bank")?;
            extra.path.clear();
            let strict;
            match kind {
                0 => {
                    extra.value = w.multi2.app_hash().to_vec();
                    a.value = forged.value.clone();
                    a.ops = forged.ops.clone();
                    strict = Strict::MustReject;
                }
                1 => {
                    let honest_op = a.ops.as_ref()?[1].clone();
                    a.ops.as_mut()?.push(honest_op);
                    return Some((a, Strict::MustReject, "trailing-op"));
                }
                2 => {
                    extra.value = vec![0x5a; 32];
                    a.value = forged.value.clone();
                    a.ops = forged.ops.clone();
                    strict = Strict::MustReject;
                }
                _ => {
                    extra.value = w.multi.app_hash().to_vec();
                    strict = Strict::MustReject;
                }
            }
            a.ops.as_mut()?.push(Op { ty: "ics23:simple".into(), key: b"bank".to_vec(), proof: exist(extra) });
            (strict, "trailing-op")
        }
        Tamper::OpsDup { which } => {
            let ops = a.ops.as_mut()?;
            let d = ops[idx(*which)].clone();
            ops.insert(idx(*which), d);
            (Strict::MustReject, "ops-duplicated")
        }
        Tamper::OtherAccount { with_value } => {
            let k = w.other_key.as_ref()?;
            let p = w.bank.prove(k)?;
            if *with_value {
                a.value = p.value.clone();
            }
            a.ops.as_mut()?[0] = Op { ty: "ics23:iavl".into(), key: k.clone(), proof: exist(p) };
            (Strict::MustReject, "other-account-proof")
        }
        Tamper::OtherDenom => {
            let k = w.denom2_key.as_ref()?;
            let p = w.bank.prove(k)?;
            a.value = p.value.clone();
            a.ops.as_mut()?[0] = Op { ty: "ics23:iavl".into(), key: k.clone(), proof: exist(p) };
            (Strict::MustReject, "other-denom-proof")
        }
        Tamper::WrongStore { kind } => {
            match kind {
                0 | 1 => {
                    let (name, _) = w.multi.stores.iter().find(|(n, _)| n != "bank")?.clone();
                    let p = w.multi.prove(&name)?;
                    let key = if *kind == 0 { name.into_bytes() } else { b"bank".to_vec() };
                    a.ops.as_mut()?[1] = Op { ty: "ics23:simple".into(), key, proof: exist(p) };
                }
                _ => {
                    let p0 = w.twin.prove(&w.target_key)?;
                    let mut p1 = w.multi.prove(TWIN_STORE)?;
                    a.value = p0.value.clone();
                    let key1 = if *kind == 2 { TWIN_STORE.as_bytes().to_vec() } else { b"bank".to_vec() };
                    if *kind == 4 {
                        p1.key = b"bank".to_vec();
                    }
                    *a.ops.as_mut()? = vec![
                        Op { ty: "ics23:iavl".into(), key: w.target_key.clone(), proof: exist(p0) },
                        Op { ty: "ics23:simple".into(), key: key1, proof: exist(p1) },
                    ];
                }
            }
            (Strict::MustReject, if *kind < 2 { "wrong-store-proof" } else { "forged-balance-in-other-store" })
        }
        Tamper::WrongRoot { kind, seed } => {
            match kind {
                0 => a.app_hash = Prng::new(*seed).bytes(32),
                1 => {
                    flip(&mut a.app_hash, *seed as u16, (*seed >> 16) as u8);
                }
                2 => {
                    // answer is honest for state 2 (different balance), header stays at state 1
                    let mut b = honest_answer(w, &w.bank2, &w.multi2, &w.target_key);
                    b.app_hash = a.app_hash.clone();
                    a = b;
                }
                _ => a.app_hash = w.multi2.app_hash().to_vec(),
            }
            (Strict::MustReject, "wrong-root")
        }
        Tamper::SpecType { which, kind } => {
            let ops = a.ops.as_mut()?;
            if *kind == 100 {
                ops[idx(*which)].ty = if *which { "ics23:iavl".into() } else { "ics23:simple".into() };
                (Strict::SoundOnly, "spec-type-swapped")
            } else {
                ops[idx(*which)].ty = ["ics23:smt", "", "ics23:IAVL", "iavl", "ics23:iavl ", "ics23:tendermint"][*kind as usize % 6].into();
                (Strict::MustReject, "spec-type-unsupported")
            }
        }
        Tamper::EmptyOps { none } => {
            a.ops = if *none { None } else { Some(vec![]) };
            (Strict::MustReject, "empty-ops")
        }
        Tamper::EmptyValue { keep_proof } => {
            a.value.clear();
            if !*keep_proof {
                a.ops = None;
            }
            (Strict::SoundOnly, "empty-value")
        }
        Tamper::NotExistence { which, kind } => {
            let op = &mut a.ops.as_mut()?[idx(*which)];
            if *kind == 0 {
                op.proof = CommitmentProof { proof: None };
            } else {
                let e = exist_mut(op)?.clone();
                op.proof = CommitmentProof { proof: Some(Proof::Nonexist(NonExistenceProof { key: op.key.clone(), left: Some(e.clone()), right: Some(e) })) };
            }
            (Strict::MustReject, "not-an-existence-proof")
        }
        Tamper::Batch { which, honest_first } => {
            let other = if *which {
                let (name, _) = w.multi.stores.iter().find(|(n, _)| n != "bank")?.clone();
                w.multi.prove(&name)?
            } else {
                w.bank.prove(w.other_key.as_ref()?)?
            };
            let op = &mut a.ops.as_mut()?[idx(*which)];
            let e = exist_mut(op)?.clone();
            let ent = |p: ExistenceProof| BatchEntry { proof: Some(ics23::batch_entry::Proof::Exist(p)) };
            let entries = if *honest_first { vec![ent(e), ent(other)] } else { vec![ent(other), ent(e)] };
            op.proof = CommitmentProof { proof: Some(Proof::Batch(BatchProof { entries })) };
            (Strict::SoundOnly, "batch-proof")
        }
    };
    Some((a, r.0, r.1))
}

struct Shared {
    response: AbciQueryResponse,
    requests: Vec<(String, Option<AbciQueryRequest>)>,
}

pub fn run(ctx: &mut Ctx) {
    ctx.assume("ground truth = the balance string the harness committed under key 0x02|len|addr|\"utia\" in the bank store whose root, through the multistore leaf \"bank\", hashes (sha2, harness code) to the header's app hash");
    ctx.assume("the header is built by the harness chain generator and re-sealed after setting app_hash; get_verified_balance is given that header directly (header validation itself is C01/C02)");
    ctx.assume("sha256 collision resistance: any byte change in a leaf/inner op or key/value is taken to change the computed root");
    ctx.assume("spec-type swaps between the two supported strings, batch-wrapped proofs and empty values are judged only by 'Ok(c) => c is the committed balance' (the chain may legitimately still verify)");
    ctx.essential(&[
        "honest-ok",
        "value-digit",
        "value-digit-also-in-proof",
        "op-key-account",
        "op-key-store",
        "exist-key-account",
        "exist-key-store",
        "leaf-op",
        "inner-op",
        "ops-swapped",
        "ops-dropped",
        "ops-duplicated",
        "other-account-proof",
        "other-denom-proof",
        "wrong-store-proof",
        "forged-balance-in-other-store",
        "wrong-root",
        "spec-type-unsupported",
        "spec-type-swapped",
        "empty-ops",
        "empty-value",
        "empty-value-funded-account",
        "not-an-existence-proof",
        "batch-proof",
        "tampered-rejected",
        "single-account-store",
        "single-store-multistore",
        "structural-variant-still-verifies",
        "honest-amount-overflows-u64-rejected",
        "deep-path",
    ]);
    let cases = ctx.tier.pick(10000, 40000);
    let max_accounts = ctx.tier.pick(40, 120);
    let tampers = ctx.tier.pick(15, 24);
    ctx.proptest(
        "verified-balance",
        "random bank stores (1..40 accounts, several denoms per account, non-balance keys, random tree shapes/versions) inside a multistore of 1..20 stores; get_verified_balance through the real client against a fake ABCIQuery node: the honest answer must give Ok(committed amount); each of 15 generated tamperings (value, keys, leaf op, inner ops, op order/drop/dup, other account/denom proof, other store / forged twin store, wrong root, spec string, empty ops, empty value, non-existence, batch) must be rejected when it breaks the link, and any Ok(c) must equal the committed balance. Non-trivial = an applicable tampering whose answer differs from the honest one (distinct by answer bytes)",
        cases,
        move || case_strategy(max_accounts, tampers),
        |case, obs| run_case(case, obs),
    );
}

fn run_case(case: &Case, obs: &mut Obs) -> Result<(), Failure> {
    let w = build_world(case);
    let honest = honest_answer(&w, &w.bank, &w.multi, &w.target_key);
    // generator self-check (independent recomputation of both proofs)
    {
        let ops = honest.ops.as_ref().unwrap();
        let (Some(Proof::Exist(p0)), Some(Proof::Exist(p1))) = (&ops[0].proof.proof, &ops[1].proof.proof) else { unreachable!() };
        if recompute(p0) != w.bank.root() || recompute(p1).to_vec() != honest.app_hash || p1.value != w.bank.root() {
            return Err(Failure::new("gen", "harness prover self-check failed"));
        }
    }
    let committed: Option<u64> = String::from_utf8(w.target_value.clone()).ok().and_then(|s| s.parse().ok());
    let committed_text = String::from_utf8_lossy(&w.target_value).to_string();
    if w.bank.kvs.len() == 1 {
        obs.label("single-account-store");
    }
    if w.multi.stores.len() == 1 {
        obs.label("single-store-multistore");
    }
    if let Some(Proof::Exist(p0)) = &honest.ops.as_ref().unwrap()[0].proof.proof {
        if p0.path.len() >= 8 {
            obs.label("deep-path");
        }
        if p0.path.is_empty() {
            obs.label("empty-path");
        }
    }

    // header
    let chain = build_chain(&simple_chain_spec(case.shape_seed, case.height, 1, TimeBase::Fixed(1_700_000_000), 1000));
    let base_header: ExtendedHeader = chain.headers[0].clone();
    let keys = chain.keys[0].clone();
    let header_with = |app_hash: &[u8]| -> ExtendedHeader {
        let mut h = base_header.clone();
        h.header.app_hash = AppHash::try_from(app_hash.to_vec()).expect("app hash");
        seal(&mut h, &keys);
        h
    };
    let query_height = 1.max(case.height.saturating_sub(1)) as i64;

    let shared = Arc::new(Mutex::new(Shared { response: AbciQueryResponse::default(), requests: Vec::new() }));
    let handler: Handler = {
        let shared = shared.clone();
        Arc::new(move |inc: Incoming| {
            let shared = shared.clone();
            Box::pin(async move {
                let mut s = shared.lock().unwrap();
                s.requests.push((inc.path.clone(), inc.decode::<AbciQueryRequest>()));
                Reply::Ok(s.response.encode_to_vec())
            })
        })
    };
    let client = GrpcClient::builder().transport(FakeEndpoint::new(0, handler)).build().expect("client builds");
    let rt = tokio::runtime::Builder::new_current_thread().build().unwrap();
    let address = Address::AccAddress(AccAddress::from(w.target_addr));

    let query = |ans: &Answer| -> Result<u64, String> {
        shared.lock().unwrap().response = ans.raw(&w.target_key, query_height);
        let header = header_with(&ans.app_hash);
        rt.block_on(async { client.get_verified_balance(&address, &header).await }).map(|c| c.amount()).map_err(|e| e.to_string())
    };

    // honest
    let res = query(&honest);
    obs.eval(None);
    match (&res, committed) {
        (Ok(c), Some(want)) => {
            obs.check(*c == want, "C45:honest-wrong-amount", || format!("honest answer for committed balance {want} returned Ok({c})"))?;
            obs.label("honest-ok");
        }
        (Err(e), Some(want)) => obs.fail(
            "C45:honest-rejected",
            format!("honest value+proof for committed balance {want} (store of {} keys, {} stores, height {}) was rejected: {e}", w.bank.kvs.len(), w.multi.stores.len(), case.height),
        )?,
        (Ok(c), None) => obs.fail("C45:verified-balance-not-committed", format!("committed balance {committed_text} does not fit u64 but Ok({c}) was returned"))?,
        (Err(_), None) => obs.label("honest-amount-overflows-u64-rejected"),
    }
    {
        let s = shared.lock().unwrap();
        let ok = s.requests.len() == 1
            && s.requests[0].0 == ABCI_PATH
            && s.requests[0].1.as_ref().is_some_and(|r| r.data == w.target_key && r.path == "store/bank/key" && r.prove && r.height == query_height);
        drop(s);
        obs.check(ok, "C45:query-malformed", || "ABCI query is not (store/bank/key, balance key, height-1, prove=true)".to_string())?;
    }

    let honest_fp = honest.fingerprint();
    for (ti, t) in case.tampers.iter().enumerate() {
        let Some((ans, strict, label)) = apply(t, &w, &honest) else {
            obs.eval(None);
            obs.label("tamper-not-applicable");
            continue;
        };
        let fp = ans.fingerprint();
        if fp == honest_fp {
            obs.eval(None);
            obs.label("tamper-noop");
            continue;
        }
        obs.eval(Some(digest_bytes(&fp) ^ (ti as u64)));
        obs.label(label);
        let res = query(&ans);
        let funded = committed != Some(0);
        if label == "empty-value" && funded {
            obs.label("empty-value-funded-account");
        }
        match res {
            Ok(c) => {
                if Some(c) != committed {
                    if ans.value.is_empty() {
                        obs.fail(
                            "C45:empty-value-unproven-zero",
                            format!("node answered an EMPTY value for a funded account (committed balance {committed_text}); get_verified_balance returned Ok({c}) without looking at any proof (tamper {t:?})"),
                        )?;
                    } else {
                        obs.fail(
                            "C45:verified-balance-not-committed",
                            format!("tampering {t:?} ({label}): Ok({c}) returned but the balance committed under the header's app hash is {committed_text}"),
                        )?;
                    }
                } else if strict == Strict::MustReject {
                    obs.fail(
                        "C45:tampered-answer-accepted",
                        format!("tampering {t:?} ({label}) breaks the proof chain to the app hash but Ok({c}) was returned"),
                    )?;
                } else if ans.value.is_empty() {
                    obs.label("empty-value-zero-balance-unproven-ok");
                } else {
                    obs.label("structural-variant-still-verifies");
                }
            }
            Err(_) => {
                obs.label(if strict == Strict::MustReject { "tampered-rejected" } else { "structural-variant-rejected" });
            }
        }
    }
    Ok(())
}
