//! lv-common: the engine shared by every check.
//!
//! A property check is a list of *sub-checks*. Each sub-check has a name, a generator of plain-data
//! "recipes" (a proptest strategy, or an explicit enumeration) and an oracle closure
//! `Fn(&Recipe, &mut Obs) -> Result<(), Failure>`. The engine
//!   * drives the generator deterministically from `VERIF_SEED` (16 fixed logical shards per sub-check,
//!     executed on a thread pool, so results do not depend on the number of cores),
//!   * runs every case under `catch_unwind` (a panic is a failure with signature `panic@file:line`),
//!   * collects per-label counts, the set of digests of non-trivial evaluations and a few samples,
//!   * lets the oracle report an oracle failure through `Obs::fail(sig, msg)?`, which turns failures
//!     whose signature is an *open* entry of `/verif/known_findings.json` into counted exclusions
//!     (printing `KNOWN-FINDING: …` once) so that the search continues past them,
//!   * shrinks the first unknown failure (proptest), writes a replay file and prints the `VIOLATION` line,
//!   * writes `/verif/evidence/<id>.json`.
//!
//! Replay (`--replay file`) bypasses proptest: the recipe is deserialised from the file and the same
//! closure is run on it (`replay_times` times for schedule-dependent sims).

use std::collections::{BTreeMap, BTreeSet};
use std::fmt::Debug;
use std::panic::{AssertUnwindSafe, catch_unwind};
use std::path::PathBuf;
use std::sync::atomic::{AtomicBool, AtomicUsize, Ordering};
use std::sync::{Mutex, Once};
use std::time::Instant;

use proptest::strategy::{Strategy, ValueTree};
use proptest::test_runner::{Config, RngAlgorithm, TestCaseError, TestError, TestRng, TestRunner};
use serde::Serialize;
use serde::de::DeserializeOwned;
use serde_json::{Value, json};

pub mod prelude {
    pub use super::{Ctx, Failure, Obs, Tier, digest_bytes, digest_of, pick};
    pub use proptest::prelude::*;
    pub use serde::{Deserialize, Serialize};
    pub use serde_json::json;
}

/// Root under which evidence/, replays/ and known_findings.json live (`VERIF_ROOT` env overrides,
/// used only by scratch copies of the harness during development).
pub fn verif_root() -> String {
    std::env::var("VERIF_ROOT").unwrap_or_else(|_| "/verif".to_string())
}
pub const SHARDS: usize = 16;
const MAX_SAMPLES_PER_LABEL: usize = 2;
const MAX_SAMPLES: usize = 12;

#[derive(Clone, Copy, Debug, PartialEq, Eq)]
pub enum Tier {
    Quick,
    Thorough,
}

impl Tier {
    pub fn as_str(self) -> &'static str {
        match self {
            Tier::Quick => "quick",
            Tier::Thorough => "thorough",
        }
    }
    /// pick a size by tier
    pub fn pick<T>(self, quick: T, thorough: T) -> T {
        match self {
            Tier::Quick => quick,
            Tier::Thorough => thorough,
        }
    }
}

/// An oracle failure (or a panic) of one case.
#[derive(Clone, Debug)]
pub struct Failure {
    /// root-cause signature, compared with known_findings.json
    pub sig: String,
    pub msg: String,
}

impl Failure {
    pub fn new(sig: impl Into<String>, msg: impl Into<String>) -> Self {
        Failure {
            sig: sig.into(),
            msg: msg.into(),
        }
    }
}

#[derive(Clone, Debug, serde::Deserialize)]
pub struct KnownFinding {
    pub property: String,
    pub signature: String,
    pub what: String,
    pub status: String,
    #[serde(default)]
    pub commit: Option<String>,
}

/// Monotone index mapping (shrinks towards 0), never `%`.
pub fn pick(sel: u16, len: usize) -> usize {
    if len == 0 {
        return 0;
    }
    ((sel as u64 * len as u64) >> 16) as usize
}

pub fn digest_bytes(b: &[u8]) -> u64 {
    // FNV-1a 64
    let mut h: u64 = 0xcbf29ce484222325;
    for x in b {
        h ^= *x as u64;
        h = h.wrapping_mul(0x100000001b3);
    }
    h
}

pub fn digest_of<T: Debug>(t: &T) -> u64 {
    digest_bytes(format!("{t:?}").as_bytes())
}

fn mix(a: u64, b: u64) -> u64 {
    let mut z = a ^ b.wrapping_mul(0x9E3779B97F4A7C15);
    z = (z ^ (z >> 30)).wrapping_mul(0xBF58476D1CE4E5B9);
    z = (z ^ (z >> 27)).wrapping_mul(0x94D049BB133111EB);
    z ^ (z >> 31)
}

/// Per-case observation sink handed to the oracle closure.
pub struct Obs<'a> {
    known: &'a [KnownFinding],
    prop: &'a str,
    pub tier: Tier,
    evals: u64,
    labels: BTreeMap<String, u64>,
    nontrivial: Vec<u64>,
    samples: Vec<(String, Value)>,
    excluded: BTreeMap<String, u64>,
    notes: Vec<String>,
    strict: bool,
}

impl<'a> Obs<'a> {
    fn new(known: &'a [KnownFinding], prop: &'a str, tier: Tier, strict: bool) -> Self {
        Obs {
            known,
            prop,
            tier,
            evals: 0,
            labels: BTreeMap::new(),
            nontrivial: Vec::new(),
            samples: Vec::new(),
            excluded: BTreeMap::new(),
            notes: Vec::new(),
            strict,
        }
    }

    /// one oracle evaluation; `nontrivial` carries the digest of the evaluated case when it is
    /// non-trivial by the sub-check's stated rule.
    pub fn eval(&mut self, nontrivial: Option<u64>) {
        self.evals += 1;
        if let Some(d) = nontrivial {
            self.nontrivial.push(d);
        }
    }

    pub fn label(&mut self, l: &str) {
        *self.labels.entry(l.to_string()).or_insert(0) += 1;
    }

    pub fn label_n(&mut self, l: &str, n: u64) {
        *self.labels.entry(l.to_string()).or_insert(0) += n;
    }

    /// offer a sample for the evidence file under a label (engine keeps the first few per label)
    pub fn sample(&mut self, label: &str, v: Value) {
        if self.samples.len() < 64 {
            self.samples.push((label.to_string(), v));
        }
    }

    /// free-text observation recorded in the evidence (not a violation)
    pub fn note(&mut self, s: impl Into<String>) {
        if self.notes.len() < 8 {
            self.notes.push(s.into());
        }
    }

    /// true when `sig` is an open known finding for this property
    pub fn is_known(&self, sig: &str) -> bool {
        !self.strict
            && self
                .known
                .iter()
                .any(|k| k.property == self.prop && k.status == "open" && k.signature == sig)
    }

    /// Report an oracle failure. Known (open) signatures are counted and the search continues
    /// (returns Ok); anything else aborts the case with `Err`.
    pub fn fail(&mut self, sig: &str, msg: impl Into<String>) -> Result<(), Failure> {
        if self.is_known(sig) {
            *self.excluded.entry(sig.to_string()).or_insert(0) += 1;
            Ok(())
        } else {
            Err(Failure::new(sig, msg))
        }
    }

    /// convenience: `obs.check(cond, sig, || msg)?`
    pub fn check(
        &mut self,
        cond: bool,
        sig: &str,
        msg: impl FnOnce() -> String,
    ) -> Result<(), Failure> {
        if cond { Ok(()) } else { self.fail(sig, msg()) }
    }
}

#[derive(Default)]
struct Stats {
    cases: u64,
    evals: u64,
    labels: BTreeMap<String, u64>,
    nontrivial: BTreeSet<u64>,
    samples: Vec<(String, Value)>,
    sample_labels: BTreeMap<String, usize>,
    excluded: BTreeMap<String, u64>,
    notes: BTreeSet<String>,
}

impl Stats {
    fn absorb(&mut self, o: Obs<'_>, case_sample: Option<(&str, Value)>) {
        self.cases += 1;
        self.evals += o.evals.max(1);
        for (k, v) in o.labels {
            *self.labels.entry(k).or_insert(0) += v;
        }
        // cap the digest set (memory) — a cap hit is recorded by the caller via the count
        for d in o.nontrivial {
            if self.nontrivial.len() < 20_000_000 {
                self.nontrivial.insert(d);
            }
        }
        for (l, v) in o.samples {
            self.push_sample(l, v);
        }
        if let Some((l, v)) = case_sample {
            self.push_sample(l.to_string(), v);
        }
        for (k, v) in o.excluded {
            *self.excluded.entry(k).or_insert(0) += v;
        }
        for n in o.notes {
            if self.notes.len() < 16 {
                self.notes.insert(n);
            }
        }
    }
    fn push_sample(&mut self, l: String, v: Value) {
        let c = self.sample_labels.entry(l.clone()).or_insert(0);
        if *c < MAX_SAMPLES_PER_LABEL {
            *c += 1;
            self.samples.push((l, v));
        }
    }
    fn merge(&mut self, o: Stats) {
        self.cases += o.cases;
        self.evals += o.evals;
        for (k, v) in o.labels {
            *self.labels.entry(k).or_insert(0) += v;
        }
        self.nontrivial.extend(o.nontrivial);
        for (l, v) in o.samples {
            self.push_sample(l, v);
        }
        for (k, v) in o.excluded {
            *self.excluded.entry(k).or_insert(0) += v;
        }
        self.notes.extend(o.notes);
    }
}

struct SubReport {
    name: String,
    rule: String,
    exhaustive: bool,
    stats: Stats,
}

pub struct ViolationRec {
    pub sub: String,
    pub sig: String,
    pub msg: String,
    pub replay: PathBuf,
}

pub struct Ctx {
    pub prop: String,
    pub tier: Tier,
    pub seed: u64,
    pub level: String,
    replay: Option<(String, Value)>,
    replay_ran: bool,
    only: Option<String>,
    known: Vec<KnownFinding>,
    subs: Vec<SubReport>,
    violations: Vec<ViolationRec>,
    assumptions: Vec<String>,
    essential: Vec<String>,
    inconclusive: Vec<String>,
    start: Instant,
    jobs: usize,
    strict: bool,
    shrink_iters: u32,
    replay_times: usize,
    sentinel: bool,
}

thread_local! {
    static LAST_PANIC: std::cell::RefCell<Option<String>> = const { std::cell::RefCell::new(None) };
    static QUIET_PANIC: std::cell::Cell<bool> = const { std::cell::Cell::new(false) };
}

static HOOK: Once = Once::new();

fn install_panic_hook() {
    HOOK.call_once(|| {
        let prev = std::panic::take_hook();
        std::panic::set_hook(Box::new(move |info| {
            let loc = info
                .location()
                .map(|l| format!("{}:{}", shorten_path(l.file()), l.line()))
                .unwrap_or_else(|| "?".into());
            let msg = if let Some(s) = info.payload().downcast_ref::<&str>() {
                (*s).to_string()
            } else if let Some(s) = info.payload().downcast_ref::<String>() {
                s.clone()
            } else {
                "<non-string panic>".into()
            };
            let rec = format!("{loc}: {msg}");
            GLOBAL_LAST_PANIC.lock().unwrap().replace(rec.clone());
            LAST_PANIC.with(|p| *p.borrow_mut() = Some(rec));
            if !QUIET_PANIC.with(|q| q.get()) && std::env::var_os("VERIF_SHOW_PANICS").is_some() {
                prev(info);
            }
        }));
    });
}

static GLOBAL_LAST_PANIC: Mutex<Option<String>> = Mutex::new(None);

/// Last panic recorded on any thread (for sims that run the code under test in spawned tasks).
pub fn take_global_panic() -> Option<String> {
    GLOBAL_LAST_PANIC.lock().unwrap().take()
}

fn shorten_path(p: &str) -> String {
    // make signatures independent of the registry hash directory and of /repo absolute prefix
    if let Some(i) = p.find("/registry/src/") {
        let rest = &p[i + "/registry/src/".len()..];
        if let Some(j) = rest.find('/') {
            return rest[j + 1..].to_string();
        }
    }
    p.trim_start_matches("/repo/").to_string()
}

/// Panic signature: `panic@<file>` with the line dropped (line numbers move under edits) plus a
/// normalised message head.
pub fn panic_sig(rec: &str) -> String {
    // rec = "file:line: msg"
    let mut parts = rec.splitn(3, ':');
    let file = parts.next().unwrap_or("?");
    let _line = parts.next();
    let msg = parts.next().unwrap_or("").trim();
    let head: String = msg
        .chars()
        .map(|c| if c.is_ascii_digit() { '#' } else { c })
        .take(60)
        .collect();
    let mut squeezed = String::new();
    let mut last_hash = false;
    for c in head.chars() {
        if c == '#' {
            if !last_hash {
                squeezed.push('#');
            }
            last_hash = true;
        } else {
            squeezed.push(c);
            last_hash = false;
        }
    }
    format!("panic@{file}:{squeezed}")
}

/// Run `f`, converting a panic into a `Failure`.
pub fn guard<R>(f: impl FnOnce() -> Result<R, Failure>) -> Result<R, Failure> {
    install_panic_hook();
    LAST_PANIC.with(|p| *p.borrow_mut() = None);
    match catch_unwind(AssertUnwindSafe(f)) {
        Ok(r) => r,
        Err(_) => {
            let rec = LAST_PANIC
                .with(|p| p.borrow_mut().take())
                .unwrap_or_else(|| "?:0: unknown panic".into());
            Err(Failure::new(panic_sig(&rec), format!("panic: {rec}")))
        }
    }
}

/// Run a closure that must not panic; returns Err(panic record) on panic. For use *inside* oracles
/// where a panic of the code under test is judged by the caller (e.g. C16 targets).
pub fn no_panic<R>(f: impl FnOnce() -> R) -> Result<R, String> {
    install_panic_hook();
    LAST_PANIC.with(|p| *p.borrow_mut() = None);
    match catch_unwind(AssertUnwindSafe(f)) {
        Ok(r) => Ok(r),
        Err(_) => Err(LAST_PANIC
            .with(|p| p.borrow_mut().take())
            .unwrap_or_else(|| "?:0: unknown panic".into())),
    }
}

pub struct Args {
    pub prop: String,
    pub tier: Tier,
    pub replay: Option<PathBuf>,
    pub only: Option<String>,
}

pub fn parse_args() -> Args {
    let mut it = std::env::args().skip(1);
    let mut prop = None;
    let mut tier = match std::env::var("VERIF_TIER").ok().as_deref() {
        Some("thorough") => Tier::Thorough,
        _ => Tier::Quick,
    };
    let mut replay = None;
    let mut only = None;
    while let Some(a) = it.next() {
        match a.as_str() {
            "--tier" => {
                tier = match it.next().as_deref() {
                    Some("thorough") => Tier::Thorough,
                    Some("quick") => Tier::Quick,
                    other => {
                        eprintln!("bad --tier {other:?}");
                        std::process::exit(2);
                    }
                }
            }
            "--replay" => replay = it.next().map(PathBuf::from),
            "--only" => only = it.next(),
            s if prop.is_none() => prop = Some(s.to_string()),
            s => {
                eprintln!("unexpected argument {s}");
                std::process::exit(2);
            }
        }
    }
    let Some(prop) = prop else {
        eprintln!("usage: <bin> <Cxx> [--tier quick|thorough] [--replay file] [--only subcheck]");
        std::process::exit(2);
    };
    Args {
        prop,
        tier,
        replay,
        only,
    }
}

impl Ctx {
    pub fn from_args(args: &Args, level: &str) -> Ctx {
        install_panic_hook();
        let seed = std::env::var("VERIF_SEED")
            .ok()
            .and_then(|s| s.trim().parse::<i64>().ok().map(|v| v as u64).or_else(|| s.trim().parse::<u64>().ok()))
            .unwrap_or(0);
        let known: Vec<KnownFinding> = std::fs::read_to_string(format!("{}/known_findings.json", verif_root()))
            .ok()
            .and_then(|s| serde_json::from_str::<Value>(&s).ok())
            .and_then(|v| v.get("findings").cloned())
            .and_then(|v| serde_json::from_value(v).ok())
            .unwrap_or_default();
        let replay = args.replay.as_ref().map(|p| {
            let s = std::fs::read_to_string(p).unwrap_or_else(|e| {
                eprintln!("cannot read replay file {p:?}: {e}");
                std::process::exit(2);
            });
            let v: Value = serde_json::from_str(&s).unwrap_or_else(|e| {
                eprintln!("bad replay file: {e}");
                std::process::exit(2);
            });
            let sub = v["sub"].as_str().unwrap_or("").to_string();
            (sub, v["case"].clone())
        });
        let jobs = std::env::var("VERIF_JOBS")
            .ok()
            .and_then(|s| s.parse().ok())
            .unwrap_or_else(|| std::thread::available_parallelism().map(|n| n.get()).unwrap_or(4))
            .clamp(1, SHARDS);
        Ctx {
            prop: args.prop.clone(),
            tier: args.tier,
            seed,
            level: level.to_string(),
            replay,
            replay_ran: false,
            only: args.only.clone(),
            known,
            subs: Vec::new(),
            violations: Vec::new(),
            assumptions: Vec::new(),
            essential: Vec::new(),
            inconclusive: Vec::new(),
            start: Instant::now(),
            jobs,
            strict: std::env::var_os("VERIF_STRICT").is_some(),
            shrink_iters: 2000,
            replay_times: 1,
            sentinel: false,
        }
    }

    /// bound on proptest shrink iterations for the following sub-checks (expensive cases: keep small)
    pub fn set_shrink_iters(&mut self, n: u32) {
        self.shrink_iters = n;
    }

    /// Crash sentinel: before every case the recipe is written to `replays/.inflight-<prop>-<sub>-<shard>.json`
    /// (emptied when the case returns). If the code under test ABORTS the process (allocation failure, stack
    /// overflow, abort-on-double-panic: not catchable by catch_unwind) the `check` script finds the file, replays
    /// it in a fresh process and reports a VIOLATION when the abort reproduces. Costs one small file write per
    /// case: enable it for checks whose cases are not tiny.
    pub fn enable_crash_sentinel(&mut self) {
        self.sentinel = true;
    }

    /// how many times `--replay` re-runs the saved case (schedule-dependent sims)
    pub fn set_replay_times(&mut self, n: usize) {
        self.replay_times = n;
    }

    pub fn assume(&mut self, s: &str) {
        self.assumptions.push(s.to_string());
    }

    /// labels that must be hit at least once over the whole run, else exit 2 ("generator degenerate")
    pub fn essential(&mut self, labels: &[&str]) {
        self.essential.extend(labels.iter().map(|s| s.to_string()));
    }

    pub fn inconclusive(&mut self, why: impl Into<String>) {
        self.inconclusive.push(why.into());
    }

    pub fn has_violation(&self) -> bool {
        !self.violations.is_empty()
    }

    fn sub_enabled(&self, name: &str) -> bool {
        if let Some((sub, _)) = &self.replay {
            return sub == name;
        }
        match &self.only {
            Some(o) => o == name,
            None => true,
        }
    }

    fn sub_seed(&self, name: &str) -> u64 {
        mix(mix(self.seed, digest_bytes(self.prop.as_bytes())), digest_bytes(name.as_bytes()))
    }

    fn record_violation<R: Serialize + Debug>(&mut self, sub: &str, f: &Failure, recipe: &R) {
        let dir = format!("{}/replays", verif_root());
        let _ = std::fs::create_dir_all(&dir);
        let case = serde_json::to_value(recipe).unwrap_or(Value::Null);
        let d = digest_bytes(format!("{sub}{case}").as_bytes());
        let path = PathBuf::from(format!("{dir}/{}-{}-{:016x}.json", self.prop, sanitize(sub), d));
        let doc = json!({
            "property": self.prop, "sub": sub, "seed": self.seed, "tier": self.tier.as_str(),
            "signature": f.sig, "observed": f.msg, "case": case,
            "case_debug": trunc(&format!("{recipe:?}"), 4000),
        });
        let _ = std::fs::write(&path, serde_json::to_string_pretty(&doc).unwrap());
        println!("VIOLATION property={} replay={}", self.prop, path.display());
        println!("  sub-check: {sub}\n  signature: {}\n  observed: {}", f.sig, trunc(&f.msg, 2000));
        self.violations.push(ViolationRec {
            sub: sub.to_string(),
            sig: f.sig.clone(),
            msg: f.msg.clone(),
            replay: path,
        });
    }

    /// Run one case through the oracle under catch_unwind.
    fn run_case<'k, R, F>(
        known: &'k [KnownFinding],
        prop: &'k str,
        tier: Tier,
        strict: bool,
        recipe: &R,
        f: &F,
    ) -> (Obs<'k>, Result<(), Failure>)
    where
        F: Fn(&R, &mut Obs) -> Result<(), Failure>,
    {
        let mut obs = Obs::new(known, prop, tier, strict);
        let r = guard(|| f(recipe, &mut obs));
        let r = match r {
            Err(fl) if obs.is_known(&fl.sig) => {
                // a known *panic* (or a failure returned directly rather than via obs.fail)
                *obs.excluded.entry(fl.sig.clone()).or_insert(0) += 1;
                Ok(())
            }
            other => other,
        };
        (obs, r)
    }

    /// Sub-check driven by a proptest strategy. `cases` is the total number of generated recipes
    /// (split over 16 deterministic shards).
    pub fn proptest<R, S, M, F>(&mut self, name: &str, rule: &str, cases: u32, mk_strategy: M, f: F)
    where
        R: Serialize + DeserializeOwned + Debug + Clone + Send + 'static,
        S: Strategy<Value = R>,
        M: Fn() -> S + Sync,
        F: Fn(&R, &mut Obs) -> Result<(), Failure> + Sync,
    {
        if !self.sub_enabled(name) {
            return;
        }
        if self.replay.is_some() {
            let t = self.replay_times;
            self.do_replay(name, &f, t);
            return;
        }
        let sub_seed = self.sub_seed(name);
        let stop = AtomicBool::new(false);
        let next = AtomicUsize::new(0);
        let results: Mutex<Vec<(usize, Stats, Option<(Failure, R)>)>> = Mutex::new(Vec::new());
        let per = (cases as usize).div_ceil(SHARDS).max(1) as u32;
        let known = &self.known;
        let prop = self.prop.as_str();
        let tier = self.tier;
        let strict = self.strict;
        let shrink_iters = self.shrink_iters;
        let sentinel = self.sentinel;
        let seed_for_file = self.seed;
        let tier_name = self.tier.as_str();
        let sname = name;
        std::thread::scope(|sc| {
            for _ in 0..self.jobs {
                sc.spawn(|| {
                    loop {
                        let shard = next.fetch_add(1, Ordering::SeqCst);
                        if shard >= SHARDS || stop.load(Ordering::SeqCst) {
                            break;
                        }
                        let mut stats = Stats::default();
                        let strategy = mk_strategy();
                        let mut seed_bytes = [0u8; 32];
                        let s = mix(sub_seed, shard as u64 + 1);
                        for (i, ch) in seed_bytes.chunks_mut(8).enumerate() {
                            ch.copy_from_slice(&mix(s, i as u64).to_le_bytes());
                        }
                        let rng = TestRng::from_seed(RngAlgorithm::ChaCha, &seed_bytes);
                        let cfg = Config {
                            cases: per,
                            failure_persistence: None,
                            max_shrink_iters: shrink_iters,
                            max_global_rejects: 65536,
                            ..Config::default()
                        };
                        let mut runner = TestRunner::new_with_rng(cfg, rng);
                        let failed = std::cell::Cell::new(false);
                        let stats_cell = std::cell::RefCell::new(&mut stats);
                        let inflight = format!("{}/replays/.inflight-{}-{}-{}.json", verif_root(), prop, sanitize(sname), shard);
                        let res = runner.run(&strategy, |recipe| {
                            if stop.load(Ordering::SeqCst) && !failed.get() {
                                return Ok(());
                            }
                            if sentinel {
                                let doc = json!({"property": prop, "sub": sname, "seed": seed_for_file, "tier": tier_name,
                                    "signature": "process-abort", "observed": "the process aborted while this case was running", "case": serde_json::to_value(&recipe).unwrap_or(Value::Null)});
                                let _ = std::fs::write(&inflight, doc.to_string());
                            }
                            let (obs, r) = Self::run_case(known, prop, tier, strict, &recipe, &f);
                            if sentinel {
                                let _ = std::fs::write(&inflight, b"");
                            }
                            match r {
                                Ok(()) => {
                                    if !failed.get() {
                                        let cs = if stats_cell.borrow().cases < 2 {
                                            Some(("case", serde_json::to_value(&recipe).unwrap_or(Value::Null)))
                                        } else {
                                            None
                                        };
                                        stats_cell.borrow_mut().absorb(obs, cs);
                                    }
                                    Ok(())
                                }
                                Err(fl) => {
                                    failed.set(true);
                                    stop.store(true, Ordering::SeqCst);
                                    Err(TestCaseError::fail(format!("{}\u{1}{}", fl.sig, fl.msg)))
                                }
                            }
                        });
                        drop(stats_cell);
                        if sentinel {
                            let _ = std::fs::remove_file(&inflight);
                        }
                        let fail = match res {
                            Ok(()) => None,
                            Err(TestError::Fail(reason, value)) => {
                                let r = reason.message().to_string();
                                let (sig, msg) = match r.split_once('\u{1}') {
                                    Some((a, b)) => (a.to_string(), b.to_string()),
                                    None => ("unknown".to_string(), r),
                                };
                                // re-run the shrunk value once to report ITS failure precisely
                                let (_, rr) = Self::run_case(known, prop, tier, strict, &value, &f);
                                let fl = rr.err().unwrap_or(Failure { sig, msg });
                                Some((fl, value))
                            }
                            Err(TestError::Abort(reason)) => {
                                eprintln!("[{prop}/{sname}] proptest aborted: {reason}");
                                None
                            }
                        };
                        results.lock().unwrap().push((shard, stats, fail));
                    }
                });
            }
        });
        let mut results = results.into_inner().unwrap();
        results.sort_by_key(|r| r.0);
        let mut total = Stats::default();
        let mut first_fail: Option<(Failure, R)> = None;
        for (_, st, fl) in results {
            total.merge(st);
            if first_fail.is_none() {
                first_fail = fl;
            }
        }
        if let Some((fl, value)) = first_fail {
            self.record_violation(name, &fl, &value);
        }
        self.push_sub(name, rule, false, total);
    }

    /// Sub-check over an explicit enumeration (no RNG). `exhaustive` states whether the iterator
    /// covers the whole finite space named in `rule`. Work is spread over the thread pool in
    /// contiguous chunks; the first failing recipe in enumeration order is reported.
    pub fn enumerate<R, I, F>(&mut self, name: &str, rule: &str, exhaustive: bool, items: I, f: F)
    where
        R: Serialize + DeserializeOwned + Debug + Clone + Send + Sync + 'static,
        I: IntoIterator<Item = R>,
        F: Fn(&R, &mut Obs) -> Result<(), Failure> + Sync,
    {
        if !self.sub_enabled(name) {
            return;
        }
        if self.replay.is_some() {
            self.do_replay(name, &f, 1);
            return;
        }
        let items: Vec<R> = items.into_iter().collect();
        let n = items.len();
        let chunk = n.div_ceil(self.jobs * 4).max(1);
        let next = AtomicUsize::new(0);
        let stop = AtomicBool::new(false);
        let results: Mutex<Vec<(usize, Stats, Option<(usize, Failure)>)>> = Mutex::new(Vec::new());
        let known = &self.known;
        let prop = self.prop.as_str();
        let tier = self.tier;
        let strict = self.strict;
        let items_ref = &items;
        std::thread::scope(|sc| {
            for _ in 0..self.jobs {
                sc.spawn(|| {
                    loop {
                        let c = next.fetch_add(1, Ordering::SeqCst);
                        let lo = c * chunk;
                        if lo >= n || stop.load(Ordering::SeqCst) {
                            break;
                        }
                        let hi = (lo + chunk).min(n);
                        let mut stats = Stats::default();
                        let mut fail = None;
                        for i in lo..hi {
                            let (obs, r) = Self::run_case(known, prop, tier, strict, &items_ref[i], &f);
                            match r {
                                Ok(()) => {
                                    let cs = if i % (n / 3 + 1) == 0 {
                                        Some(("case", serde_json::to_value(&items_ref[i]).unwrap_or(Value::Null)))
                                    } else {
                                        None
                                    };
                                    stats.absorb(obs, cs)
                                }
                                Err(fl) => {
                                    fail = Some((i, fl));
                                    stop.store(true, Ordering::SeqCst);
                                    break;
                                }
                            }
                        }
                        results.lock().unwrap().push((c, stats, fail));
                    }
                });
            }
        });
        let mut results = results.into_inner().unwrap();
        results.sort_by_key(|r| r.0);
        let mut total = Stats::default();
        let mut first: Option<(usize, Failure)> = None;
        for (_, st, fl) in results {
            total.merge(st);
            if let Some((i, f)) = fl {
                if first.as_ref().map(|(j, _)| i < *j).unwrap_or(true) {
                    first = Some((i, f));
                }
            }
        }
        let complete = first.is_none();
        if let Some((i, fl)) = first {
            self.record_violation(name, &fl, &items[i]);
        }
        self.push_sub(name, rule, exhaustive && complete, total);
    }

    /// Single-threaded variant of `proptest` for sims that own real threads / runtimes and must not
    /// run concurrently with each other.
    pub fn proptest_serial<R, S, M, F>(&mut self, name: &str, rule: &str, cases: u32, mk_strategy: M, f: F)
    where
        R: Serialize + DeserializeOwned + Debug + Clone + Send + 'static,
        S: Strategy<Value = R>,
        M: Fn() -> S + Sync,
        F: Fn(&R, &mut Obs) -> Result<(), Failure> + Sync,
    {
        let j = self.jobs;
        self.jobs = 1;
        self.proptest(name, rule, cases, mk_strategy, f);
        self.jobs = j;
    }

    fn do_replay<R, F>(&mut self, name: &str, f: &F, times: usize)
    where
        R: Serialize + DeserializeOwned + Debug + Clone,
        F: Fn(&R, &mut Obs) -> Result<(), Failure>,
    {
        let (_, case) = self.replay.clone().unwrap();
        let recipe: R = match serde_json::from_value(case) {
            Ok(r) => r,
            Err(e) => {
                eprintln!("replay: cannot decode case for sub-check {name}: {e}");
                std::process::exit(2);
            }
        };
        self.replay_ran = true;
        let times = std::env::var("VERIF_REPLAY_TIMES").ok().and_then(|s| s.parse().ok()).unwrap_or(times);
        let mut total = Stats::default();
        for _ in 0..times.max(1) {
            let (obs, r) = Self::run_case(&self.known, &self.prop, self.tier, self.strict, &recipe, f);
            match r {
                Ok(()) => total.absorb(obs, Some(("replayed", serde_json::to_value(&recipe).unwrap_or(Value::Null)))),
                Err(fl) => {
                    self.record_violation(name, &fl, &recipe);
                    break;
                }
            }
        }
        self.push_sub(name, "replay of a saved case", false, total);
    }

    fn push_sub(&mut self, name: &str, rule: &str, exhaustive: bool, stats: Stats) {
        // print KNOWN-FINDING lines once per signature
        for (sig, n) in &stats.excluded {
            let already = self.subs.iter().any(|s| s.stats.excluded.contains_key(sig));
            if !already {
                let what = self
                    .known
                    .iter()
                    .find(|k| &k.signature == sig && k.property == self.prop)
                    .map(|k| k.what.clone())
                    .unwrap_or_default();
                println!("KNOWN-FINDING: property={} {} [{}] (hit {} times in {})", self.prop, what, sig, n, name);
            }
        }
        eprintln!(
            "[{}/{}] cases={} evaluations={} distinct_nontrivial={} excluded_known={}",
            self.prop,
            name,
            stats.cases,
            stats.evals,
            stats.nontrivial.len(),
            stats.excluded.values().sum::<u64>()
        );
        self.subs.push(SubReport {
            name: name.to_string(),
            rule: rule.to_string(),
            exhaustive,
            stats,
        });
    }

    /// Write evidence and exit with the contract's exit code.
    pub fn finish(self) -> ! {
        let wall = self.start.elapsed().as_secs_f64();
        if self.replay.is_some() && !self.replay_ran {
            eprintln!("replay: no sub-check named {:?} in {}", self.replay.as_ref().unwrap().0, self.prop);
            std::process::exit(2);
        }
        let mut evaluations = 0u64;
        let mut all_nt: BTreeSet<(usize, u64)> = BTreeSet::new();
        let mut labels: BTreeMap<String, u64> = BTreeMap::new();
        let mut excluded: BTreeMap<String, u64> = BTreeMap::new();
        let mut samples: Vec<Value> = Vec::new();
        let mut subs_json = Vec::new();
        let mut rules = Vec::new();
        let mut notes: BTreeSet<String> = BTreeSet::new();
        let mut any_exh = false;
        for (i, s) in self.subs.iter().enumerate() {
            evaluations += s.stats.evals;
            for d in &s.stats.nontrivial {
                all_nt.insert((i, *d));
            }
            for (k, v) in &s.stats.labels {
                *labels.entry(k.clone()).or_insert(0) += v;
            }
            for (k, v) in &s.stats.excluded {
                *excluded.entry(k.clone()).or_insert(0) += v;
            }
            let mut per_sub = 0;
            for (l, v) in &s.stats.samples {
                if samples.len() < MAX_SAMPLES && per_sub < 3 {
                    samples.push(json!({"sub": s.name, "label": l, "case": trunc_value(v)}));
                    per_sub += 1;
                }
            }
            notes.extend(s.stats.notes.iter().cloned());
            any_exh |= s.exhaustive;
            rules.push(format!("[{}] {}", s.name, s.rule));
            subs_json.push(json!({
                "name": s.name, "cases": s.stats.cases, "evaluations": s.stats.evals,
                "distinct_nontrivial": s.stats.nontrivial.len(), "exhaustive": s.exhaustive,
                "rule": s.rule,
            }));
        }
        let missing: Vec<String> = if self.replay.is_some() || self.only.is_some() || self.has_violation() {
            vec![]
        } else {
            self.essential
                .iter()
                .filter(|l| labels.get(*l).copied().unwrap_or(0) == 0)
                .cloned()
                .collect()
        };
        let all_exh = !self.subs.is_empty() && self.subs.iter().all(|s| s.exhaustive);
        let ev = json!({
            "property_id": self.prop,
            "tier": self.tier.as_str(),
            "seed": self.seed as i64,
            "level": self.level,
            "coverage": {
                "evaluations": evaluations,
                "distinct_nontrivial": all_nt.len(),
                "rule": rules.join(" || "),
                "samples": samples,
                "labels": labels,
                "excluded_known": excluded,
                "exhaustive": all_exh,
                "exhaustive_part": any_exh,
                "sub_checks": subs_json,
                "observations": notes,
                "essential_labels_missing": missing,
                "inconclusive": self.inconclusive,
            },
            "assumptions": self.assumptions,
            "wall_s": wall,
            "violations": self.violations.len(),
        });
        if self.replay.is_none() && self.only.is_none() {
            let dir = format!("{}/evidence", verif_root());
            let _ = std::fs::create_dir_all(&dir);
            let path = format!("{dir}/{}.json", self.prop);
            if let Err(e) = std::fs::write(&path, serde_json::to_string_pretty(&ev).unwrap()) {
                eprintln!("cannot write evidence {path}: {e}");
                std::process::exit(2);
            }
        }
        eprintln!(
            "[{}] tier={} seed={} evaluations={} distinct_nontrivial={} violations={} wall={:.1}s",
            self.prop,
            self.tier.as_str(),
            self.seed,
            evaluations,
            all_nt.len(),
            self.violations.len(),
            wall
        );
        if !self.violations.is_empty() {
            std::process::exit(1);
        }
        if !missing.is_empty() {
            eprintln!("INCONCLUSIVE: generator degenerate, essential labels never hit: {missing:?}");
            std::process::exit(2);
        }
        if !self.inconclusive.is_empty() {
            eprintln!("INCONCLUSIVE: {:?}", self.inconclusive);
            std::process::exit(2);
        }
        println!("OK property={} tier={} evaluations={} distinct_nontrivial={}", self.prop, self.tier.as_str(), evaluations, all_nt.len());
        std::process::exit(0);
    }
}

fn sanitize(s: &str) -> String {
    s.chars().map(|c| if c.is_ascii_alphanumeric() { c } else { '_' }).collect()
}

fn trunc(s: &str, n: usize) -> String {
    if s.len() <= n {
        s.to_string()
    } else {
        let mut e = n;
        while !s.is_char_boundary(e) {
            e -= 1;
        }
        format!("{}…[{} bytes]", &s[..e], s.len())
    }
}

fn trunc_value(v: &Value) -> Value {
    let s = v.to_string();
    if s.len() <= 1500 { v.clone() } else { Value::String(trunc(&s, 1500)) }
}

/// Sample a strategy once with a deterministic rng (utility for generators that need a value outside
/// a runner, e.g. fixed fixtures).
pub fn sample_once<S: Strategy>(s: &S, seed: u64) -> S::Value {
    let mut seed_bytes = [0u8; 32];
    for (i, ch) in seed_bytes.chunks_mut(8).enumerate() {
        ch.copy_from_slice(&mix(seed, i as u64).to_le_bytes());
    }
    let mut runner = TestRunner::new_with_rng(Config::default(), TestRng::from_seed(RngAlgorithm::ChaCha, &seed_bytes));
    s.new_tree(&mut runner).unwrap().current()
}

/// Tiny deterministic PRNG for *payload* bytes derived from a recipe's seed field (structure always
/// comes from proptest values; this only expands a generated u64 into bulk bytes).
#[derive(Clone)]
pub struct Prng(pub u64);

impl Prng {
    pub fn new(seed: u64) -> Self {
        Prng(mix(seed, 0x5eed))
    }
    pub fn next_u64(&mut self) -> u64 {
        self.0 = self.0.wrapping_add(0x9E3779B97F4A7C15);
        let mut z = self.0;
        z = (z ^ (z >> 30)).wrapping_mul(0xBF58476D1CE4E5B9);
        z = (z ^ (z >> 27)).wrapping_mul(0x94D049BB133111EB);
        z ^ (z >> 31)
    }
    pub fn below(&mut self, n: u64) -> u64 {
        if n == 0 { 0 } else { self.next_u64() % n }
    }
    pub fn fill(&mut self, buf: &mut [u8]) {
        for ch in buf.chunks_mut(8) {
            let v = self.next_u64().to_le_bytes();
            ch.copy_from_slice(&v[..ch.len()]);
        }
    }
    pub fn bytes(&mut self, n: usize) -> Vec<u8> {
        let mut v = vec![0u8; n];
        self.fill(&mut v);
        v
    }
    pub fn array<const N: usize>(&mut self) -> [u8; N] {
        let mut v = [0u8; N];
        self.fill(&mut v);
        v
    }
}
