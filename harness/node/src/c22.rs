//! C22 — The persistent store survives crashes at any point (level: fault_enumeration).
//!
//! A logging `redb::StorageBackend` records every `write`, `set_len` and `sync_data` issued while a
//! generated op history runs on `RedbStore::new(db over backend)`, interleaved with harness markers
//! ("op k started", "op k returned"). Every log position is a crash point. The surviving image is the
//! image at the last completed sync plus a subset of the later whole writes (none / all / generated
//! subsets / each single write dropped for short tails). A fresh database + `RedbStore::new` over the
//! image must open and its observable state must equal the model state after some prefix of the
//! history that includes every operation that had returned before the crash.

use std::sync::{Arc, Mutex};

use lumina_node::store::{RedbStore, Store};
use lv_common::Prng;
use lv_common::prelude::*;

use crate::c19::{self, Case, Model, Op, Snapshot, cid_of, diff, model_snapshot, resolve_batch, snapshot};

#[derive(Clone, Debug)]
enum Entry {
    Write { off: u64, data: Vec<u8> },
    SetLen(u64),
    Sync,
    /// op k is about to be issued
    Start(usize),
    /// op k returned
    Ret(usize),
}

#[derive(Debug, Default)]
struct Shared {
    image: Vec<u8>,
    log: Vec<Entry>,
}

#[derive(Debug, Clone)]
struct LogBackend(Arc<Mutex<Shared>>);

fn oob() -> std::io::Error {
    std::io::Error::new(std::io::ErrorKind::InvalidInput, "out of range")
}

impl redb::StorageBackend for LogBackend {
    fn len(&self) -> Result<u64, std::io::Error> {
        Ok(self.0.lock().unwrap().image.len() as u64)
    }
    fn read(&self, offset: u64, len: usize) -> Result<Vec<u8>, std::io::Error> {
        let g = self.0.lock().unwrap();
        let o = offset as usize;
        if o + len <= g.image.len() { Ok(g.image[o..o + len].to_vec()) } else { Err(oob()) }
    }
    fn set_len(&self, len: u64) -> Result<(), std::io::Error> {
        let mut g = self.0.lock().unwrap();
        g.image.resize(len as usize, 0);
        g.log.push(Entry::SetLen(len));
        Ok(())
    }
    fn sync_data(&self, _eventual: bool) -> Result<(), std::io::Error> {
        self.0.lock().unwrap().log.push(Entry::Sync);
        Ok(())
    }
    fn write(&self, offset: u64, data: &[u8]) -> Result<(), std::io::Error> {
        let mut g = self.0.lock().unwrap();
        let o = offset as usize;
        if o + data.len() > g.image.len() {
            return Err(oob());
        }
        g.image[o..o + data.len()].copy_from_slice(data);
        g.log.push(Entry::Write { off: offset, data: data.to_vec() });
        Ok(())
    }
}

/// plain (non-logging) backend over a crash image
#[derive(Debug)]
struct ImageBackend(Mutex<Vec<u8>>);

impl redb::StorageBackend for ImageBackend {
    fn len(&self) -> Result<u64, std::io::Error> {
        Ok(self.0.lock().unwrap().len() as u64)
    }
    fn read(&self, offset: u64, len: usize) -> Result<Vec<u8>, std::io::Error> {
        let g = self.0.lock().unwrap();
        let o = offset as usize;
        if o + len <= g.len() { Ok(g[o..o + len].to_vec()) } else { Err(oob()) }
    }
    fn set_len(&self, len: u64) -> Result<(), std::io::Error> {
        self.0.lock().unwrap().resize(len as usize, 0);
        Ok(())
    }
    fn sync_data(&self, _: bool) -> Result<(), std::io::Error> {
        Ok(())
    }
    fn write(&self, offset: u64, data: &[u8]) -> Result<(), std::io::Error> {
        let mut g = self.0.lock().unwrap();
        let o = offset as usize;
        if o + data.len() > g.len() {
            return Err(oob());
        }
        g[o..o + data.len()].copy_from_slice(data);
        Ok(())
    }
}

fn apply(img: &mut Vec<u8>, e: &Entry) {
    match e {
        Entry::Write { off, data } => {
            let o = *off as usize;
            if o + data.len() > img.len() {
                img.resize(o + data.len(), 0);
            }
            img[o..o + data.len()].copy_from_slice(data);
        }
        Entry::SetLen(n) => img.resize(*n as usize, 0),
        _ => {}
    }
}

#[derive(Clone, Debug, Serialize, Deserialize)]
pub struct CrashCase {
    pub history: Case,
    pub subset_seed: u64,
    /// observe only every `thin`-th height/hash (1 = all); used by the large-batch sub-check
    #[serde(default = "one")]
    pub thin: u8,
}

fn one() -> u8 {
    1
}

async fn reopen(img: Vec<u8>, heights: &[u64], hashes: &[celestia_types::hash::Hash]) -> Result<Snapshot, String> {
    let db = redb::Database::builder()
        .create_with_backend(ImageBackend(Mutex::new(img)))
        .map_err(|e| format!("redb could not open the crash image: {e}"))?;
    let store = RedbStore::new(Arc::new(db)).await.map_err(|e| format!("RedbStore::new failed on the crash image: {e}"))?;
    let snap = snapshot(&store, heights, hashes).await;
    // internal consistency beyond the model comparison: identity must be readable
    store.get_identity().await.map_err(|e| format!("identity unreadable after reopen: {e}"))?;
    let _ = store.close().await;
    Ok(snap)
}

async fn run_case(case: &CrashCase, obs: &mut Obs<'_>) -> Result<(), Failure> {
    let mut u = c19::build_universe(&case.history);
    let n = u.honest.headers.len();
    if case.thin > 1 {
        let t = case.thin as usize;
        u.heights = u.heights.iter().copied().enumerate().filter(|(i, h)| i % t == 0 || *h <= 2).map(|(_, h)| h).collect();
        u.hashes = u.hashes.iter().cloned().enumerate().filter(|(i, _)| i % t == 0).map(|(_, h)| h).collect();
    }
    let shared = Arc::new(Mutex::new(Shared::default()));
    let db = redb::Database::builder()
        .create_with_backend(LogBackend(shared.clone()))
        .map_err(|e| Failure::new("harness:redb-create", e.to_string()))?;
    let store = RedbStore::new(Arc::new(db)).await.map_err(|e| Failure::new("harness:store-new", e.to_string()))?;
    // The property quantifies over crashes while operations run on an (existing) store: crash points
    // start once the database and the store's own initialisation are complete.
    let init_len = shared.lock().unwrap().log.len();

    // run the history once, recording model snapshots after each prefix
    let mut model = Model::default();
    let mut prefix_snaps: Vec<Snapshot> = vec![model_snapshot(&model, &u.heights, &u.hashes)];
    let mut descs: Vec<String> = Vec::new();
    for (k, op) in case.history.ops.iter().enumerate() {
        let stored: Vec<u64> = model.headers.keys().copied().collect();
        let pick_h = |sel: u16, bias: bool| -> u64 {
            if bias && !stored.is_empty() { stored[pick(sel, stored.len())] } else { pick(sel, n + 2) as u64 }
        };
        shared.lock().unwrap().log.push(Entry::Start(k));
        let mut trial = model.clone();
        let (res, expected, desc) = match op {
            Op::Insert { place, len, src, mal } => {
                let b = resolve_batch(&u, &model, place, *len, *src, mal, obs);
                let d = format!("insert {:?}", b.iter().map(|h| h.height()).collect::<Vec<_>>());
                (store.insert(b.clone()).await.map_err(|e| e.to_string()), trial.insert(&b), d)
            }
            Op::Remove { h, stored_bias } => {
                let h = pick_h(*h, *stored_bias);
                (store.remove_height(h).await.map_err(|e| e.to_string()), trial.remove(h), format!("remove {h}"))
            }
            Op::MarkSampled { h, stored_bias } => {
                let h = pick_h(*h, *stored_bias);
                (store.mark_as_sampled(h).await.map_err(|e| e.to_string()), trial.mark(h), format!("mark_sampled {h}"))
            }
            Op::UpdateMeta { h, stored_bias, cids } => {
                let h = pick_h(*h, *stored_bias);
                let c: Vec<_> = cids.iter().map(|c| cid_of(*c)).collect();
                (store.update_sampling_metadata(h, c.clone()).await.map_err(|e| e.to_string()), trial.update_meta(h, &c), format!("update_meta {h} x{}", c.len()))
            }
        };
        shared.lock().unwrap().log.push(Entry::Ret(k));
        if res.is_ok() != expected.is_ok() {
            // conformance is C19's business; a diverged history cannot be judged here
            obs.note(format!("history cut at op {k} ({desc}): store result {res:?} differs from the model {expected:?} (judged by C19)"));
            break;
        }
        if expected.is_ok() {
            model = trial;
        }
        descs.push(format!("{desc} -> {}", if res.is_ok() { "ok" } else { "err" }));
        prefix_snaps.push(model_snapshot(&model, &u.heights, &u.hashes));
    }
    let _ = store.close().await;
    let log: Vec<Entry> = shared.lock().unwrap().log.clone();
    let ops_run = prefix_snaps.len() - 1;

    // enumerate crash points
    let mut base: Vec<u8> = Vec::new(); // image at the last completed sync
    let mut tail: Vec<usize> = Vec::new(); // indices of write/set_len entries since then
    let mut returned = 0usize; // ops that had returned
    let mut started = 0usize; // ops that had been started
    let extra = if case.thin > 1 { 1 } else if obs.tier == Tier::Quick { 2 } else { 8 };
    for p in 0..=log.len() {
        // crash just before entry p
        if p < init_len {
            match &log[p] {
                Entry::Sync => {
                    for &i in &tail {
                        apply(&mut base, &log[i]);
                    }
                    tail.clear();
                }
                Entry::Write { .. } | Entry::SetLen(_) => tail.push(p),
                _ => {}
            }
            continue;
        }
        let writes_in_tail: Vec<usize> = tail.iter().copied().filter(|i| matches!(log[*i], Entry::Write { .. })).collect();
        let mut variants: Vec<(String, Vec<bool>)> = Vec::new(); // keep-mask over writes_in_tail
        let m = writes_in_tail.len();
        variants.push(("all-unsynced-writes-lost".into(), vec![false; m]));
        if m > 0 {
            variants.push(("all-unsynced-writes-kept".into(), vec![true; m]));
            let mut rng = Prng::new(case.subset_seed ^ (p as u64).wrapping_mul(0x9E3779B97F4A7C15));
            for _ in 0..extra {
                variants.push(("random-subset".into(), (0..m).map(|_| rng.next_u64() & 1 == 1).collect()));
            }
            if m <= 8 {
                for d in 0..m {
                    variants.push(("single-write-dropped".into(), (0..m).map(|i| i != d).collect()));
                }
            }
        }
        variants.dedup_by(|a, b| a.1 == b.1);
        for (vname, mask) in variants {
            let mut img = base.clone();
            let mut wi = 0;
            for &i in &tail {
                match &log[i] {
                    Entry::Write { .. } => {
                        if mask[wi] {
                            apply(&mut img, &log[i]);
                        }
                        wi += 1;
                    }
                    e => apply(&mut img, e), // set_len: assumed ordered metadata, always applied
                }
            }
            let inside_op = started > returned;
            let partial = mask.iter().any(|b| *b) && mask.iter().any(|b| !*b);
            let nontrivial = inside_op && partial;
            obs.eval(nontrivial.then(|| digest_bytes(&img) ^ p as u64));
            obs.label(&vname);
            if inside_op {
                obs.label("crash-inside-operation");
            }
            if nontrivial {
                obs.label("crash-inside-operation-partial-writes");
            }
            match reopen(img, &u.heights, &u.hashes).await {
                Err(e) => {
                    obs.fail(
                        "C22:reopen-failed",
                        format!("crash before log entry {p}/{} ({vname}, {} unsynced writes, ops returned {returned}, started {started}): {e}; history: {descs:?}", log.len(), m),
                    )?;
                }
                Ok(snap) => {
                    // must equal the model after some prefix k with returned <= k <= started
                    let lo = returned.min(ops_run);
                    let hi = started.min(ops_run);
                    let ok = (lo..=hi).any(|k| prefix_snaps[k] == snap);
                    if !ok {
                        let any_prefix = (0..=ops_run).find(|k| prefix_snaps[*k] == snap);
                        let sig = if any_prefix.is_some() { "C22:returned-operation-lost" } else { "C22:state-is-no-prefix" };
                        obs.fail(
                            sig,
                            format!(
                                "crash before log entry {p}/{} ({vname}, {m} unsynced writes): reopened state matches prefix {:?}, allowed prefixes {lo}..={hi}; vs prefix {hi}: {}; history: {descs:?}",
                                log.len(),
                                any_prefix,
                                diff(&snap, &prefix_snaps[hi])
                            ),
                        )?;
                    }
                }
            }
        }
        if p == log.len() {
            break;
        }
        match &log[p] {
            Entry::Sync => {
                for &i in &tail {
                    apply(&mut base, &log[i]);
                }
                tail.clear();
            }
            Entry::Write { .. } | Entry::SetLen(_) => tail.push(p),
            Entry::Start(k) => started = k + 1,
            Entry::Ret(k) => returned = k + 1,
        }
    }
    Ok(())
}

pub fn run(ctx: &mut Ctx) {
    ctx.assume("redb storage model: a `write` call is applied entirely or not at all; nothing written before a completed sync_data is lost; writes are not reordered across sync_data; set_len is ordered metadata and always survives");
    ctx.assume("the history's expected states come from the C19 model; histories are cut where the live store disagrees with the model (C19 judges that)");
    ctx.essential(&["crash-inside-operation-partial-writes", "all-unsynced-writes-lost", "all-unsynced-writes-kept", "single-write-dropped"]);
    ctx.set_shrink_iters(40);
    let (max_len, max_ops, cases) = match ctx.tier {
        Tier::Quick => (30, 14, 16),
        Tier::Thorough => (60, 40, 160),
    };
    ctx.proptest(
        "crash-points",
        "history (C19 op mix, 5..N ops) run once on RedbStore over a logging backend; EVERY log position (write / set_len / sync / op-start / op-return) is a crash point; surviving image = last synced image + subset of later whole writes (none, all, generated subsets, each single write dropped for tails <= 8). One evaluation per (crash point, subset). Non-trivial = crash strictly inside an operation with a partial subset (distinct by image digest)",
        cases,
        move || (c19::case_strategy(max_len, max_ops), any::<u64>()).prop_map(move |(mut history, subset_seed)| {
            history.ops.truncate(max_ops);
            CrashCase { history, subset_seed, thin: 1 }
        }),
        |case, obs| {
            let rt = tokio::runtime::Builder::new_current_thread().enable_all().build().unwrap();
            rt.block_on(run_case(case, obs))
        },
    );
    // batches larger than any plausible per-transaction chunk (the syncer inserts up to 512 headers at once)
    ctx.essential(&["large-batch-insert"]);
    let (lo, hi, cases) = match ctx.tier {
        Tier::Quick => (150usize, 230usize, 16),
        Tier::Thorough => (200, 600, 96),
    };
    ctx.proptest(
        "crash-points-large-batches",
        "same enumeration of every crash point, on histories of 3..6 ops whose inserts carry 65..200 headers (chains of 150..600 headers); the observable state is sampled on every 4th height/hash; subsets: none, all, one generated subset. Non-trivial as above",
        cases,
        move || {
            let big_insert = (
                prop_oneof![3 => Just(c19::Place::AboveHead), 1 => (1u8..4).prop_map(|gap| c19::Place::AboveGap { gap }), 1 => any::<u16>().prop_map(|g| c19::Place::GapFromAbove { g }), 1 => any::<u16>().prop_map(|g| c19::Place::GapFromBelow { g })],
                65u8..=200,
            )
                .prop_map(|(place, len)| Op::Insert { place, len, src: c19::Source::Honest, mal: c19::Malform::None });
            let op = prop_oneof![4 => big_insert, 1 => c19::op_strategy()];
            (c19::case_strategy(hi, 10), prop::collection::vec(op, 3..=6), any::<u64>()).prop_map(move |(mut history, ops, subset_seed)| {
                // make the chain long enough for the batches
                while history.chain.blocks.len() < lo {
                    let b = history.chain.blocks[history.chain.blocks.len() % 7].clone();
                    history.chain.blocks.push(lv_gen::chain::BlockSpec { next_set: None, ..b });
                }
                history.ops = ops;
                CrashCase { history, subset_seed, thin: 4 }
            })
        },
        |case, obs| {
            if case.history.ops.iter().any(|o| matches!(o, Op::Insert { len, .. } if *len >= 65)) {
                obs.label("large-batch-insert");
            }
            let rt = tokio::runtime::Builder::new_current_thread().enable_all().build().unwrap();
            rt.block_on(run_case(case, obs))
        },
    );
}
