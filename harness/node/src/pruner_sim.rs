//! Shared simulation code for C33/C34/C35:
//!   * `RecStore` / `RecBlockstore`: recording wrappers around `InMemoryStore` / `InMemoryBlockstore`
//!     (both are public lumina traits) that append every mutating call to one ordered log,
//!   * helpers for the paused-clock `current_thread` runtime and a thread-local panic probe,
//!   * the `PrunerSim` scenario interpreter (real `Pruner` over a mocked `Daser`) and the C35 oracle.
use std::collections::{BTreeMap, BTreeSet, HashSet};
use std::fmt::Display;
use std::sync::atomic::{AtomicU64, Ordering};
use std::sync::{Arc, Mutex, Once};
use std::time::Duration;

use async_trait::async_trait;
use blockstore::Blockstore;
use celestia_types::ExtendedHeader;
use celestia_types::hash::Hash;
use celestia_types::sample::SampleId;
use cid::{Cid, CidGeneric};
use libp2p::identity::Keypair;
use lumina_node::blockstore::InMemoryBlockstore;
use lumina_node::events::{EventSubscriber, NodeEvent};
use lumina_node::store::{BlockRanges, InMemoryStore, SamplingMetadata, Store, StoreError, VerifiedExtendedHeaders};
use lumina_node::verif::pruner_sim::{PrunerSim, VerifDaserCmd};
use lv_common::prelude::*;
use lv_common::{Prng, panic_sig};
use lv_gen::chain::{BlockSpec, ChainSpec, DahKind, TimeBase, build_chain};

// ------------------------------------------------------------------------------------------------
// recording wrappers

/// One mutating call on the store / blockstore, in the order the calls completed.
#[derive(Clone, Debug, PartialEq)]
pub enum Op {
    /// `Store::remove_height(h)` returned Ok; `meta` = CIDs of the sampling metadata the REAL store
    /// held for `h` immediately before the removal
    Remove { height: u64, meta: Vec<Cid> },
    /// `Store::remove_height(h)` returned an error
    RemoveFailed { height: u64, err: String },
    /// `Blockstore::remove(cid)` returned Ok (CID bytes)
    BsRemove(Vec<u8>),
    /// `Store::mark_as_sampled(h)` returned Ok
    MarkSampled(u64),
    /// `Store::update_sampling_metadata(h, cids)` returned Ok
    UpdateMeta(u64, Vec<Cid>),
}

pub type OpLog = Arc<Mutex<Vec<Op>>>;

pub fn new_log() -> OpLog {
    Arc::new(Mutex::new(Vec::new()))
}

/// `InMemoryStore` + call log. Every method delegates to the real store.
#[derive(Debug)]
pub struct RecStore {
    pub inner: InMemoryStore,
    pub log: OpLog,
}

impl RecStore {
    pub fn new(log: OpLog) -> Self {
        RecStore {
            inner: InMemoryStore::new(),
            log,
        }
    }
    fn push(&self, op: Op) {
        self.log.lock().unwrap().push(op);
    }
}

#[async_trait]
impl Store for RecStore {
    async fn get_head(&self) -> Result<ExtendedHeader, StoreError> {
        Store::get_head(&self.inner).await
    }
    async fn get_by_hash(&self, hash: &Hash) -> Result<ExtendedHeader, StoreError> {
        Store::get_by_hash(&self.inner, hash).await
    }
    async fn get_by_height(&self, height: u64) -> Result<ExtendedHeader, StoreError> {
        Store::get_by_height(&self.inner, height).await
    }
    async fn wait_new_head(&self) -> u64 {
        Store::wait_new_head(&self.inner).await
    }
    async fn wait_height(&self, height: u64) -> Result<(), StoreError> {
        Store::wait_height(&self.inner, height).await
    }
    async fn head_height(&self) -> Result<u64, StoreError> {
        Store::head_height(&self.inner).await
    }
    async fn has(&self, hash: &Hash) -> bool {
        Store::has(&self.inner, hash).await
    }
    async fn has_at(&self, height: u64) -> bool {
        Store::has_at(&self.inner, height).await
    }
    async fn update_sampling_metadata(&self, height: u64, cids: Vec<Cid>) -> Result<(), StoreError> {
        let r = Store::update_sampling_metadata(&self.inner, height, cids.clone()).await;
        if r.is_ok() {
            self.push(Op::UpdateMeta(height, cids));
        }
        r
    }
    async fn get_sampling_metadata(&self, height: u64) -> Result<Option<SamplingMetadata>, StoreError> {
        Store::get_sampling_metadata(&self.inner, height).await
    }
    async fn mark_as_sampled(&self, height: u64) -> Result<(), StoreError> {
        let r = Store::mark_as_sampled(&self.inner, height).await;
        if r.is_ok() {
            self.push(Op::MarkSampled(height));
        }
        r
    }
    async fn insert<R>(&self, headers: R) -> Result<(), StoreError>
    where
        R: TryInto<VerifiedExtendedHeaders> + Send,
        <R as TryInto<VerifiedExtendedHeaders>>::Error: Display,
    {
        Store::insert(&self.inner, headers).await
    }
    async fn get_stored_header_ranges(&self) -> Result<BlockRanges, StoreError> {
        Store::get_stored_header_ranges(&self.inner).await
    }
    async fn get_sampled_ranges(&self) -> Result<BlockRanges, StoreError> {
        Store::get_sampled_ranges(&self.inner).await
    }
    async fn get_pruned_ranges(&self) -> Result<BlockRanges, StoreError> {
        Store::get_pruned_ranges(&self.inner).await
    }
    async fn remove_height(&self, height: u64) -> Result<(), StoreError> {
        let meta = match Store::get_sampling_metadata(&self.inner, height).await {
            Ok(Some(m)) => m.cids,
            _ => Vec::new(),
        };
        match Store::remove_height(&self.inner, height).await {
            Ok(()) => {
                self.push(Op::Remove { height, meta });
                Ok(())
            }
            Err(e) => {
                self.push(Op::RemoveFailed {
                    height,
                    err: e.to_string(),
                });
                Err(e)
            }
        }
    }
    async fn get_identity(&self) -> Result<Keypair, StoreError> {
        Store::get_identity(&self.inner).await
    }
    async fn close(self) -> Result<(), StoreError> {
        Store::close(self.inner).await
    }
}

/// `InMemoryBlockstore` + call log.
pub struct RecBlockstore {
    pub inner: InMemoryBlockstore,
    pub log: OpLog,
}

impl RecBlockstore {
    pub fn new(log: OpLog) -> Self {
        RecBlockstore {
            inner: InMemoryBlockstore::new(),
            log,
        }
    }
}

impl Blockstore for RecBlockstore {
    async fn get<const S: usize>(&self, cid: &CidGeneric<S>) -> blockstore::Result<Option<Vec<u8>>> {
        self.inner.get(cid).await
    }
    async fn put_keyed<const S: usize>(&self, cid: &CidGeneric<S>, data: &[u8]) -> blockstore::Result<()> {
        self.inner.put_keyed(cid, data).await
    }
    async fn remove<const S: usize>(&self, cid: &CidGeneric<S>) -> blockstore::Result<()> {
        let r = self.inner.remove(cid).await;
        if r.is_ok() {
            self.log.lock().unwrap().push(Op::BsRemove(cid.to_bytes()));
        }
        r
    }
    async fn has<const S: usize>(&self, cid: &CidGeneric<S>) -> blockstore::Result<bool> {
        self.inner.has(cid).await
    }
    async fn close(self) -> blockstore::Result<()> {
        self.inner.close().await
    }
}

// ------------------------------------------------------------------------------------------------
// runtime + panic probe + watchdog bookkeeping

/// `current_thread` runtime with a paused clock: `lumina_utils::time::{sleep,timeout,Interval}` are
/// tokio's on native targets, so every timeout of the code under test elapses virtually.
pub fn paused_runtime() -> tokio::runtime::Runtime {
    tokio::runtime::Builder::new_current_thread()
        .enable_time()
        .start_paused(true)
        .build()
        .expect("tokio runtime")
}

thread_local! {
    static SIM_PANIC: std::cell::RefCell<Option<String>> = const { std::cell::RefCell::new(None) };
}
static PROBE: Once = Once::new();

/// Chain a panic hook that remembers, per thread, the last panic record. The sims run the code
/// under test in tokio tasks on the calling thread (tokio swallows task panics), so the probe is
/// exact even when the engine runs many cases in parallel threads.
pub fn install_panic_probe() {
    PROBE.call_once(|| {
        let prev = std::panic::take_hook();
        std::panic::set_hook(Box::new(move |info| {
            let loc = info
                .location()
                .map(|l| format!("{}:{}", l.file().rsplit("/repo/").next().unwrap_or(l.file()), l.line()))
                .unwrap_or_else(|| "?".into());
            let msg = if let Some(s) = info.payload().downcast_ref::<&str>() {
                (*s).to_string()
            } else if let Some(s) = info.payload().downcast_ref::<String>() {
                s.clone()
            } else {
                "<non-string panic>".into()
            };
            SIM_PANIC.with(|p| *p.borrow_mut() = Some(format!("{loc}: {msg}")));
            prev(info);
        }));
    });
}

pub fn clear_sim_panic() {
    SIM_PANIC.with(|p| *p.borrow_mut() = None);
}

/// A panic that happened on this thread (inside a tokio task) since the last clear.
pub fn take_sim_panic() -> Option<Failure> {
    SIM_PANIC
        .with(|p| p.borrow_mut().take())
        .map(|rec| Failure::new(panic_sig(&rec), format!("panic in a task of the code under test: {rec}")))
}

/// Outcome of a scenario that could not be judged (budget overrun, component died for a reason
/// outside the property). Never a violation: counted and turned into `ctx.inconclusive`.
#[derive(Debug)]
pub enum SimErr {
    Fail(Failure),
    Inconclusive(String),
}

impl From<Failure> for SimErr {
    fn from(f: Failure) -> Self {
        SimErr::Fail(f)
    }
}

#[derive(Default)]
pub struct Inconclusives {
    pub count: AtomicU64,
    pub first: Mutex<Option<String>>,
}

impl Inconclusives {
    pub fn record(&self, why: String) {
        self.count.fetch_add(1, Ordering::SeqCst);
        let mut g = self.first.lock().unwrap();
        if g.is_none() {
            *g = Some(why);
        }
    }
    pub fn report(&self, ctx: &mut Ctx, sub: &str) {
        let n = self.count.load(Ordering::SeqCst);
        if n > 0 {
            let first = self.first.lock().unwrap().clone().unwrap_or_default();
            ctx.inconclusive(format!("{sub}: {n} scenario(s) could not be judged; first: {first}"));
        }
    }
}

/// number of consecutive yields without any observable activity after which a sim is "settled"
pub const QUIET_YIELDS: u32 = 12;
/// yield budget of one settle (watchdog)
pub const SETTLE_BUDGET: u32 = 200_000;

pub fn sample_cid64(row: u16, col: u16, height: u64) -> Cid {
    let id = SampleId::new(row, col, height).expect("valid sample id");
    let small: CidGeneric<12> = id.into(); // SAMPLE_ID_SIZE
    let mh = cid::multihash::Multihash::<64>::wrap(small.hash().code(), small.hash().digest()).expect("fits");
    Cid::new_v1(small.codec(), mh)
}

// ------------------------------------------------------------------------------------------------
// PrunerSim scenario

#[derive(Clone, Debug, Serialize, Deserialize, PartialEq)]
pub enum PStep {
    /// let `ticks` block-times of virtual time pass
    Advance { ticks: u8 },
    /// really sleep `ms` milliseconds (the pruner's cache refresh is keyed on the std `Instant`)
    RealPause { ms: u8 },
    /// insert up to `n` new heights above the current top
    InsertHead { n: u8 },
    /// insert up to `n` never-synced heights adjacent to a stored range
    InsertHist { sel: u16, n: u8 },
    /// a stored, unsampled height finishes sampling (leaves in-progress, becomes sampled)
    MarkSampled { sel: u16 },
    /// the daser starts sampling a stored, unsampled, not-yet-granted height
    SetInProgress { sel: u16 },
    /// the daser gives up on a height (disconnect): leaves in-progress unsampled
    ClearInProgress { sel: u16 },
    /// stop answering `WantToPrune` until `Release`
    Hold,
    Release,
}

#[derive(Clone, Debug, Serialize, Deserialize, PartialEq)]
pub struct PrunerRecipe {
    pub seed: u64,
    /// smaller of the two windows, hours
    pub lo_h: u8,
    /// distance between the windows, hours
    pub diff_h: u8,
    /// true: pruning window is the smaller one ("prune as soon as sampled")
    pub pruning_smaller: bool,
    pub block_time_ms: u16,
    /// number of chain heights older than both cutoffs / between them / newer than both
    pub zones: (u8, u8, u8),
    /// initially stored ranges as (gap before, length)
    pub layout: Vec<(u8, u8)>,
    /// stored heights removed again before the pruner starts (they count as synced)
    pub pre_pruned: Vec<u16>,
    pub sampled_pct: u8,
    pub inprog_pct: u8,
    pub meta_pct: u8,
    pub steps: Vec<PStep>,
}

pub fn pruner_recipe_strategy(max_zone: u8, max_steps: usize) -> impl Strategy<Value = PrunerRecipe> {
    let step = prop_oneof![
        6 => (1u8..40).prop_map(|ticks| PStep::Advance { ticks }),
        2 => (1u8..4).prop_map(|ms| PStep::RealPause { ms }),
        2 => (1u8..5).prop_map(|n| PStep::InsertHead { n }),
        3 => (any::<u16>(), 1u8..6).prop_map(|(sel, n)| PStep::InsertHist { sel, n }),
        4 => any::<u16>().prop_map(|sel| PStep::MarkSampled { sel }),
        2 => any::<u16>().prop_map(|sel| PStep::SetInProgress { sel }),
        2 => any::<u16>().prop_map(|sel| PStep::ClearInProgress { sel }),
        3 => Just(PStep::Hold),
        3 => Just(PStep::Release),
    ];
    (
        (any::<u64>(), 4u8..=30, 4u8..=30, any::<bool>(), prop_oneof![Just(1u16), 2u16..20, 20u16..=1000]),
        (0u8..=max_zone, 0u8..=max_zone, 0u8..=max_zone),
        prop::collection::vec((prop_oneof![3 => Just(0u8), 2 => 1u8..4, 1 => 4u8..20], 1u8..30), 1..=5),
        prop::collection::vec(any::<u16>(), 0..6),
        (prop_oneof![Just(0u8), Just(100u8), 0u8..=100], prop_oneof![2 => Just(0u8), 3 => 0u8..=100], 0u8..=100),
        prop::collection::vec(step, 0..=max_steps),
    )
        .prop_map(
            |((seed, lo_h, diff_h, pruning_smaller, block_time_ms), zones, layout, pre_pruned, (sampled_pct, inprog_pct, meta_pct), steps)| {
                PrunerRecipe {
                    seed,
                    lo_h,
                    diff_h,
                    pruning_smaller,
                    block_time_ms,
                    zones,
                    layout,
                    pre_pruned,
                    sampled_pct,
                    inprog_pct,
                    meta_pct,
                    steps,
                }
            },
        )
}

/// Stable age class of a chain height (margins of >= 1 hour around both cutoffs).
#[derive(Clone, Copy, Debug, PartialEq, Eq)]
pub enum Zone {
    /// older than both cutoffs
    A,
    /// between the cutoffs
    B,
    /// newer than both cutoffs
    C,
}

const H: u64 = 3600;
/// extra heights (newest) reserved for `InsertHead`
const RESERVE: usize = 8;

/// ages (seconds) of `n` headers spread strictly inside (hi, lo), oldest first
fn spread(n: usize, hi: u64, lo: u64) -> Vec<u64> {
    (0..n).map(|k| hi - (hi - lo) * (k as u64 + 1) / (n as u64 + 1)).collect()
}

pub struct PrunerWorld {
    pub zones: Vec<Zone>,
    pub headers: Vec<ExtendedHeader>,
    pub pruning_window: Duration,
    pub sampling_window: Duration,
}

pub fn build_pruner_world(r: &PrunerRecipe) -> PrunerWorld {
    let lo = r.lo_h.max(4) as u64 * H;
    let hi = lo + r.diff_h.max(4) as u64 * H;
    let (na, nb, nc) = (r.zones.0 as usize, r.zones.1 as usize, r.zones.2 as usize + RESERVE);
    let mut ages = Vec::new();
    let mut zones = Vec::new();
    for a in spread(na, hi + 3 * H, hi + H) {
        ages.push(a);
        zones.push(Zone::A);
    }
    for a in spread(nb, hi - H, lo + H) {
        ages.push(a);
        zones.push(Zone::B);
    }
    for a in spread(nc, lo - H, H) {
        ages.push(a);
        zones.push(Zone::C);
    }
    let mut blocks = Vec::new();
    for i in 0..ages.len() {
        let dt_ms = if i == 0 { 1 } else { ((ages[i - 1] - ages[i]) * 1000).max(1) as u32 };
        blocks.push(BlockSpec {
            dt_ms,
            votes: vec![],
            dah: DahKind::Empty,
            next_set: None,
        });
    }
    let spec = ChainSpec {
        seed: r.seed,
        chain_id: "private".into(),
        start_height: 1,
        app_version: 3,
        time_base: TimeBase::AgoSecs(ages[0]),
        set0: vec![(0, 5000)],
        blocks,
    };
    let chain = build_chain(&spec);
    let (pw, sw) = if r.pruning_smaller { (lo, hi) } else { (hi, lo) };
    PrunerWorld {
        zones,
        headers: chain.headers,
        pruning_window: Duration::from_secs(pw),
        sampling_window: Duration::from_secs(sw),
    }
}

struct PModel {
    zones: Vec<Zone>,
    pruning_smaller: bool,
    stored: BTreeSet<u64>,
    pruned: BTreeSet<u64>,
    sampled: BTreeSet<u64>,
    in_progress: BTreeSet<u64>,
    granted: BTreeSet<u64>,
    bs_removed: HashSet<Vec<u8>>,
    log_pos: usize,
    removals: u64,
    hold: bool,
    held: Vec<(u64, tokio::sync::oneshot::Sender<bool>)>,
    refused: u64,
    protected_seen: bool,
}

impl PModel {
    fn zone(&self, h: u64) -> Zone {
        self.zones[(h - 1) as usize]
    }
    fn outside_pruning_window(&self, h: u64) -> bool {
        match self.zone(h) {
            Zone::A => true,
            Zone::B => self.pruning_smaller,
            Zone::C => false,
        }
    }
    fn inside_sampling_window(&self, h: u64) -> bool {
        match self.zone(h) {
            Zone::A => false,
            Zone::B => self.pruning_smaller,
            Zone::C => true,
        }
    }
    fn synced(&self, h: u64) -> bool {
        self.stored.contains(&h) || self.pruned.contains(&h)
    }
    /// "borders an unsynced gap": a neighbour height that exists is neither stored nor pruned
    fn borders_gap(&self, h: u64) -> bool {
        (h > 1 && !self.synced(h - 1)) || !self.synced(h + 1)
    }
    fn answer(&mut self, h: u64) -> bool {
        let ok = !self.in_progress.contains(&h);
        if ok {
            self.granted.insert(h);
        } else {
            self.refused += 1;
        }
        ok
    }
}

fn check_log(m: &mut PModel, log: &OpLog, obs: &mut Obs, rd: u64, nontrivial: bool) -> Result<(), Failure> {
    let ops: Vec<Op> = {
        let g = log.lock().unwrap();
        g[m.log_pos..].to_vec()
    };
    m.log_pos += ops.len();
    for op in ops {
        match op {
            Op::BsRemove(c) => {
                m.bs_removed.insert(c);
            }
            Op::Remove { height: h, meta } => {
                m.removals += 1;
                obs.eval(nontrivial.then(|| rd ^ h.wrapping_mul(0x9E3779B97F4A7C15)));
                obs.label("removal-evaluated");
                let z = m.zone(h);
                obs.label(match z {
                    Zone::A => "removed-older-than-both-windows",
                    Zone::B => "removed-between-the-windows",
                    Zone::C => "removed-newer-than-both-windows",
                });
                obs.check(m.outside_pruning_window(h), "C35:removed-inside-pruning-window", || {
                    format!("remove_height({h}) but the header is inside the pruning window (zone {z:?}, pruning window is the {} one)",
                        if m.pruning_smaller { "smaller" } else { "larger" })
                })?;
                if m.inside_sampling_window(h) {
                    obs.check(m.sampled.contains(&h), "C35:removed-unsampled-inside-sampling-window", || {
                        format!("remove_height({h}): header is inside the sampling window and was never marked sampled")
                    })?;
                    obs.check(!m.borders_gap(h), "C35:removed-edge-inside-sampling-window", || {
                        format!(
                            "remove_height({h}): header is inside the sampling window and borders an unsynced gap (synced {}: {}, synced {}: {})",
                            h.saturating_sub(1),
                            h > 1 && m.synced(h - 1),
                            h + 1,
                            m.synced(h + 1)
                        )
                    })?;
                    obs.label("removed-sampled-inside-sampling-window");
                }
                obs.check(!m.in_progress.contains(&h), "C35:removed-while-sampling-in-progress", || {
                    format!("remove_height({h}) while the daser has the block in progress (it answers WantToPrune({h}) with false)")
                })?;
                if !m.sampled.contains(&h) {
                    obs.label(if m.granted.contains(&h) { "removed-unsampled-with-permission" } else { "removed-unsampled-without-asking" });
                }
                if !meta.is_empty() {
                    obs.label("removal-with-cids");
                }
                for c in &meta {
                    obs.check(m.bs_removed.contains(&c.to_bytes()), "C35:header-removed-before-its-cids", || {
                        format!("remove_height({h}) before blockstore.remove of CID {c} recorded in its sampling metadata")
                    })?;
                }
                m.stored.remove(&h);
                m.sampled.remove(&h);
                m.pruned.insert(h);
            }
            Op::RemoveFailed { height, err } => {
                obs.note(format!("remove_height({height}) failed: {err}"));
                obs.label("remove-failed");
            }
            Op::MarkSampled(_) | Op::UpdateMeta(..) => {}
        }
    }
    Ok(())
}

async fn psettle(
    sim: &mut PrunerSim,
    events: &mut EventSubscriber,
    m: &mut PModel,
    log: &OpLog,
    obs: &mut Obs<'_>,
    rd: u64,
    nontrivial: bool,
) -> Result<(), SimErr> {
    let mut idle = 0u32;
    let mut iters = 0u32;
    let mut last_len = log.lock().unwrap().len();
    while idle < QUIET_YIELDS {
        tokio::task::yield_now().await;
        let mut act = false;
        loop {
            match sim.try_next_daser_cmd() {
                Ok(Some(VerifDaserCmd::WantToPrune { height, respond_to })) => {
                    act = true;
                    obs.label("want-to-prune-asked");
                    if m.hold {
                        m.held.push((height, respond_to));
                    } else {
                        let a = m.answer(height);
                        if !a {
                            obs.label("daser-refused");
                        }
                        let _ = respond_to.send(a);
                    }
                }
                Ok(Some(_)) => act = true,
                Ok(None) => break,
                Err(e) => return Err(SimErr::Inconclusive(format!("pruner sim: {e}"))),
            }
        }
        while let Ok(ev) = events.try_recv() {
            act = true;
            if let NodeEvent::FatalPrunerError { error } = ev.event {
                return Err(SimErr::Inconclusive(format!("pruner stopped with a fatal error: {error}")));
            }
        }
        let len = log.lock().unwrap().len();
        if len != last_len {
            last_len = len;
            act = true;
        }
        check_log(m, log, obs, rd, nontrivial)?;
        if let Some(f) = take_sim_panic() {
            return Err(f.into());
        }
        idle = if act { 0 } else { idle + 1 };
        iters += 1;
        if iters > SETTLE_BUDGET {
            return Err(SimErr::Inconclusive("pruner sim did not become quiescent within the yield budget".into()));
        }
    }
    Ok(())
}

fn stored_unsampled(m: &PModel) -> Vec<u64> {
    m.stored.iter().copied().filter(|h| !m.sampled.contains(h)).collect()
}

pub fn run_pruner_scenario(r: &PrunerRecipe, obs: &mut Obs) -> Result<(), SimErr> {
    install_panic_probe();
    clear_sim_panic();
    let world = build_pruner_world(r);
    let rd = digest_of(r);
    let rt = paused_runtime();
    rt.block_on(async {
        let log = new_log();
        let store = Arc::new(RecStore::new(log.clone()));
        let bs = Arc::new(RecBlockstore::new(log.clone()));
        let n_init = world.headers.len() - RESERVE;
        let mut m = PModel {
            zones: world.zones.clone(),
            pruning_smaller: r.pruning_smaller,
            stored: BTreeSet::new(),
            pruned: BTreeSet::new(),
            sampled: BTreeSet::new(),
            in_progress: BTreeSet::new(),
            granted: BTreeSet::new(),
            bs_removed: HashSet::new(),
            log_pos: 0,
            removals: 0,
            hold: false,
            held: Vec::new(),
            refused: 0,
            protected_seen: false,
        };
        // initial layout
        let mut cur = 1usize;
        for (gap, len) in &r.layout {
            let start = cur + *gap as usize;
            if start > n_init {
                break;
            }
            let end = (start + *len as usize - 1).min(n_init);
            let hs: Vec<ExtendedHeader> = world.headers[start - 1..end].to_vec();
            store.insert(hs).await.map_err(|e| SimErr::Inconclusive(format!("generator: initial insert {start}..={end} failed: {e}")))?;
            for h in start..=end {
                m.stored.insert(h as u64);
            }
            cur = end + 1;
        }
        // sampled / metadata / in-progress
        let mut rng = Prng::new(r.seed ^ 0xC35);
        let mut metas: BTreeMap<u64, Vec<Cid>> = BTreeMap::new();
        for h in m.stored.clone() {
            if rng.below(100) < r.sampled_pct as u64 {
                store.mark_as_sampled(h).await.map_err(|e| SimErr::Inconclusive(format!("generator: mark_as_sampled: {e}")))?;
                m.sampled.insert(h);
            }
            if rng.below(100) < r.meta_pct as u64 {
                let n = 1 + rng.below(4);
                let mut cids = Vec::new();
                for _ in 0..n {
                    let c = sample_cid64(rng.below(2) as u16, rng.below(2) as u16, h);
                    if !cids.contains(&c) {
                        bs.put_keyed(&c, &h.to_le_bytes()).await.map_err(|e| SimErr::Inconclusive(format!("generator: put_keyed: {e}")))?;
                        cids.push(c);
                    }
                }
                store.update_sampling_metadata(h, cids.clone()).await.map_err(|e| SimErr::Inconclusive(format!("generator: metadata: {e}")))?;
                metas.insert(h, cids);
            }
        }
        for sel in &r.pre_pruned {
            let v: Vec<u64> = m.stored.iter().copied().collect();
            if v.len() <= 1 {
                break;
            }
            let h = v[pick(*sel, v.len())];
            Store::remove_height(&store.inner, h).await.map_err(|e| SimErr::Inconclusive(format!("generator: pre-prune: {e}")))?;
            m.stored.remove(&h);
            m.sampled.remove(&h);
            m.pruned.insert(h);
        }
        for h in stored_unsampled(&m) {
            if rng.below(100) < r.inprog_pct as u64 {
                m.in_progress.insert(h);
            }
        }
        // which protections does this scenario exercise?
        let mut protections = 0;
        for h in m.stored.iter().copied() {
            if !m.outside_pruning_window(h) {
                protections |= 1;
            } else if m.inside_sampling_window(h) && !m.sampled.contains(&h) {
                protections |= 2;
                obs.label("protected-unsampled-in-sampling-window");
            } else if m.inside_sampling_window(h) && m.borders_gap(h) {
                protections |= 4;
                obs.label("protected-edge-in-sampling-window");
            } else if m.in_progress.contains(&h) {
                protections |= 8;
                obs.label("protected-in-progress");
            }
        }
        m.protected_seen = protections != 0;
        let nontrivial = m.protected_seen;
        obs.label(if r.pruning_smaller { "pruning-window-smaller" } else { "pruning-window-larger" });

        let (mut sim, mut events) = PrunerSim::start(
            store.clone(),
            bs.clone(),
            Duration::from_millis(r.block_time_ms.max(1) as u64),
            world.pruning_window,
            world.sampling_window,
        );
        let t0 = tokio::time::Instant::now();
        psettle(&mut sim, &mut events, &mut m, &log, obs, rd, nontrivial).await?;
        if tokio::time::Instant::now() != t0 {
            return Err(SimErr::Inconclusive("harness self-check: settling advanced the virtual clock".into()));
        }
        let bt = Duration::from_millis(r.block_time_ms.max(1) as u64);
        for step in &r.steps {
            match step {
                PStep::Advance { ticks } => {
                    if m.hold && !m.held.is_empty() {
                        // the pruner is blocked on an unanswered WantToPrune; nothing else has a timer
                        obs.label("advance-while-held");
                    }
                    tokio::time::sleep(bt * (*ticks as u32) + Duration::from_micros(1)).await;
                }
                PStep::RealPause { ms } => {
                    std::thread::sleep(Duration::from_millis(*ms as u64));
                    tokio::time::sleep(bt + Duration::from_micros(1)).await;
                    obs.label("real-pause");
                }
                PStep::InsertHead { n } => {
                    let top = m.stored.iter().next_back().copied().unwrap_or(0).max(m.pruned.iter().next_back().copied().unwrap_or(0));
                    let start = top + 1;
                    let end = (top + *n as u64).min(world.headers.len() as u64);
                    if start <= end {
                        let hs = world.headers[(start - 1) as usize..end as usize].to_vec();
                        store.insert(hs).await.map_err(|e| SimErr::Inconclusive(format!("generator: head insert {start}..={end}: {e}")))?;
                        for h in start..=end {
                            m.stored.insert(h);
                        }
                        obs.label("insert-head");
                    }
                }
                PStep::InsertHist { sel, n } => {
                    // never-synced runs adjacent to a stored height
                    let mut cands: Vec<(u64, u64)> = Vec::new();
                    let maxh = world.headers.len() as u64;
                    for &s in m.stored.iter() {
                        if s > 1 && !m.synced(s - 1) {
                            let mut lo = s - 1;
                            while lo > 1 && !m.synced(lo - 1) && s - lo < *n as u64 {
                                lo -= 1;
                            }
                            cands.push((lo, s - 1));
                        }
                        if s < maxh && !m.synced(s + 1) && m.stored.range(s + 1..).next().is_some() {
                            let mut hi = s + 1;
                            while hi < maxh && !m.synced(hi + 1) && hi - s < *n as u64 {
                                hi += 1;
                            }
                            cands.push((s + 1, hi));
                        }
                    }
                    if !cands.is_empty() {
                        let (lo, hi) = cands[pick(*sel, cands.len())];
                        let hs = world.headers[(lo - 1) as usize..hi as usize].to_vec();
                        store.insert(hs).await.map_err(|e| SimErr::Inconclusive(format!("generator: historical insert {lo}..={hi}: {e}")))?;
                        for h in lo..=hi {
                            m.stored.insert(h);
                        }
                        obs.label("insert-historical");
                    }
                }
                PStep::MarkSampled { sel } => {
                    let v = stored_unsampled(&m);
                    if !v.is_empty() {
                        let h = v[pick(*sel, v.len())];
                        // a granted height is never sampled by the real daser any more
                        if !m.granted.contains(&h) {
                            store.mark_as_sampled(h).await.map_err(|e| SimErr::Inconclusive(format!("generator: mark_as_sampled: {e}")))?;
                            m.sampled.insert(h);
                            m.in_progress.remove(&h);
                            obs.label("mark-sampled-midrun");
                        }
                    }
                }
                PStep::SetInProgress { sel } => {
                    let v: Vec<u64> = stored_unsampled(&m).into_iter().filter(|h| !m.granted.contains(h)).collect();
                    if !v.is_empty() {
                        let h = v[pick(*sel, v.len())];
                        m.in_progress.insert(h);
                    }
                }
                PStep::ClearInProgress { sel } => {
                    let v: Vec<u64> = m.in_progress.iter().copied().collect();
                    if !v.is_empty() {
                        let h = v[pick(*sel, v.len())];
                        m.in_progress.remove(&h);
                    }
                }
                PStep::Hold => m.hold = true,
                PStep::Release => {
                    m.hold = false;
                    for (h, tx) in std::mem::take(&mut m.held) {
                        let a = m.answer(h);
                        if !a {
                            obs.label("daser-refused");
                        }
                        let _ = tx.send(a);
                        obs.label("held-answer-released");
                    }
                }
            }
            psettle(&mut sim, &mut events, &mut m, &log, obs, rd, nontrivial).await?;
        }
        // final: release, let a few block-times pass, judge what was recorded
        m.hold = false;
        for (h, tx) in std::mem::take(&mut m.held) {
            let a = m.answer(h);
            let _ = tx.send(a);
        }
        psettle(&mut sim, &mut events, &mut m, &log, obs, rd, nontrivial).await?;
        tokio::time::sleep(bt * 3).await;
        psettle(&mut sim, &mut events, &mut m, &log, obs, rd, nontrivial).await?;
        // consistency of the model with the real store (harness self-check, not a property)
        let real: BTreeSet<u64> = store
            .get_stored_header_ranges()
            .await
            .map_err(|e| SimErr::Inconclusive(format!("store: {e}")))?
            .collect();
        if real != m.stored {
            return Err(SimErr::Inconclusive(format!("harness self-check: model stored set {:?} != real {:?}", m.stored, real)));
        }
        if m.removals == 0 {
            obs.eval(None);
            obs.label("nothing-removed");
        }
        if m.refused > 0 && m.removals > 0 {
            obs.label("scenario-with-refusal-and-removal");
        }
        let _ = metas;
        sim.stop();
        let _ = tokio::time::timeout(Duration::from_secs(3600), sim.join()).await;
        Ok(())
    })
}
