//! C37 — Header subscriptions deliver a gap-free increasing stream.
//!
//! The real `BroadcastingStore<InMemoryStore>` (hook `lumina_node::verif::subscriptions::BroadcastSim`)
//! is driven by a proptest recipe: the initial head H0 is inserted and announced exactly as the
//! syncer's `try_init` + `init_broadcast` do; the interval (H0, H0+n] and the history below H0 are cut
//! into ranges that are offered to `announce_insert` in recipe order (ranges the store rejects stay
//! available and are retried later); re-initialisations insert a new network head directly into the
//! inner store (as `try_init` does) and call `init_broadcast` again. Subscribers are eager tasks on
//! the same `current_thread` runtime which record, for every header received, whether the store
//! already held it at that moment.
use std::collections::BTreeSet;
use std::sync::atomic::{AtomicU64, Ordering};
use std::sync::{Arc, Mutex};

use celestia_types::ExtendedHeader;
use lumina_node::store::{InMemoryStore, Store};
use lumina_node::verif::subscriptions::BroadcastSim;
use lv_common::prelude::*;
use lv_gen::longchain::cached_chain;
use tokio::sync::broadcast::error::RecvError;

const CHAIN_SEED: u64 = 0xC37;
const MAX_HIST: u64 = 24;
const BASES: [u64; 3] = [1, 5000, (1 << 33) + 11];

static LAGGED_CASES: AtomicU64 = AtomicU64::new(0);

#[derive(Clone, Debug, Serialize, Deserialize, PartialEq)]
pub enum Op {
    /// offer one of the not-yet-inserted ranges (monotone selector, ascending by height)
    Offer(u16),
    /// re-initialisation with a new network head: selector 0 = the current store head (nothing to
    /// insert), otherwise a not-yet-stored height (descending)
    Reinit(u16),
    /// a second subscriber joins now
    LateSub,
}

#[derive(Clone, Debug, Serialize, Deserialize)]
pub struct Case {
    pub base: u8,
    /// number of historical headers below the initial head
    pub hist: u8,
    /// heights above the initial head
    pub n: u8,
    /// cut points of (H0, H0+n] and of the history (monotone selectors)
    pub up_cuts: Vec<u16>,
    pub hist_cuts: Vec<u16>,
    pub ops: Vec<Op>,
    /// first subscriber subscribes before the initial head is announced
    pub early_sub: bool,
    /// after the ops, offer everything that is left (highest first) until the store takes no more
    pub drain: bool,
}

fn case_strategy(max_n: u8, max_ops: usize) -> impl Strategy<Value = Case> {
    let op = prop_oneof![
        12 => any::<u16>().prop_map(Op::Offer),
        2 => prop_oneof![1 => Just(0u16), 3 => any::<u16>()].prop_map(Op::Reinit),
        1 => Just(Op::LateSub),
    ];
    (
        0u8..BASES.len() as u8,
        prop_oneof![1 => Just(0u8), 3 => 0u8..=MAX_HIST as u8],
        prop_oneof![1 => 1u8..=6, 3 => 1u8..=max_n],
        prop::collection::vec(any::<u16>(), 0..12),
        prop::collection::vec(any::<u16>(), 0..4),
        prop::collection::vec(op, 0..=max_ops),
        prop::bool::weighted(0.85),
        prop::bool::weighted(0.7),
    )
        .prop_map(|(base, hist, n, up_cuts, hist_cuts, ops, early_sub, drain)| Case {
            base,
            hist,
            n,
            up_cuts,
            hist_cuts,
            ops,
            early_sub,
            drain,
        })
}

fn chain_for(base: u8, max_n: u64) -> (u64, Arc<Vec<ExtendedHeader>>) {
    let b = BASES[(base as usize).min(BASES.len() - 1)];
    (b, cached_chain(CHAIN_SEED, b, (MAX_HIST + 1 + max_n) as usize))
}

/// cut `lo..=hi` into consecutive ranges at the selected points
fn partition(lo: u64, hi: u64, cuts: &[u16]) -> Vec<(u64, u64)> {
    if hi < lo {
        return vec![];
    }
    let len = (hi - lo + 1) as usize;
    // a cut at position p (1..len) starts a new range at lo + p
    let mut ps: BTreeSet<u64> = BTreeSet::new();
    if len > 1 {
        for c in cuts {
            ps.insert(1 + pick(*c, len - 1) as u64);
        }
    }
    let mut out = Vec::new();
    let mut a = lo;
    for p in ps {
        out.push((a, lo + p - 1));
        a = lo + p;
    }
    out.push((a, hi));
    out
}

#[derive(Default)]
struct SubLog {
    /// (height, store held this height when received, header equals the chain's)
    recs: Vec<(u64, bool, bool)>,
    lagged: Option<u64>,
}

fn spawn_subscriber(
    sim: &BroadcastSim,
    store: Arc<InMemoryStore>,
    chain: Arc<Vec<ExtendedHeader>>,
    base: u64,
) -> Arc<Mutex<SubLog>> {
    let log = Arc::new(Mutex::new(SubLog::default()));
    let mut rx = sim.subscribe();
    let l = log.clone();
    tokio::spawn(async move {
        loop {
            match rx.recv().await {
                Ok(h) => {
                    let height = h.height();
                    let stored = store.has_at(height).await;
                    let same = height >= base && chain.get((height - base) as usize).is_some_and(|c| *c == h);
                    l.lock().unwrap().recs.push((height, stored, same));
                }
                Err(RecvError::Lagged(n)) => {
                    l.lock().unwrap().lagged = Some(n);
                }
                Err(RecvError::Closed) => break,
            }
        }
    });
    log
}

async fn settle(logs: &[Arc<Mutex<SubLog>>]) {
    let total = |logs: &[Arc<Mutex<SubLog>>]| logs.iter().map(|l| l.lock().unwrap().recs.len()).sum::<usize>();
    let mut last = total(logs);
    let mut stable = 0;
    for _ in 0..100_000 {
        tokio::task::yield_now().await;
        let cur = total(logs);
        if cur == last {
            stable += 1;
            if stable >= 4 {
                break;
            }
        } else {
            stable = 0;
            last = cur;
        }
    }
}

struct Sim {
    chain: Arc<Vec<ExtendedHeader>>,
    base: u64,
    h0: u64,
    sim: BroadcastSim,
    store: Arc<InMemoryStore>,
    /// model: heights held by the store
    stored: BTreeSet<u64>,
    /// not yet inserted ranges, ascending
    avail: Vec<(u64, u64)>,
    early: Option<Arc<Mutex<SubLog>>>,
    /// late subscriber: its log, the early log position at subscription, `last_sent_height` at subscription
    late: Option<(Arc<Mutex<SubLog>>, usize, u64)>,
}

impl Sim {
    fn headers(&self, a: u64, b: u64) -> Vec<ExtendedHeader> {
        self.chain[(a - self.base) as usize..=(b - self.base) as usize].to_vec()
    }

    fn logs(&self) -> Vec<Arc<Mutex<SubLog>>> {
        self.early.iter().cloned().chain(self.late.iter().map(|l| l.0.clone())).collect()
    }

    /// top of the contiguous stored interval starting at H0
    fn contiguous_top(&self) -> u64 {
        let mut h = self.h0;
        while self.stored.contains(&(h + 1)) {
            h += 1;
        }
        h
    }

    fn lagged(&self) -> bool {
        self.logs().iter().any(|l| l.lock().unwrap().lagged.is_some())
    }

    /// Safety part of the oracle over everything received so far.
    fn check_safety(&self, obs: &mut Obs, hist: &str) -> Result<(), Failure> {
        let check_log = |obs: &mut Obs, name: &str, recs: &[(u64, bool, bool)]| -> Result<(), Failure> {
            for (i, (h, stored, same)) in recs.iter().enumerate() {
                obs.check(*stored, "C37:received-before-stored", || {
                    format!("{name} subscriber received height {h} while the store did not hold it; {hist}")
                })?;
                obs.check(*same, "C37:received-foreign-header", || {
                    format!("{name} subscriber received a header at height {h} that is not the inserted one; {hist}")
                })?;
                if i > 0 {
                    let prev = recs[i - 1].0;
                    obs.check(*h > prev, "C37:duplicate-or-decreasing", || {
                        format!("{name} subscriber received height {h} after {prev}; {hist}")
                    })?;
                    obs.check(*h == prev + 1, "C37:gap", || {
                        format!("{name} subscriber received height {h} right after {prev} (gap); {hist}")
                    })?;
                }
            }
            Ok(())
        };
        if let Some(e) = &self.early {
            let recs = e.lock().unwrap().recs.clone();
            if let Some((first, _, _)) = recs.first() {
                obs.check(*first == self.h0 || *first == self.h0 + 1, "C37:first-height-wrong", || {
                    format!("first height received is {first}, initial head is {}; {hist}", self.h0)
                })?;
            }
            check_log(obs, "early", &recs)?;
        }
        if let Some((l, pos, base_sent)) = &self.late {
            let recs = l.lock().unwrap().recs.clone();
            check_log(obs, "late", &recs)?;
            match &self.early {
                Some(e) => {
                    let e = e.lock().unwrap().recs.clone();
                    let tail: Vec<u64> = e.iter().skip(*pos).map(|r| r.0).collect();
                    let mine: Vec<u64> = recs.iter().map(|r| r.0).collect();
                    obs.check(tail == mine, "C37:subscribers-disagree", || {
                        format!("early subscriber received {tail:?} after the late one joined, the late one received {mine:?}; {hist}")
                    })?;
                }
                None => {
                    if let Some((first, _, _)) = recs.first() {
                        obs.check(*first == base_sent + 1, "C37:late-first-height-wrong", || {
                            format!("late subscriber joined after height {base_sent} was sent, its first height is {first}; {hist}")
                        })?;
                    }
                }
            }
        }
        Ok(())
    }

    /// Liveness part: heights in (H0, H] that some subscriber should have received and did not.
    fn undelivered(&self) -> Vec<u64> {
        let top = self.contiguous_top();
        let mut missing = BTreeSet::new();
        if let Some(e) = &self.early {
            let last = e.lock().unwrap().recs.last().map(|r| r.0).unwrap_or(self.h0);
            missing.extend(last + 1..=top);
        }
        if let (Some((l, _, base_sent)), None) = (&self.late, &self.early) {
            let last = l.lock().unwrap().recs.last().map(|r| r.0).unwrap_or(*base_sent);
            missing.extend(last + 1..=top);
        }
        missing.into_iter().collect()
    }
}

fn run_case(case: &Case, max_n: u64, obs: &mut Obs) -> Result<(), Failure> {
    let (base, chain) = chain_for(case.base, max_n);
    let hist = (case.hist as u64).min(MAX_HIST);
    let n = (case.n as u64).clamp(1, max_n);
    let h0 = base + hist;
    let want_late = case.ops.contains(&Op::LateSub);
    let early_sub = case.early_sub || !want_late;

    let rt = tokio::runtime::Builder::new_current_thread()
        .enable_time()
        .start_paused(true)
        .build()
        .expect("runtime");

    rt.block_on(async {
        let store = Arc::new(InMemoryStore::new());
        let mut s = Sim {
            chain: chain.clone(),
            base,
            h0,
            sim: BroadcastSim::new(store.clone()),
            store: store.clone(),
            stored: BTreeSet::new(),
            avail: Vec::new(),
            early: None,
            late: None,
        };
        s.avail.extend(partition(base, h0.wrapping_sub(1), &case.hist_cuts).into_iter().filter(|_| hist > 0));
        s.avail.extend(partition(h0 + 1, h0 + n, &case.up_cuts));
        let mut history: Vec<String> = Vec::new();
        macro_rules! hist_str {
            () => {
                format!("H0={h0}, history: [{}]", history.join(", "))
            };
        }

        // ---- initial head: try_init (insert into the inner store) + init_broadcast
        if early_sub {
            s.early = Some(spawn_subscriber(&s.sim, store.clone(), chain.clone(), base));
        }
        if let Err(e) = store.insert(s.headers(h0, h0)).await {
            return obs.fail("C37:harness-initial-insert", format!("initial head insert failed: {e}"));
        }
        s.stored.insert(h0);
        s.sim.init_broadcast(chain[(h0 - base) as usize].clone()).await;
        history.push(format!("init({h0})"));
        settle(&s.logs()).await;

        let mut live_ok = true;
        let mut pending_used = false;
        let mut reinit_ok = 0u32;
        let mut inserted_upper = 0u32;
        let mut checks = 0u64;

        enum Act {
            Offer(usize),
            Reinit(u16),
            LateSub,
        }
        let total_ops = case.ops.len();
        let mut op_i = 0usize;
        let mut draining = false;
        let mut drain_cursor: usize = 0;
        let mut drain_progress = false;
        loop {
            // ---- choose the next action
            let act = if op_i < total_ops {
                let op = &case.ops[op_i];
                op_i += 1;
                match op {
                    Op::Offer(sel) => {
                        if s.avail.is_empty() {
                            continue;
                        }
                        Act::Offer(pick(*sel, s.avail.len()))
                    }
                    Op::Reinit(sel) => Act::Reinit(*sel),
                    Op::LateSub => Act::LateSub,
                }
            } else if case.drain {
                if !draining {
                    draining = true;
                    drain_cursor = s.avail.len();
                    drain_progress = false;
                }
                if drain_cursor == 0 {
                    if !drain_progress || s.avail.is_empty() {
                        break;
                    }
                    drain_cursor = s.avail.len();
                    drain_progress = false;
                }
                drain_cursor -= 1;
                Act::Offer(drain_cursor)
            } else {
                break;
            };

            match act {
                Act::Offer(i) => {
                    let (a, b) = s.avail[i];
                    let upper = a > h0;
                    let before_top = s.contiguous_top();
                    let r = s.sim.announce_insert(s.headers(a, b)).await;
                    settle(&s.logs()).await;
                    match r {
                        Ok(()) => {
                            history.push(format!("insert({a}..={b})"));
                            s.avail.remove(i);
                            s.stored.extend(a..=b);
                            drain_progress = true;
                            if upper {
                                inserted_upper += 1;
                                if a != before_top + 1 {
                                    pending_used = true;
                                }
                            } else {
                                obs.label("historical-insert");
                            }
                        }
                        Err(_) => {
                            history.push(format!("insert({a}..={b})=rejected"));
                            obs.label("insert-rejected");
                        }
                    }
                    if s.lagged() {
                        break;
                    }
                    s.check_safety(obs, &hist_str!())?;
                    if r.is_ok() && upper {
                        checks += 1;
                        let missing = s.undelivered();
                        live_ok = missing.is_empty();
                        obs.check(live_ok, "C37:undelivered-after-insert", || {
                            format!(
                                "after announce_insert({a}..={b}) heights up to {} are stored contiguously above H0 but {missing:?} were not delivered (last_sent_height={:?}, pending={:?}); {}",
                                s.contiguous_top(),
                                s.sim.last_sent_height(),
                                s.sim.pending_ranges(),
                                hist_str!()
                            )
                        })?;
                    }
                }
                Act::Reinit(sel) => {
                    // candidates: the store head itself, then every not-yet-stored height, descending
                    let head = *s.stored.iter().next_back().expect("store not empty");
                    let mut cands = vec![head];
                    for (a, b) in s.avail.iter().rev() {
                        cands.extend((*a..=*b).rev());
                    }
                    let x = cands[pick(sel, cands.len())];
                    let net_head = chain[(x - base) as usize].clone();
                    // --- what syncer::try_init does with the store
                    let try_insert = match store.get_head().await {
                        Ok(sh) => sh.hash() != net_head.hash(),
                        Err(_) => true,
                    };
                    if try_insert {
                        if let Err(_e) = store.insert(vec![net_head.clone()]).await {
                            history.push(format!("reinit({x})=rejected"));
                            obs.label("reinit-rejected");
                            continue;
                        }
                        s.stored.insert(x);
                        // split the range that contained x
                        if let Some(i) = s.avail.iter().position(|(a, b)| *a <= x && x <= *b) {
                            let (a, b) = s.avail.remove(i);
                            if x < b {
                                s.avail.insert(i, (x + 1, b));
                            }
                            if a < x {
                                s.avail.insert(i, (a, x - 1));
                            }
                        }
                        obs.label("reinit-new-head");
                    } else {
                        obs.label("reinit-same-head");
                    }
                    s.sim.init_broadcast(net_head).await;
                    reinit_ok += 1;
                    history.push(format!("reinit({x})"));
                    settle(&s.logs()).await;
                    if s.lagged() {
                        break;
                    }
                    s.check_safety(obs, &hist_str!())?;
                    if live_ok {
                        checks += 1;
                        let missing = s.undelivered();
                        if !missing.is_empty() {
                            live_ok = false;
                            obs.label("reinit-completes-interval");
                            obs.label("reinit-completes-interval-undelivered");
                            obs.fail(
                                "C37:reinit-head-not-flushed-until-next-insert",
                                format!(
                                    "re-initialisation with head {x} completed the interval up to {} but {missing:?} were not delivered at quiescence (last_sent_height={:?}, pending={:?}); {}",
                                    s.contiguous_top(),
                                    s.sim.last_sent_height(),
                                    s.sim.pending_ranges(),
                                    hist_str!()
                                ),
                            )?;
                        } else if x > h0 && s.contiguous_top() >= x && try_insert && !s.logs().is_empty() {
                            obs.label("reinit-completes-interval");
                            obs.label("reinit-completes-interval-delivered");
                        }
                    }
                }
                Act::LateSub => {
                    if s.late.is_none() {
                        let pos = s.early.as_ref().map(|e| e.lock().unwrap().recs.len()).unwrap_or(0);
                        let sent = s.sim.last_sent_height().unwrap_or(h0);
                        let log = spawn_subscriber(&s.sim, store.clone(), chain.clone(), base);
                        s.late = Some((log, pos, sent));
                        history.push("late-subscribe".to_string());
                        obs.label("late-subscriber");
                        settle(&s.logs()).await;
                    }
                }
            }
        }

        if s.lagged() {
            LAGGED_CASES.fetch_add(1, Ordering::SeqCst);
            obs.label("harness-receiver-lagged");
            return Ok(());
        }

        // ---- final judgement at quiescence
        settle(&s.logs()).await;
        s.check_safety(obs, &hist_str!())?;
        let missing = s.undelivered();
        if live_ok {
            // nothing changed since the last passing check unless only rejected/historical ops followed
            obs.check(missing.is_empty(), "C37:undelivered-at-quiescence", || {
                format!("at the end {missing:?} are stored contiguously above H0 but undelivered; {}", hist_str!())
            })?;
        }
        checks += 1;
        let top = s.contiguous_top();
        let nontrivial = pending_used || reinit_ok > 0;
        obs.eval(nontrivial.then(|| digest_of(case)));
        obs.label_n("liveness-checkpoints", checks);
        if pending_used {
            obs.label("pending-used");
        }
        if reinit_ok > 0 {
            obs.label("reinit-ok");
        }
        if top == h0 + n && missing.is_empty() {
            obs.label("fully-delivered");
        }
        if inserted_upper >= 3 {
            obs.label("three-or-more-upper-ranges");
        }
        if h0 == 1 {
            obs.label("initial-head-is-1");
        }
        if !early_sub {
            obs.label("no-early-subscriber");
        }
        Ok(())
    })
}

pub fn run(ctx: &mut Ctx) {
    ctx.assume("ranges offered to announce_insert never contain or straddle last_sent_height (the caller's documented precondition, a debug_assert in the code): only not-yet-stored ranges are offered");
    ctx.assume("re-initialisation is modelled as syncer::try_init does it: compare the store head's hash with the network head, insert the head directly into the inner store, then init_broadcast; a rejected insert means no init_broadcast");
    ctx.assume("subscribers drain eagerly on the same current_thread runtime; a Lagged receiver is a harness fault (exit 2), not a finding");
    ctx.assume("liveness is judged at quiescence (all tasks idle) after each successful announce_insert above the initial head, after each re-initialisation and at the end");
    ctx.assume("first delivered height may be the initial head itself (DESIGN §7)");
    ctx.essential(&[
        "pending-used",
        "reinit-ok",
        "reinit-new-head",
        "reinit-same-head",
        "insert-rejected",
        "historical-insert",
        "late-subscriber",
        "fully-delivered",
        "three-or-more-upper-ranges",
        "reinit-completes-interval",
    ]);
    let max_n: u64 = 120;
    for b in 0..BASES.len() as u8 {
        if let Err(rec) = lv_common::no_panic(|| chain_for(b, max_n)) {
            ctx.inconclusive(format!("chain generator fault: {rec}"));
            return;
        }
    }
    let cases = ctx.tier.pick(20000, 300000);
    let max_ops = ctx.tier.pick(30, 60);
    ctx.set_shrink_iters(4000);
    ctx.proptest(
        "broadcast-history",
        "one BroadcastingStore history per case: initial head, a partition of (H0, H0+n] (n <= 120) and of up to 24 historical heights \
         offered in recipe order with rejected inserts retried, re-initialisations, an optional late subscriber, optional final drain; \
         non-trivial = some range had to wait in `pending` or a re-initialisation happened; distinct = digest of the recipe",
        cases,
        move || case_strategy(max_n as u8, max_ops),
        move |case, obs| run_case(case, max_n, obs),
    );
    let lagged = LAGGED_CASES.load(Ordering::SeqCst);
    if lagged > 0 {
        ctx.inconclusive(format!("{lagged} cases had a Lagged broadcast receiver (harness fault)"));
    }
}
