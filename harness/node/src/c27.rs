//! C27 — Verified header range requests terminate and never panic.
//!
//! `P2p::get_verified_headers_range(from, amount)` runs on a mocked `P2p` (hook
//! `lumina_node::verif::header_session::VerifP2p`, an additive copy of the test-only `P2p::mocked()`)
//! whose command channel is served by a simulated header-ex client that answers like the real
//! `HeaderExClientHandler`: a request that is not `is_valid()` gets `InvalidRequest`; any other request
//! gets the available prefix of the requested heights (optionally shortened by a per-request server
//! cap, never empty) or `HeaderNotFound` when the first requested height is not available.
//! Runtime: `current_thread`, `start_paused(true)`; every answer has a virtual latency.
use std::sync::Arc;
use std::time::Duration;

use celestia_proto::p2p::pb::HeaderRequest;
use celestia_proto::p2p::pb::header_request::Data;
use celestia_types::ExtendedHeader;
use celestia_types::hash::Hash;
use lumina_node::node::{HeaderExError, P2pError};
use lumina_node::verif::header_session::{VerifP2p, next_header_request};
use lv_common::prelude::*;
use lv_gen::longchain::cached_chain;

const CHAIN_SEED: u64 = 0xC27;
const MAX_FROM_IDX: usize = 40;
const MAX_SMALL: u64 = 600;
const CHAIN_LEN: usize = MAX_FROM_IDX + MAX_SMALL as usize + 2;
const BASES: [u64; 4] = [1, 1000, (1 << 32) + 5, i64::MAX as u64 - 1000];

/// budget of the property's "promptly": simulated requests / virtual seconds
const MAX_REQUESTS: u64 = 1000;
const MAX_VIRTUAL_SECS: u64 = 60;

#[derive(Clone, Debug, Serialize, Deserialize, PartialEq)]
pub enum Amount {
    Zero,
    Small(u16),
    Max,
    MaxM1,
    /// u64::MAX - h + d - 1 for d in 0..=2 (h = height of `from`): d = 0 is the largest amount whose
    /// range still fits in u64 (`h + 1 ..= u64::MAX - 1`), d = 1 ends at u64::MAX, d = 2 does not fit
    NearMaxMinusH(u8),
    Pow63,
    Pow32,
    /// just above the small domain, never served completely
    Medium(u16),
}

#[derive(Clone, Debug, Serialize, Deserialize, PartialEq)]
pub enum FromKind {
    Valid,
    /// data_hash does not match the DAH
    BadDataHash,
    /// all commit signatures dropped
    NoSignatures,
    /// validator set hash mismatch
    BadValidatorsHash,
}

#[derive(Clone, Debug, Serialize, Deserialize, PartialEq)]
pub enum Net {
    /// the network holds the whole chain
    All,
    /// the network holds only this many headers after `from`
    After(u16),
}

#[derive(Clone, Debug, Serialize, Deserialize)]
pub struct Case {
    pub base: u8,
    pub from_idx: u8,
    pub from: FromKind,
    pub amount: Amount,
    pub net: Net,
    /// per-request server caps (cycled); 0 = no cap
    pub caps: Vec<u8>,
    /// per-request latency in virtual milliseconds (cycled, +1)
    pub lat_ms: Vec<u8>,
}

fn case_strategy() -> impl Strategy<Value = Case> {
    let amount = prop_oneof![
        4 => Just(Amount::Zero),
        8 => (1u16..=MAX_SMALL as u16).prop_map(Amount::Small),
        2 => prop_oneof![Just(1u16), Just(8), Just(9), Just(64), Just(65), Just(512), Just(513), Just(600)].prop_map(Amount::Small),
        1 => Just(Amount::Max),
        1 => Just(Amount::MaxM1),
        3 => (0u8..=2).prop_map(Amount::NearMaxMinusH),
        1 => Just(Amount::Pow63),
        1 => Just(Amount::Pow32),
        1 => (601u16..5000).prop_map(Amount::Medium),
    ];
    let from = prop_oneof![
        12 => Just(FromKind::Valid),
        1 => Just(FromKind::BadDataHash),
        1 => Just(FromKind::NoSignatures),
        1 => Just(FromKind::BadValidatorsHash),
    ];
    let net = prop_oneof![5 => Just(Net::All), 2 => (0u16..=MAX_SMALL as u16).prop_map(Net::After)];
    (
        0u8..BASES.len() as u8,
        0u8..=MAX_FROM_IDX as u8,
        from,
        amount,
        net,
        prop_oneof![2 => Just(vec![]), 3 => prop::collection::vec(prop_oneof![2 => Just(0u8), 3 => 1u8..=64], 1..6)],
        prop::collection::vec(0u8..40, 0..6),
    )
        .prop_map(|(base, from_idx, from, amount, net, caps, lat_ms)| Case {
            base,
            from_idx,
            from,
            amount,
            net,
            caps,
            lat_ms,
        })
}

fn chain_for(base: u8) -> (u64, Arc<Vec<ExtendedHeader>>) {
    let b = BASES[(base as usize).min(BASES.len() - 1)];
    (b, cached_chain(CHAIN_SEED, b, CHAIN_LEN))
}

/// The request validity rule of the real client (`HeaderRequestExt::is_valid`), restated.
fn sim_request_is_valid(req: &HeaderRequest) -> bool {
    if usize::try_from(req.amount).is_err() || req.amount == 0 {
        return false;
    }
    match &req.data {
        None => false,
        Some(Data::Origin(0)) => req.amount == 1,
        Some(Data::Origin(_)) => true,
        Some(Data::Hash(h)) => h.len() == 32 && req.amount == 1,
    }
}

/// What the simulated network answers: headers of `chain` with height <= `net_head`.
fn sim_answer(req: &HeaderRequest, chain: &[ExtendedHeader], net_head: u64, cap: u64) -> Result<Vec<ExtendedHeader>, P2pError> {
    if !sim_request_is_valid(req) {
        return Err(P2pError::HeaderEx(HeaderExError::InvalidRequest));
    }
    let first = chain[0].height();
    let not_found = || Err(P2pError::HeaderEx(HeaderExError::HeaderNotFound));
    match &req.data {
        Some(Data::Origin(0)) => {
            if net_head < first {
                return not_found();
            }
            Ok(vec![chain[(net_head - first) as usize].clone()])
        }
        Some(Data::Origin(h)) => {
            let h = *h;
            if h < first || h > net_head {
                return not_found();
            }
            let avail = net_head - h + 1;
            let mut n = req.amount.min(avail);
            if cap > 0 {
                n = n.min(cap);
            }
            let a = (h - first) as usize;
            Ok(chain[a..a + n as usize].to_vec())
        }
        Some(Data::Hash(bytes)) => match chain.iter().find(|c| c.height() <= net_head && c.hash().as_bytes() == &bytes[..]) {
            Some(c) => Ok(vec![c.clone()]),
            None => not_found(),
        },
        None => unreachable!("checked by sim_request_is_valid"),
    }
}

/// make panic signatures independent of where the repo copy lives
fn strip_repo_prefix(rec: &str) -> &str {
    match rec.find("/repo/") {
        Some(i) => &rec[i + "/repo/".len()..],
        None => rec,
    }
}

enum Outcome {
    Done(Result<Vec<ExtendedHeader>, P2pError>),
    /// more than MAX_REQUESTS requests were served and the future is still pending
    RequestBudget,
    /// MAX_VIRTUAL_SECS of virtual time passed and the future is still pending
    TimeBudget,
    /// command channel closed (cannot happen: the handle keeps a sender)
    Closed,
}

fn run_case(case: &Case, obs: &mut Obs) -> Result<(), Failure> {
    let (base, chain) = chain_for(case.base);
    let from_idx = (case.from_idx as usize).min(MAX_FROM_IDX);
    let mut from = chain[from_idx].clone();
    let h = from.height();
    match case.from {
        FromKind::Valid => {}
        FromKind::BadDataHash => from.header.data_hash = Some(Hash::Sha256([9; 32])),
        FromKind::NoSignatures => from.commit.signatures.clear(),
        FromKind::BadValidatorsHash => from.header.validators_hash = Hash::Sha256([7; 32]),
    }
    let from_valid = from.validate().is_ok();
    if case.from != FromKind::Valid && from_valid {
        // generator did not manage to invalidate: treat as the valid case it is
        obs.label("from-mutation-still-valid");
    }

    let amount: u64 = match case.amount {
        Amount::Zero => 0,
        Amount::Small(a) => (a as u64).clamp(1, MAX_SMALL),
        Amount::Max => u64::MAX,
        Amount::MaxM1 => u64::MAX - 1,
        Amount::NearMaxMinusH(d) => u64::MAX - h - 1 + (d.min(2) as u64),
        Amount::Pow63 => 1 << 63,
        Amount::Pow32 => 1 << 32,
        Amount::Medium(a) => (a as u64).max(MAX_SMALL + 1),
    };
    // does `h + 1 ..= h + amount` fit in u64? (mathematically, independent of evaluation order)
    let range_fits = amount == 0 || (h as u128 + amount as u128) <= u64::MAX as u128;

    let chain_top = base + chain.len() as u64 - 1;
    let net_head = match case.net {
        Net::All => chain_top,
        Net::After(k) => (h + k as u64).min(chain_top),
    };
    let served_completely = amount >= 1 && amount <= MAX_SMALL && h + amount <= net_head;

    let caps = case.caps.clone();
    let lats = case.lat_ms.clone();
    let chain2 = chain.clone();
    let from2 = from.clone();

    let res = lv_common::no_panic(move || {
        let rt = tokio::runtime::Builder::new_current_thread()
            .enable_time()
            .start_paused(true)
            .build()
            .expect("runtime");
        rt.block_on(async move {
            let (p2p, mut handle) = VerifP2p::mocked();
            let fut = p2p.get_verified_headers_range(&from2, amount);
            tokio::pin!(fut);
            let deadline = tokio::time::Instant::now() + Duration::from_secs(MAX_VIRTUAL_SECS);
            let mut served = 0u64;
            loop {
                tokio::select! {
                    biased;
                    r = &mut fut => return (Outcome::Done(r), served),
                    req = next_header_request(&mut handle) => {
                        let Some(req) = req else { return (Outcome::Closed, served) };
                        if served >= MAX_REQUESTS {
                            return (Outcome::RequestBudget, served);
                        }
                        let cap = if caps.is_empty() { 0 } else { caps[served as usize % caps.len()] as u64 };
                        let lat = if lats.is_empty() { 0 } else { lats[served as usize % lats.len()] as u64 } + 1;
                        served += 1;
                        let answer = sim_answer(&req.request, &chain2, net_head, cap);
                        tokio::spawn(async move {
                            tokio::time::sleep(Duration::from_millis(lat)).await;
                            let _ = req.respond_to.send(answer);
                        });
                    }
                    _ = tokio::time::sleep_until(deadline) => return (Outcome::TimeBudget, served),
                }
            }
        })
    });

    // ---- classification
    let class = if !from_valid {
        "from-invalid"
    } else if amount == 0 {
        "amount-zero"
    } else if served_completely {
        "amount-small-served"
    } else if amount <= MAX_SMALL {
        "amount-small-partial-net"
    } else if !range_fits {
        "amount-huge-range-exceeds-u64"
    } else {
        "amount-huge-range-fits"
    };
    obs.label(class);
    if !case.caps.is_empty() && case.caps.iter().any(|c| *c > 0) {
        obs.label("capped-responses");
    }
    obs.eval(from_valid.then(|| digest_of(case)));

    let (outcome, served) = match res {
        Ok(x) => x,
        Err(rec) => {
            let sig = if rec.contains("overflow") {
                "C27:panic-arithmetic-overflow".to_string()
            } else {
                format!("C27:{}", lv_common::panic_sig(strip_repo_prefix(&rec)))
            };
            obs.fail(
                &sig,
                format!("get_verified_headers_range(from height {h}, amount {amount}) panicked: {rec} [{class}]"),
            )?;
            obs.label("panicked");
            return Ok(());
        }
    };
    match &outcome {
        Outcome::Done(Ok(_)) => obs.label("returned-ok"),
        Outcome::Done(Err(_)) => obs.label("returned-err"),
        Outcome::RequestBudget => obs.label("request-budget-exhausted"),
        Outcome::TimeBudget => obs.label("time-budget-exhausted"),
        Outcome::Closed => obs.label("channel-closed"),
    }

    if !from_valid {
        // only "never panics" is claimed; the code is expected to refuse, record what it did
        if let Outcome::Done(Err(_)) = outcome {
            obs.label("from-invalid-refused");
        }
        return Ok(());
    }

    if amount == 0 {
        match outcome {
            Outcome::Done(Ok(v)) => {
                obs.check(v.is_empty(), "C27:amount-zero-returned-headers", || {
                    format!("amount 0 after height {h}: returned {} headers", v.len())
                })?;
                obs.label("zero-returned-empty");
            }
            Outcome::Done(Err(_)) => obs.label("zero-returned-error"),
            _ => {
                obs.fail(
                    "C27:amount-zero-does-not-return",
                    format!(
                        "get_verified_headers_range(from height {h}, amount 0) still pending after {served} simulated requests / {MAX_VIRTUAL_SECS} virtual seconds (every request the session sent was answered like the real client would)"
                    ),
                )?;
            }
        }
        return Ok(());
    }

    if served_completely {
        let expected = &chain[from_idx + 1..from_idx + 1 + amount as usize];
        match outcome {
            Outcome::Done(Ok(v)) => {
                obs.check(v.as_slice() == expected, "C27:served-range-mismatch", || {
                    format!(
                        "from height {h} amount {amount}: returned heights {:?}.. ({} headers), expected {}..={}",
                        v.iter().take(5).map(|x| x.height()).collect::<Vec<_>>(),
                        v.len(),
                        h + 1,
                        h + amount
                    )
                })?;
            }
            Outcome::Done(Err(e)) => {
                obs.fail(
                    "C27:served-range-error",
                    format!("from height {h} amount {amount}: the network served every requested header but the call returned Err({e})"),
                )?;
            }
            _ => {
                obs.fail(
                    "C27:served-range-no-return",
                    format!("from height {h} amount {amount}: the network served every requested header but the call is still pending after {served} requests"),
                )?;
            }
        }
    }
    // everything else: only "no panic within the budget" (checked above)
    Ok(())
}

pub fn run(ctx: &mut Ctx) {
    ctx.enable_crash_sentinel();
    ctx.assume("the simulated header-ex client restates the real client's contract: !is_valid() => InvalidRequest; else the available prefix (>= 1 header, optionally capped by the server) or HeaderNotFound");
    ctx.assume("'promptly' for amount 0 = resolves within 1000 simulated requests / 60 virtual seconds (paused tokio clock)");
    ctx.assume("for amounts the network cannot serve completely (and huge amounts) only the absence of a panic within the same budget is asserted");
    ctx.assume("harness build has overflow-checks and debug-assertions ON, so arithmetic wrap shows up as a panic");
    ctx.essential(&[
        "amount-zero",
        "amount-small-served",
        "amount-small-partial-net",
        "amount-huge-range-exceeds-u64",
        "amount-huge-range-fits",
        "from-invalid",
        "from-invalid-refused",
        "returned-ok",
        "capped-responses",
    ]);
    for b in 0..BASES.len() as u8 {
        if let Err(rec) = lv_common::no_panic(|| chain_for(b)) {
            ctx.inconclusive(format!("chain generator fault: {rec}"));
            return;
        }
    }
    let cases = ctx.tier.pick(40000, 400000);
    ctx.proptest(
        "verified-range",
        "one call of get_verified_headers_range per case on a mocked P2p served by a simulated header-ex client; from = chain header \
         (or an invalidated copy), amount in {0, 1..600, 601..5000, 2^32, 2^63, u64::MAX-h-1..+1, MAX-1, MAX}, network holding all or a \
         prefix of the chain, per-request caps and latencies; non-trivial = `from` validates; distinct = digest of the recipe",
        cases,
        case_strategy,
        run_case,
    );
}
