//! C28 — Header-ex client accepts only well-formed, validated responses.
//!
//! Drives the real (private) `decode_and_verify_responses` through the `verif::header_ex` hook with
//! valid requests (`is_valid()` is the caller's precondition, checked through the hook for every
//! generated request) and response lists assembled from a generated universe: an honest chain, a fork
//! signed by the same validators, a fork signed by foreign validators, another chain at the same
//! heights, invalid-by-construction variants of all of those, status-code games, garbage.
//!
//! Oracle (soundness, exactly the property sentence): `Ok(hs)` implies
//!   * every `h` in `hs` passes `validate()`, is (typed-)equal to one of the offered bodies that carried
//!     status OK, and is not one of the offered invalid-by-construction bodies;
//!   * height request: 1 <= |hs| <= amount and heights are exactly start, start+1, … (no wrap-around);
//!   * hash request: |hs| = 1 and its hash is the requested one;  head request: |hs| = 1.
//! Anything else must be `Err`; a panic is a violation (the property says "is an error").
use std::cell::OnceCell;

use celestia_proto::header::pb::ExtendedHeader as RawExtendedHeader;
use celestia_proto::p2p::pb::{HeaderRequest, HeaderResponse};
use celestia_types::ExtendedHeader;
use lumina_node::verif::header_ex as hx;
use lv_common::prelude::*;
use lv_common::{Prng, no_panic};
use lv_gen::chain::{Chain, ChainSpec, TimeBase, build_chain, build_fork, chain_strategy, simple_chain_spec};
use lv_gen::headerex::{
    Damage, ReqData, STATUS_INVALID, STATUS_NOT_FOUND, STATUS_OK, damage_strategy, damaged_body, encode_header, make_request,
    panic_signature, raw_decode, raw_of, ref_request_is_valid,
};

const I64MAX: u64 = i64::MAX as u64;

#[derive(Clone, Debug, Serialize, Deserialize)]
pub enum ChainStart {
    One,
    Small(u16),
    Mid(u64),
    /// the last header of the chain has height i64::MAX (the largest tendermint height)
    TopI64,
}

#[derive(Clone, Debug, Serialize, Deserialize)]
pub enum StartSel {
    InChain(u16),
    Below(u8),
    Above(u8),
    One,
    /// u64::MAX - k
    NearU64Max(u8),
    /// i64::MAX + k
    NearI64Max(i8),
}

#[derive(Clone, Debug, Serialize, Deserialize)]
pub enum HashSel {
    Chain(u16),
    ForkSame(u16),
    ForkForeign(u16),
    Random(u64),
}

#[derive(Clone, Debug, Serialize, Deserialize)]
pub enum ReqSpec {
    Height { start: StartSel, amount: u8 },
    Hash(HashSel),
    Head,
}

#[derive(Clone, Debug, Serialize, Deserialize)]
pub enum Src {
    /// the honest header for position `k` of the answer (height start+k / the requested hash / the head)
    AtOffset(u8),
    Chain(u16),
    /// header of the same-validators fork at answer position k (right height, other hash)
    ForkSame(u8),
    ForkForeign(u8),
    /// header of another chain (other chain id, other keys) at answer position k
    OtherChain(u8),
    /// honest body with one byte flipped (may or may not stay valid)
    ByteFlip { k: u8, pos: u16, bit: u8 },
    Garbage { seed: u64, len: u16 },
    EmptyBody,
}

#[derive(Clone, Debug, Serialize, Deserialize)]
pub enum Status {
    Ok,
    NotFound,
    Invalid,
    Unknown(i32),
}

#[derive(Clone, Debug, Serialize, Deserialize)]
pub struct EntrySpec {
    pub src: Src,
    pub damage: Option<Damage>,
    pub status: Status,
}

#[derive(Clone, Debug, Serialize, Deserialize)]
pub enum RunLen {
    /// what an honest server with the whole chain would send: min(amount, available)
    Full,
    FullMinus(u8),
    /// exactly `amount` entries even when the chain is shorter (positions wrap to other headers)
    Amount,
    /// oversize
    AmountPlus(u8),
    Zero,
}

#[derive(Clone, Debug, Serialize, Deserialize)]
pub enum Base {
    Run(RunLen),
    Entries(Vec<EntrySpec>),
}

#[derive(Clone, Debug, Serialize, Deserialize)]
pub enum Edit {
    Replace { pos: u16, e: EntrySpec },
    Insert { pos: u16, e: EntrySpec },
    Remove { pos: u16 },
    Swap { a: u16, b: u16 },
    Dup { pos: u16 },
    SetStatus { pos: u16, status: Status },
    Damage { pos: u16, d: Damage },
    Reverse,
    Shuffle(u64),
    Truncate { len: u16 },
}

#[derive(Clone, Debug, Serialize, Deserialize)]
pub struct Trial {
    pub req: ReqSpec,
    pub base: Base,
    pub edits: Vec<Edit>,
}

#[derive(Clone, Debug, Serialize, Deserialize)]
pub struct Case {
    pub chain: ChainSpec,
    pub start: ChainStart,
    pub trials: Vec<Trial>,
}

// ------------------------------------------------------------------ strategies

fn status_strategy() -> impl Strategy<Value = Status> {
    prop_oneof![
        17 => Just(Status::Ok),
        1 => Just(Status::NotFound),
        1 => Just(Status::Invalid),
        1 => prop_oneof![Just(3), Just(1234), Just(-1), Just(i32::MAX), Just(257), any::<i32>()].prop_map(Status::Unknown),
    ]
}

fn small_u8() -> impl Strategy<Value = u8> {
    prop_oneof![4 => 0u8..4, 2 => 0u8..12, 1 => any::<u8>()]
}

fn src_strategy() -> impl Strategy<Value = Src> {
    prop_oneof![
        8 => small_u8().prop_map(Src::AtOffset),
        3 => any::<u16>().prop_map(Src::Chain),
        2 => small_u8().prop_map(Src::ForkSame),
        2 => small_u8().prop_map(Src::ForkForeign),
        2 => small_u8().prop_map(Src::OtherChain),
        2 => (small_u8(), any::<u16>(), 0u8..8).prop_map(|(k, pos, bit)| Src::ByteFlip { k, pos, bit }),
        1 => (any::<u64>(), prop_oneof![0u16..8, 0u16..2000]).prop_map(|(seed, len)| Src::Garbage { seed, len }),
        1 => Just(Src::EmptyBody),
    ]
}

fn entry_strategy() -> impl Strategy<Value = EntrySpec> {
    (src_strategy(), prop_oneof![3 => Just(None), 1 => damage_strategy().prop_map(Some)], status_strategy())
        .prop_map(|(src, damage, status)| EntrySpec { src, damage, status })
}

fn edit_strategy() -> impl Strategy<Value = Edit> {
    prop_oneof![
        4 => (any::<u16>(), entry_strategy()).prop_map(|(pos, e)| Edit::Replace { pos, e }),
        3 => (any::<u16>(), entry_strategy()).prop_map(|(pos, e)| Edit::Insert { pos, e }),
        3 => any::<u16>().prop_map(|pos| Edit::Remove { pos }),
        2 => (any::<u16>(), any::<u16>()).prop_map(|(a, b)| Edit::Swap { a, b }),
        3 => any::<u16>().prop_map(|pos| Edit::Dup { pos }),
        2 => (any::<u16>(), status_strategy()).prop_map(|(pos, status)| Edit::SetStatus { pos, status }),
        4 => (any::<u16>(), damage_strategy()).prop_map(|(pos, d)| Edit::Damage { pos, d }),
        1 => Just(Edit::Reverse),
        2 => any::<u64>().prop_map(Edit::Shuffle),
        1 => any::<u16>().prop_map(|len| Edit::Truncate { len }),
    ]
}

fn amount_strategy(max_amount: u8) -> impl Strategy<Value = u8> {
    prop_oneof![3 => Just(1u8), 4 => 2u8..=6, 2 => 7u8..=24, 1 => 25u8..=max_amount]
}

fn req_strategy(max_amount: u8) -> impl Strategy<Value = ReqSpec> {
    let start = prop_oneof![
        8 => any::<u16>().prop_map(StartSel::InChain),
        1 => (0u8..4).prop_map(StartSel::Below),
        1 => (0u8..4).prop_map(StartSel::Above),
        1 => Just(StartSel::One),
        4 => prop_oneof![3 => 0u8..6, 1 => 0u8..80].prop_map(StartSel::NearU64Max),
        2 => (-6i8..=6).prop_map(StartSel::NearI64Max),
    ];
    let hash = prop_oneof![
        5 => any::<u16>().prop_map(HashSel::Chain),
        1 => any::<u16>().prop_map(HashSel::ForkSame),
        1 => any::<u16>().prop_map(HashSel::ForkForeign),
        1 => any::<u64>().prop_map(HashSel::Random),
    ];
    prop_oneof![
        7 => (start, amount_strategy(max_amount)).prop_map(|(start, amount)| ReqSpec::Height { start, amount }),
        2 => hash.prop_map(ReqSpec::Hash),
        1 => Just(ReqSpec::Head),
    ]
}

fn trial_strategy(max_amount: u8) -> impl Strategy<Value = Trial> {
    let runlen = prop_oneof![
        8 => Just(RunLen::Full),
        3 => (1u8..4).prop_map(RunLen::FullMinus),
        2 => Just(RunLen::Amount),
        2 => (1u8..3).prop_map(RunLen::AmountPlus),
        1 => Just(RunLen::Zero),
    ];
    let base = prop_oneof![
        6 => runlen.prop_map(Base::Run),
        1 => prop::collection::vec(entry_strategy(), 0..6).prop_map(Base::Entries),
    ];
    (req_strategy(max_amount), base, prop_oneof![2 => Just(vec![]), 5 => prop::collection::vec(edit_strategy(), 1..=3)])
        .prop_map(|(req, base, edits)| Trial { req, base, edits })
}

fn case_strategy(short_max: usize, long_max: usize, max_amount: u8, trials: usize) -> impl Strategy<Value = Case> {
    let chain = prop_oneof![
        6 => chain_strategy(2..=short_max, 4, false, true),
        1 => (any::<u64>(), (long_max - 16)..=long_max)
            .prop_map(|(seed, len)| simple_chain_spec(seed, 1, len, TimeBase::Fixed(1_650_000_000 + seed % 1_000_000), 12_000)),
    ];
    let start = prop_oneof![
        3 => Just(ChainStart::One),
        3 => (2u16..2000).prop_map(ChainStart::Small),
        2 => ((1u64 << 32)..(1u64 << 62)).prop_map(ChainStart::Mid),
        2 => Just(ChainStart::TopI64),
    ];
    (chain, start, prop::collection::vec(trial_strategy(max_amount), trials..=trials + 4)).prop_map(|(chain, start, trials)| Case { chain, start, trials })
}

// ------------------------------------------------------------------ universe

struct Universe {
    chain: Chain,
    fork_same: OnceCell<Vec<ExtendedHeader>>,
    fork_foreign: OnceCell<Vec<ExtendedHeader>>,
    other: OnceCell<Vec<ExtendedHeader>>,
}

impl Universe {
    fn new(case: &Case) -> Universe {
        let mut spec = case.chain.clone();
        let l = spec.blocks.len() as u64;
        spec.start_height = match case.start {
            ChainStart::One => 1,
            ChainStart::Small(s) => s as u64,
            ChainStart::Mid(m) => m,
            ChainStart::TopI64 => I64MAX - (l - 1),
        };
        Universe {
            chain: build_chain(&spec),
            fork_same: OnceCell::new(),
            fork_foreign: OnceCell::new(),
            other: OnceCell::new(),
        }
    }
    fn len(&self) -> usize {
        self.chain.headers.len()
    }
    fn first(&self) -> u64 {
        self.chain.headers[0].height()
    }
    fn fork_same(&self) -> &Vec<ExtendedHeader> {
        self.fork_same.get_or_init(|| build_fork(&self.chain, 0, self.len(), 7, false))
    }
    fn fork_foreign(&self) -> &Vec<ExtendedHeader> {
        self.fork_foreign.get_or_init(|| build_fork(&self.chain, 0, self.len(), 9, true))
    }
    fn other(&self) -> &Vec<ExtendedHeader> {
        self.other.get_or_init(|| {
            let mut spec = self.chain.spec.clone();
            spec.seed ^= 0x0123_4567_89ab_cdef;
            spec.chain_id = format!("{}x", spec.chain_id);
            build_chain(&spec).headers
        })
    }
    fn idx_of_height(&self, h: u64) -> Option<usize> {
        let f = self.first();
        (h >= f && h - f < self.len() as u64).then(|| (h - f) as usize)
    }
}

/// What the answer positions of a request refer to.
enum Target {
    /// height request starting at `start`
    Height { start: u64, amount: u64 },
    /// hash request; the index of the requested header in (0 = chain, 1 = fork_same, 2 = fork_foreign) or none
    Hash { hash: Vec<u8>, at: Option<(u8, usize)> },
    Head,
}

struct Ent {
    resp: HeaderResponse,
    /// status OK and an undamaged honest/fork/other header: certainly valid, with its height
    plain_valid_height: Option<u64>,
    /// damaged by one of the invalid-by-construction operators (whatever the status)
    certainly_invalid: bool,
    /// unknown validity (byte flip)
    uncertain: bool,
    label: &'static str,
}

fn status_code(s: &Status) -> i32 {
    match s {
        Status::Ok => STATUS_OK,
        Status::NotFound => STATUS_NOT_FOUND,
        Status::Invalid => STATUS_INVALID,
        Status::Unknown(c) => *c,
    }
}

fn resolve_entry(u: &Universe, t: &Target, e: &EntrySpec) -> Ent {
    let l = u.len();
    // index into the universe for "answer position k"
    let pos_idx = |k: u8| -> usize {
        match t {
            Target::Height { start, .. } => match start.checked_add(k as u64).and_then(|h| u.idx_of_height(h)) {
                Some(i) => i,
                None => k as usize % l,
            },
            Target::Hash { at, .. } => (at.map(|(_, i)| i).unwrap_or(0) + k as usize) % l,
            Target::Head => (l - 1 + l - (k as usize % l)) % l,
        }
    };
    let (header, mut label): (Option<ExtendedHeader>, &'static str) = match &e.src {
        Src::AtOffset(k) => {
            let i = pos_idx(*k);
            match t {
                Target::Hash { at: Some((1, j)), .. } if *k == 0 => (Some(u.fork_same()[*j].clone()), "entry-right-position"),
                Target::Hash { at: Some((2, j)), .. } if *k == 0 => (Some(u.fork_foreign()[*j].clone()), "entry-right-position"),
                _ => (Some(u.chain.headers[i].clone()), "entry-right-position"),
            }
        }
        Src::Chain(sel) => (Some(u.chain.headers[pick(*sel, l)].clone()), "entry-other-chain-header"),
        Src::ForkSame(k) => (Some(u.fork_same()[pos_idx(*k)].clone()), "entry-fork-same-validators"),
        Src::ForkForeign(k) => (Some(u.fork_foreign()[pos_idx(*k)].clone()), "entry-fork-foreign-validators"),
        Src::OtherChain(k) => (Some(u.other()[pos_idx(*k)].clone()), "entry-foreign-chain"),
        Src::ByteFlip { k, .. } => (Some(u.chain.headers[pos_idx(*k)].clone()), "entry-byte-flipped"),
        Src::Garbage { .. } => (None, "entry-garbage-body"),
        Src::EmptyBody => (None, "entry-empty-body"),
    };
    let mut certainly_invalid = false;
    let mut uncertain = false;
    let body = match (&e.src, &header) {
        (Src::Garbage { seed, len }, _) => Prng::new(*seed).bytes(*len as usize),
        (Src::EmptyBody, _) => vec![],
        (Src::ByteFlip { pos, bit, .. }, Some(h)) => {
            let mut b = match e.damage {
                Some(d) => damaged_body(h, d),
                None => encode_header(h),
            };
            let p = pick(*pos, b.len());
            b[p] ^= 1 << bit;
            uncertain = true; // the flip could (in principle) undo a damage: claim nothing about validity
            b
        }
        (_, Some(h)) => match e.damage {
            Some(d) => {
                certainly_invalid = true;
                label = d.label();
                damaged_body(h, d)
            }
            None => encode_header(h),
        },
        (_, None) => vec![],
    };
    let code = status_code(&e.status);
    let plain_valid_height = match (&header, code == STATUS_OK, e.damage.is_none() && !uncertain) {
        (Some(h), true, true) => Some(h.height()),
        _ => None,
    };
    if code != STATUS_OK {
        label = match e.status {
            Status::NotFound => "entry-status-not-found",
            Status::Invalid => "entry-status-invalid",
            _ => "entry-status-unknown",
        };
    }
    Ent {
        resp: HeaderResponse { body, status_code: code },
        plain_valid_height,
        certainly_invalid,
        uncertain,
        label,
    }
}

fn apply_damage(u: &Universe, ent: &mut Ent, d: Damage) {
    // re-damage an existing entry: only meaningful when its body is a decodable header
    if let Some(raw) = raw_decode(&ent.resp.body) {
        if let Ok(h) = ExtendedHeader::try_from(raw) {
            ent.resp.body = damaged_body(&h, d);
            ent.certainly_invalid = true;
            ent.plain_valid_height = None;
            ent.label = d.label();
            return;
        }
    }
    let _ = u;
}

fn build_list(u: &Universe, t: &Target, trial: &Trial) -> Vec<Ent> {
    let l = u.len();
    let mut list: Vec<Ent> = match &trial.base {
        Base::Run(rl) => {
            let (amount, avail) = match t {
                Target::Height { start, amount } => {
                    // a start outside the chain has no honest answer: offer headers anyway (wrong heights)
                    let avail = u.idx_of_height(*start).map(|i| (l - i) as u64).unwrap_or(l as u64);
                    (*amount, avail)
                }
                Target::Hash { at, .. } => (1, at.is_some() as u64),
                Target::Head => (1, 1),
            };
            let full = amount.min(avail);
            let n = match rl {
                RunLen::Full => full,
                RunLen::FullMinus(k) => full.saturating_sub(*k as u64),
                RunLen::Amount => amount,
                RunLen::AmountPlus(k) => amount + *k as u64,
                RunLen::Zero => 0,
            };
            (0..n.min(90))
                .map(|k| {
                    resolve_entry(
                        u,
                        t,
                        &EntrySpec {
                            src: Src::AtOffset(k as u8),
                            damage: None,
                            status: Status::Ok,
                        },
                    )
                })
                .collect()
        }
        Base::Entries(es) => es.iter().map(|e| resolve_entry(u, t, e)).collect(),
    };
    for ed in &trial.edits {
        let n = list.len();
        match ed {
            Edit::Replace { pos, e } if n > 0 => {
                let p = pick(*pos, n);
                list[p] = resolve_entry(u, t, e);
            }
            Edit::Insert { pos, e } => {
                let p = pick(*pos, n + 1);
                list.insert(p, resolve_entry(u, t, e));
            }
            Edit::Remove { pos } if n > 0 => {
                list.remove(pick(*pos, n));
            }
            Edit::Swap { a, b } if n > 1 => {
                let (a, b) = (pick(*a, n), pick(*b, n));
                list.swap(a, b);
            }
            Edit::Dup { pos } if n > 0 => {
                let p = pick(*pos, n);
                let e = &list[p];
                let d = Ent {
                    resp: e.resp.clone(),
                    plain_valid_height: e.plain_valid_height,
                    certainly_invalid: e.certainly_invalid,
                    uncertain: e.uncertain,
                    label: e.label,
                };
                list.insert(p + 1, d);
            }
            Edit::SetStatus { pos, status } if n > 0 => {
                let p = pick(*pos, n);
                list[p].resp.status_code = status_code(status);
                if list[p].resp.status_code != STATUS_OK {
                    list[p].plain_valid_height = None;
                    list[p].label = "entry-status-changed";
                } else if list[p].plain_valid_height.is_none() {
                    // a body that was hidden behind a non-OK status is now visible: classify nothing
                    list[p].uncertain = true;
                }
            }
            Edit::Damage { pos, d } if n > 0 => {
                let p = pick(*pos, n);
                apply_damage(u, &mut list[p], *d);
            }
            Edit::Reverse => list.reverse(),
            Edit::Shuffle(seed) => {
                let mut r = Prng::new(*seed);
                for i in (1..list.len()).rev() {
                    let j = r.below(i as u64 + 1) as usize;
                    list.swap(i, j);
                }
            }
            Edit::Truncate { len } => {
                let k = pick(*len, n + 1);
                list.truncate(k);
            }
            _ => {}
        }
    }
    list
}

fn resolve_target(u: &Universe, req: &ReqSpec) -> (ReqData, u64, Target) {
    let l = u.len();
    match req {
        ReqSpec::Height { start, amount } => {
            let f = u.first();
            let s = match start {
                StartSel::InChain(sel) => f + pick(*sel, l) as u64,
                StartSel::Below(k) => f.saturating_sub(*k as u64 + 1).max(1),
                StartSel::Above(k) => f.saturating_add(l as u64 + *k as u64),
                StartSel::One => 1,
                StartSel::NearU64Max(k) => u64::MAX - *k as u64,
                StartSel::NearI64Max(k) => I64MAX.wrapping_add_signed(*k as i64),
            };
            let amount = (*amount).max(1) as u64;
            (ReqData::Origin(s), amount, Target::Height { start: s, amount })
        }
        ReqSpec::Hash(sel) => {
            let (hash, at) = match sel {
                HashSel::Chain(s) => {
                    let i = pick(*s, l);
                    (u.chain.headers[i].hash().as_bytes().to_vec(), Some((0u8, i)))
                }
                HashSel::ForkSame(s) => {
                    let i = pick(*s, l);
                    (u.fork_same()[i].hash().as_bytes().to_vec(), Some((1u8, i)))
                }
                HashSel::ForkForeign(s) => {
                    let i = pick(*s, l);
                    (u.fork_foreign()[i].hash().as_bytes().to_vec(), Some((2u8, i)))
                }
                HashSel::Random(seed) => (Prng::new(*seed).bytes(32), None),
            };
            (ReqData::Hash(hash.clone()), 1, Target::Hash { hash, at })
        }
        ReqSpec::Head => (ReqData::Origin(0), 1, Target::Head),
    }
}

/// Classification of the offered list from the construction (labels only, never asserted).
fn classify(t: &Target, list: &[Ent]) -> &'static str {
    if list.is_empty() {
        return "class-empty";
    }
    let amount = match t {
        Target::Height { amount, .. } => *amount,
        _ => 1,
    };
    if list.len() as u64 > amount {
        return "class-oversize";
    }
    let mut prefix: Vec<u64> = Vec::new();
    for e in list {
        if e.uncertain {
            return "class-uncertain";
        }
        match e.plain_valid_height {
            Some(h) => prefix.push(h),
            None => break,
        }
    }
    if prefix.is_empty() {
        return "class-first-entry-bad";
    }
    let partial = prefix.len() < list.len();
    let in_order = prefix.windows(2).all(|w| w[0] < w[1]);
    let mut sorted = prefix.clone();
    sorted.sort_unstable();
    match t {
        Target::Height { start, .. } => {
            let exact = sorted.iter().enumerate().all(|(i, h)| start.checked_add(i as u64) == Some(*h));
            if exact {
                match (partial, in_order) {
                    (false, true) => "class-exact-run",
                    (false, false) => "class-shuffled-run",
                    (true, _) => "class-valid-prefix-then-bad",
                }
            } else if sorted.windows(2).any(|w| w[0] == w[1]) {
                "class-duplicate-heights"
            } else if sorted[0] != *start {
                "class-wrong-start"
            } else {
                "class-gap"
            }
        }
        Target::Hash { .. } => "class-hash-single",
        Target::Head => "class-head-single",
    }
}

fn run_trial(u: &Universe, trial: &Trial, obs: &mut Obs) -> Result<(), Failure> {
    let (data, amount, target) = resolve_target(u, &trial.req);
    let request: HeaderRequest = make_request(&data, amount);
    // caller precondition, through the real predicate; the generator must only produce valid requests
    if !hx::header_request_is_valid(&request) || !ref_request_is_valid(&data, amount) {
        return Err(Failure::new("gen", format!("generator produced a request the client would never send: {request:?}")));
    }
    let list = build_list(u, &target, trial);
    let responses: Vec<HeaderResponse> = list.iter().map(|e| e.resp.clone()).collect();
    let class = classify(&target, &list);

    // digest / non-trivial rule
    let mut dg = digest_of(&request);
    for r in &responses {
        dg = dg.rotate_left(7) ^ digest_bytes(&r.body) ^ (r.status_code as u64).wrapping_mul(0x9E37_79B9);
    }
    let boundary = matches!(target, Target::Height { start, .. } if start > u64::MAX - 80 || (start > I64MAX - 80 && start < I64MAX + 80));
    let nontrivial = class != "class-exact-run" || boundary;
    obs.eval(nontrivial.then_some(dg));
    obs.label(match target {
        Target::Height { .. } => "req-height",
        Target::Hash { .. } => "req-hash",
        Target::Head => "req-head",
    });
    if let Target::Height { start, .. } = target {
        if start > u64::MAX - 80 {
            obs.label("start-near-u64-max");
        } else if start > I64MAX - 80 && start < I64MAX + 80 {
            obs.label("start-near-i64-max");
        }
    }
    for e in &list {
        obs.label(e.label);
    }
    obs.label(class);

    // a fresh runtime per call: a panic inside `block_on` leaves a current-thread runtime unusable
    let result = no_panic(|| {
        let rt = tokio::runtime::Builder::new_current_thread().build().unwrap();
        rt.block_on(hx::decode_and_verify_responses(&request, &responses))
    });
    let describe = || {
        let offered: Vec<String> = list
            .iter()
            .map(|e| match e.plain_valid_height {
                Some(h) => format!("valid@{h}"),
                None => format!("{}(status {})", e.label, e.resp.status_code),
            })
            .collect();
        format!("request {request:?}; offered [{}]", offered.join(", "))
    };
    let hs = match result {
        Err(rec) => {
            obs.label("outcome-panic");
            return obs.fail(&panic_signature("C28", &rec), format!("decode_and_verify_responses panicked ({rec}) instead of returning an error; {}", describe()));
        }
        Ok(Err(_)) => {
            obs.label("outcome-err");
            obs.label(&format!("err/{class}"));
            if matches!(class, "class-exact-run" | "class-shuffled-run" | "class-valid-prefix-then-bad" | "class-hash-single" | "class-head-single") {
                // not required by the property sentence (soundness only): hash/head singles with the wrong header land here legitimately
                if class.starts_with("class-exact") {
                    obs.note(format!("observation (not asserted): exact honest run rejected; {}", describe()));
                }
            }
            return Ok(());
        }
        Ok(Ok(hs)) => hs,
    };
    obs.label("outcome-ok");
    obs.label(&format!("ok/{class}"));

    // "of at most the requested amount ... anything else is an error": a response carrying more entries than
    // the request asked for (whatever the surplus entries are) is not a well-formed response
    {
        let asked = match &target {
            Target::Height { amount, .. } => *amount,
            _ => 1,
        };
        if list.len() as u64 > asked {
            obs.fail(
                "C28:oversize-response-accepted",
                format!("a response with {} entries was accepted for a request of {asked}; {}", list.len(), describe()),
            )?;
        }
    }

    // ---- oracle on the accepted value
    let offered_ok_typed: Vec<ExtendedHeader> = list
        .iter()
        .filter(|e| e.resp.status_code == STATUS_OK)
        .filter_map(|e| raw_decode(&e.resp.body).and_then(|r| ExtendedHeader::try_from(r).ok()))
        .collect();
    let offered_nonok_raw: Vec<RawExtendedHeader> = list.iter().filter(|e| e.resp.status_code != STATUS_OK).filter_map(|e| raw_decode(&e.resp.body)).collect();
    let invalid_raw: Vec<RawExtendedHeader> = list.iter().filter(|e| e.certainly_invalid).filter_map(|e| raw_decode(&e.resp.body)).collect();
    for h in &hs {
        let raw = raw_of(h);
        if invalid_raw.iter().any(|r| *r == raw) {
            obs.fail(
                "C28:accepted-invalid-header",
                format!("accepted header at height {} is one of the offered invalid-by-construction bodies; {}", h.height(), describe()),
            )?;
        }
        if let Err(e) = h.validate() {
            obs.fail("C28:accepted-unvalidated-header", format!("accepted header at height {} fails validate(): {e}; {}", h.height(), describe()))?;
        }
        if !offered_ok_typed.iter().any(|o| o == h) {
            if offered_nonok_raw.iter().any(|r| *r == raw) {
                obs.fail(
                    "C28:accepted-header-from-non-ok-entry",
                    format!("accepted header at height {} was only offered in an entry whose status code is not OK; {}", h.height(), describe()),
                )?;
            } else {
                obs.fail("C28:accepted-header-not-offered", format!("accepted header at height {} is none of the offered bodies; {}", h.height(), describe()))?;
            }
        }
    }
    match &target {
        Target::Height { start, amount } => {
            if hs.is_empty() {
                obs.fail("C28:accepted-empty", format!("Ok(empty) for a height request; {}", describe()))?;
            }
            if hs.len() as u64 > *amount {
                obs.fail("C28:accepted-more-than-amount", format!("accepted {} headers for amount {amount}; {}", hs.len(), describe()))?;
            }
            let got: Vec<u64> = hs.iter().map(|h| h.height()).collect();
            let exact = got.iter().enumerate().all(|(i, h)| start.checked_add(i as u64) == Some(*h));
            if !exact {
                obs.fail(
                    "C28:accepted-wrong-heights",
                    format!("accepted heights {got:?} for a request starting at {start} (amount {amount}); {}", describe()),
                )?;
            }
        }
        Target::Hash { hash, .. } => {
            if hs.len() != 1 {
                obs.fail("C28:hash-accepted-not-single", format!("accepted {} headers for a hash request; {}", hs.len(), describe()))?;
            } else if hs[0].hash().as_bytes() != &hash[..] {
                obs.fail("C28:accepted-hash-mismatch", format!("accepted header with hash {} for a request of hash {}; {}", hs[0].hash(), hex::encode(hash), describe()))?;
            }
        }
        Target::Head => {
            if hs.len() != 1 {
                obs.fail("C28:head-accepted-not-single", format!("accepted {} headers for a head request; {}", hs.len(), describe()))?;
            }
        }
    }
    Ok(())
}

pub fn run(ctx: &mut Ctx) {
    ctx.enable_crash_sentinel();
    ctx.assume("header bodies are produced with celestia-types' own protobuf encoder; validity of accepted headers is re-checked with ExtendedHeader::validate (C01 owns its correctness) and, independently, against bodies that are invalid by construction (all signatures broken, DAH removed/cleared/foreign, header field tampered, foreign validator set, forged height)");
    ctx.assume("requests satisfy HeaderRequestExt::is_valid (caller precondition; checked through the hook for every generated request)");
    ctx.assume("the client does not verify chain linkage (documented: done in get_verified_headers_range), so individually valid fork / foreign-chain headers at the right heights are legitimately accepted");
    ctx.essential(&[
        "req-height",
        "req-hash",
        "req-head",
        "start-near-u64-max",
        "start-near-i64-max",
        "ok/class-exact-run",
        "ok/class-shuffled-run",
        "ok/class-valid-prefix-then-bad",
        "ok/class-hash-single",
        "ok/class-head-single",
        "err/class-empty",
        "err/class-oversize",
        "err/class-first-entry-bad",
        "err/class-gap",
        "err/class-duplicate-heights",
        "err/class-wrong-start",
        "err/class-hash-single",
        "invalid-all-signatures-broken",
        "invalid-dah-cleared",
        "invalid-height-forged",
        "entry-status-unknown",
        "entry-status-not-found",
        "entry-fork-same-validators",
        "entry-foreign-chain",
        "entry-garbage-body",
    ]);
    ctx.set_shrink_iters(400);
    let (cases, short_max, long_max, trials) = match ctx.tier {
        Tier::Quick => (1600u32, 12usize, 76usize, 12usize),
        Tier::Thorough => (40_000, 24, 90, 24),
    };
    let rule = "per generated universe (honest multi-validator chain with rotation starting at 1 / small / mid / ending at i64::MAX, same-validator fork, foreign-validator fork, foreign chain) 12..28 (request, response list) pairs: height requests with start in/below/above the chain, 1, u64::MAX-k, i64::MAX+-k and amount 1..70, hash requests (chain, fork, random), head requests; lists = honest run (full, short, exactly amount, oversize, empty) or free entries, then 0..3 edits (replace/insert/remove/swap/dup/status/damage/reverse/shuffle/truncate). One evaluation per pair. Non-trivial = the list is not the plain in-order honest run, or the start is within 80 of u64::MAX / i64::MAX (distinct by request + bodies + status codes)";
    ctx.proptest(
        "responses",
        rule,
        cases,
        move || case_strategy(short_max, long_max, 70, trials),
        |case, obs| {
            let u = Universe::new(case);
            for t in &case.trials {
                run_trial(&u, t, obs)?;
            }
            Ok(())
        },
    );
}
