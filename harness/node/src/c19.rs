//! C19 / C20 / C21 — one stateful store machine, three invariants, evaluated in lock-step on
//! `InMemoryStore` and `RedbStore::in_memory()`.
//!
//!  * C19: after every operation both stores' observable state and returned error kinds equal an
//!    abstract model's.
//!  * C20: an operation that returned an error leaves every observable query result unchanged
//!    (snapshot of the store itself before/after — independent of the model), and the corrected
//!    batch is insertable afterwards.
//!  * C21: in every reached state consecutive stored headers are hash-linked adjacent successors
//!    and lookup by hash returns the same header at its height.

use std::collections::{BTreeMap, BTreeSet};

use celestia_types::ExtendedHeader;
use celestia_types::hash::Hash;
use cid::Cid;
use lumina_node::store::{InMemoryStore, RedbStore, Store, StoreError, StoreInsertionError};
use lv_common::prelude::*;
use lv_gen::chain::{Chain, ChainSpec, build_chain, build_fork, chain_strategy};

#[derive(Clone, Debug, Serialize, Deserialize)]
pub struct ForkSpec {
    pub from: u16,
    pub len: u8,
    pub salt: u8,
    pub foreign: bool,
}

#[derive(Clone, Copy, Debug, Serialize, Deserialize, PartialEq)]
pub enum Source {
    Honest,
    Fork(u8),
}

#[derive(Clone, Debug, Serialize, Deserialize)]
pub enum Place {
    /// directly above the head
    AboveHead,
    /// new head range above a gap of `gap` heights
    AboveGap { gap: u8 },
    /// below gap `g`-th (counted from the top): adjacent to the range below it
    GapFromBelow { g: u16 },
    /// adjacent to the range above the gap
    GapFromAbove { g: u16 },
    /// fill a gap exactly (len ignored)
    Bridge { g: u16 },
    /// anywhere
    At { start: u16 },
}

#[derive(Clone, Debug, Serialize, Deserialize)]
pub enum Malform {
    None,
    SwapTwo { i: u16, j: u16 },
    DropOne { i: u16 },
    Empty,
    /// header j carries the hash of a stored header (and header j+1 is re-linked to it so that the
    /// internal adjacency check passes); only meaningful when something is stored
    DupHash { j: u16, of: u16 },
    /// source switches to a fork in the middle of the batch
    SpliceFork { at: u16, fork: u8 },
    /// header j carries the hash of header i of the SAME batch (i < j); header j+1 is re-linked
    DupInBatch { i: u16, j: u16 },
}

#[derive(Clone, Debug, Serialize, Deserialize)]
pub enum Op {
    Insert { place: Place, len: u8, src: Source, mal: Malform },
    Remove { h: u16, stored_bias: bool },
    MarkSampled { h: u16, stored_bias: bool },
    UpdateMeta { h: u16, stored_bias: bool, cids: Vec<u8> },
}

#[derive(Clone, Debug, Serialize, Deserialize)]
pub struct Case {
    pub chain: ChainSpec,
    pub forks: Vec<ForkSpec>,
    pub ops: Vec<Op>,
}

fn place_strategy() -> impl Strategy<Value = Place> {
    prop_oneof![
        4 => Just(Place::AboveHead),
        2 => (1u8..6).prop_map(|gap| Place::AboveGap { gap }),
        2 => any::<u16>().prop_map(|g| Place::GapFromBelow { g }),
        3 => any::<u16>().prop_map(|g| Place::GapFromAbove { g }),
        2 => any::<u16>().prop_map(|g| Place::Bridge { g }),
        2 => any::<u16>().prop_map(|start| Place::At { start }),
    ]
}

fn malform_strategy() -> impl Strategy<Value = Malform> {
    prop_oneof![
        10 => Just(Malform::None),
        1 => (any::<u16>(), any::<u16>()).prop_map(|(i, j)| Malform::SwapTwo { i, j }),
        1 => any::<u16>().prop_map(|i| Malform::DropOne { i }),
        1 => Just(Malform::Empty),
        3 => (any::<u16>(), any::<u16>()).prop_map(|(j, of)| Malform::DupHash { j, of }),
        1 => (any::<u16>(), 0u8..3).prop_map(|(at, fork)| Malform::SpliceFork { at, fork }),
        2 => (any::<u16>(), any::<u16>()).prop_map(|(i, j)| Malform::DupInBatch { i, j }),
    ]
}

pub fn op_strategy() -> impl Strategy<Value = Op> {
    prop_oneof![
        8 => (place_strategy(), 1u8..12, prop_oneof![5 => Just(Source::Honest), 1 => (0u8..3).prop_map(Source::Fork)], malform_strategy())
            .prop_map(|(place, len, src, mal)| Op::Insert { place, len, src, mal }),
        3 => (any::<u16>(), any::<bool>()).prop_map(|(h, stored_bias)| Op::Remove { h, stored_bias }),
        2 => (any::<u16>(), any::<bool>()).prop_map(|(h, stored_bias)| Op::MarkSampled { h, stored_bias }),
        2 => (any::<u16>(), any::<bool>(), prop::collection::vec(0u8..12, 0..5)).prop_map(|(h, stored_bias, cids)| Op::UpdateMeta { h, stored_bias, cids }),
    ]
}

pub fn case_strategy(max_len: usize, max_ops: usize) -> impl Strategy<Value = Case> {
    (
        chain_strategy(20..=max_len, 3, false, true),
        prop::collection::vec((any::<u16>(), 1u8..20, 1u8..4, any::<bool>()).prop_map(|(from, len, salt, foreign)| ForkSpec { from, len, salt, foreign }), 1..=3),
        prop::collection::vec(op_strategy(), 10..=max_ops),
    )
        .prop_map(|(mut chain, forks, ops)| {
            chain.start_height = 1;
            Case { chain, forks, ops }
        })
}

#[derive(Clone, Copy, Debug, PartialEq, Eq)]
pub enum Kind {
    NotFound,
    HeadersVerification,
    NeighborsVerification,
    Constraints,
    HashExists,
    Other,
}

pub fn kind_of(e: &StoreError) -> Kind {
    match e {
        StoreError::NotFound => Kind::NotFound,
        StoreError::InsertionFailed(StoreInsertionError::HeadersVerificationFailed(_)) => Kind::HeadersVerification,
        StoreError::InsertionFailed(StoreInsertionError::NeighborsVerificationFailed(_)) => Kind::NeighborsVerification,
        StoreError::InsertionFailed(StoreInsertionError::ConstraintsNotMet(_)) => Kind::Constraints,
        StoreError::InsertionFailed(StoreInsertionError::HashExists(_)) => Kind::HashExists,
        _ => Kind::Other,
    }
}

pub fn cid_of(i: u8) -> Cid {
    let digest = lv_gen::refs::sha256(&[b"cid", &[i]]);
    let mh = multihash::Multihash::<64>::wrap(0x12, &digest).unwrap();
    Cid::new_v1(0x55, mh)
}

/// reference adjacency (what `verify` demands of an adjacent successor), written from the property text of C02
pub fn ref_adjacent(a: &ExtendedHeader, b: &ExtendedHeader) -> bool {
    b.height() == a.height() + 1
        && a.chain_id() == b.chain_id()
        && b.time() > a.time()
        && b.header.validators_hash == a.header.next_validators_hash
        && b.last_header_hash() == a.hash()
}

#[derive(Default, Clone)]
pub struct Model {
    pub headers: BTreeMap<u64, ExtendedHeader>,
    pub sampled: BTreeSet<u64>,
    pub pruned: BTreeSet<u64>,
    pub meta: BTreeMap<u64, BTreeSet<Cid>>,
}

impl Model {
    pub fn head(&self) -> Option<u64> {
        self.headers.keys().next_back().copied()
    }
    pub fn ranges(set: impl Iterator<Item = u64>) -> Vec<(u64, u64)> {
        let mut out: Vec<(u64, u64)> = Vec::new();
        for h in set {
            match out.last_mut() {
                Some((_, e)) if *e + 1 == h => *e = h,
                _ => out.push((h, h)),
            }
        }
        out
    }
    pub fn stored_ranges(&self) -> Vec<(u64, u64)> {
        Self::ranges(self.headers.keys().copied())
    }
    pub fn insert(&mut self, batch: &[ExtendedHeader]) -> Result<(), Kind> {
        if batch.is_empty() {
            return Ok(());
        }
        for w in batch.windows(2) {
            if !ref_adjacent(&w[0], &w[1]) {
                return Err(Kind::HeadersVerification);
            }
        }
        let a = batch[0].height();
        let b = batch[batch.len() - 1].height();
        if a == 0 || a > b {
            return Err(Kind::Constraints);
        }
        if self.headers.range(a..=b).next().is_some() {
            return Err(Kind::Constraints);
        }
        let below = a > 1 && self.headers.contains_key(&(a - 1));
        let above = self.headers.contains_key(&(b + 1));
        if let Some(head) = self.head() {
            if !(a > head || below || above) {
                return Err(Kind::Constraints);
            }
        }
        if below && !ref_adjacent(&self.headers[&(a - 1)], &batch[0]) {
            return Err(Kind::NeighborsVerification);
        }
        if above && !ref_adjacent(&batch[batch.len() - 1], &self.headers[&(b + 1)]) {
            return Err(Kind::NeighborsVerification);
        }
        let mut hashes: BTreeSet<Vec<u8>> = self.headers.values().map(|h| h.hash().as_bytes().to_vec()).collect();
        for h in batch {
            if !hashes.insert(h.hash().as_bytes().to_vec()) {
                return Err(Kind::HashExists);
            }
        }
        for h in batch {
            self.headers.insert(h.height(), h.clone());
            self.sampled.remove(&h.height());
            self.pruned.remove(&h.height());
        }
        Ok(())
    }
    pub fn remove(&mut self, h: u64) -> Result<(), Kind> {
        if self.headers.remove(&h).is_none() {
            return Err(Kind::NotFound);
        }
        self.sampled.remove(&h);
        self.meta.remove(&h);
        self.pruned.insert(h);
        Ok(())
    }
    pub fn mark(&mut self, h: u64) -> Result<(), Kind> {
        if !self.headers.contains_key(&h) {
            return Err(Kind::NotFound);
        }
        self.sampled.insert(h);
        Ok(())
    }
    pub fn update_meta(&mut self, h: u64, cids: &[Cid]) -> Result<(), Kind> {
        if !self.headers.contains_key(&h) {
            return Err(Kind::NotFound);
        }
        self.meta.entry(h).or_default().extend(cids.iter().cloned());
        Ok(())
    }
}

/// Everything observable about a store over the universe, as a comparable value.
#[derive(Clone, Debug, PartialEq)]
pub struct Snapshot {
    stored: Vec<(u64, u64)>,
    sampled: Vec<(u64, u64)>,
    pruned: Vec<(u64, u64)>,
    head: Option<Vec<u8>>,
    head_height: Option<u64>,
    /// per universe height: (has_at, get_by_height hash, meta)
    by_height: Vec<(u64, bool, Option<Vec<u8>>, Option<Option<BTreeSet<Cid>>>)>,
    /// per universe hash: (has, get_by_hash height)
    by_hash: Vec<(Vec<u8>, bool, Option<u64>)>,
}

pub fn ranges_vec(r: &lumina_node::store::BlockRanges) -> Vec<(u64, u64)> {
    let v: &[std::ops::RangeInclusive<u64>] = r.as_ref();
    v.iter().map(|x| (*x.start(), *x.end())).collect()
}

pub async fn snapshot<S: Store>(s: &S, heights: &[u64], hashes: &[Hash]) -> Snapshot {
    let mut by_height = Vec::new();
    for &h in heights {
        let has = s.has_at(h).await;
        let got = s.get_by_height(h).await.ok().map(|x| {
            assert_eq!(x.height(), h, "get_by_height returned another height");
            x.hash().as_bytes().to_vec()
        });
        let meta = s.get_sampling_metadata(h).await.ok().map(|m| m.map(|m| m.cids.into_iter().collect::<BTreeSet<_>>()));
        by_height.push((h, has, got, meta));
    }
    let mut by_hash = Vec::new();
    for hh in hashes {
        let has = s.has(hh).await;
        let got = s.get_by_hash(hh).await.ok().map(|x| x.height());
        by_hash.push((hh.as_bytes().to_vec(), has, got));
    }
    Snapshot {
        stored: ranges_vec(&s.get_stored_header_ranges().await.unwrap()),
        sampled: ranges_vec(&s.get_sampled_ranges().await.unwrap()),
        pruned: ranges_vec(&s.get_pruned_ranges().await.unwrap()),
        head: s.get_head().await.ok().map(|h| h.hash().as_bytes().to_vec()),
        head_height: s.head_height().await.ok(),
        by_height,
        by_hash,
    }
}

pub fn model_snapshot(m: &Model, heights: &[u64], hashes: &[Hash]) -> Snapshot {
    let by_height = heights
        .iter()
        .map(|&h| {
            let hdr = m.headers.get(&h);
            (
                h,
                hdr.is_some(),
                hdr.map(|x| x.hash().as_bytes().to_vec()),
                hdr.map(|_| m.meta.get(&h).cloned()),
            )
        })
        .collect();
    let by_hash = hashes
        .iter()
        .map(|hh| {
            let found = m.headers.values().find(|x| x.hash() == *hh).map(|x| x.height());
            (hh.as_bytes().to_vec(), found.is_some(), found)
        })
        .collect();
    Snapshot {
        stored: m.stored_ranges(),
        sampled: Model::ranges(m.sampled.iter().copied()),
        pruned: Model::ranges(m.pruned.iter().copied()),
        head: m.head().map(|h| m.headers[&h].hash().as_bytes().to_vec()),
        head_height: m.head(),
        by_height,
        by_hash,
    }
}

pub fn diff(a: &Snapshot, b: &Snapshot) -> String {
    if a.stored != b.stored {
        return format!("stored ranges {:?} vs {:?}", a.stored, b.stored);
    }
    if a.sampled != b.sampled {
        return format!("sampled ranges {:?} vs {:?}", a.sampled, b.sampled);
    }
    if a.pruned != b.pruned {
        return format!("pruned ranges {:?} vs {:?}", a.pruned, b.pruned);
    }
    if a.head_height != b.head_height || a.head != b.head {
        return format!(
            "head height {:?} vs {:?}, head hash {:?} vs {:?}",
            a.head_height,
            b.head_height,
            a.head.as_ref().map(hex::encode),
            b.head.as_ref().map(hex::encode)
        );
    }
    for (x, y) in a.by_height.iter().zip(&b.by_height) {
        if x != y {
            return format!(
                "height {}: has_at {} vs {}, get_by_height {:?} vs {:?}, metadata {:?} vs {:?}",
                x.0,
                x.1,
                y.1,
                x.2.as_ref().map(hex::encode),
                y.2.as_ref().map(hex::encode),
                x.3.as_ref().map(|m| m.as_ref().map(|s| s.len())),
                y.3.as_ref().map(|m| m.as_ref().map(|s| s.len()))
            );
        }
    }
    for (x, y) in a.by_hash.iter().zip(&b.by_hash) {
        if x != y {
            return format!("hash {}: has {} vs {}, get_by_hash height {:?} vs {:?}", hex::encode(&x.0), x.1, y.1, x.2, y.2);
        }
    }
    "no difference".into()
}

pub struct Universe {
    pub honest: Chain,
    pub forks: Vec<Vec<ExtendedHeader>>,
    pub heights: Vec<u64>,
    pub hashes: Vec<Hash>,
}

impl Universe {
    pub fn header(&self, src: Source, h: u64) -> Option<ExtendedHeader> {
        match src {
            Source::Honest => self.honest.headers.get((h as usize).checked_sub(1)?).cloned(),
            Source::Fork(k) => {
                let f = self.forks.get(k as usize % self.forks.len().max(1))?;
                f.iter().find(|x| x.height() == h).cloned().or_else(|| self.honest.headers.get((h as usize).checked_sub(1)?).cloned())
            }
        }
    }
}

pub fn build_universe(case: &Case) -> Universe {
    let honest = build_chain(&case.chain);
    let n = honest.headers.len();
    let forks: Vec<Vec<ExtendedHeader>> = case
        .forks
        .iter()
        .map(|f| {
            let from = 1 + pick(f.from, n - 1);
            build_fork(&honest, from, f.len as usize, f.salt as u64, f.foreign)
        })
        .collect();
    let heights: Vec<u64> = (0..=(n as u64 + 2)).collect();
    let mut hashes: Vec<Hash> = honest.headers.iter().map(|h| h.hash()).collect();
    for f in &forks {
        hashes.extend(f.iter().map(|h| h.hash()));
    }
    Universe { honest, forks, heights, hashes }
}

/// gaps between stored ranges (and below the lowest), top first: (lo, hi) inclusive missing heights
pub fn gaps(m: &Model) -> Vec<(u64, u64)> {
    let r = m.stored_ranges();
    let mut out = Vec::new();
    for w in r.windows(2).rev() {
        out.push((w[0].1 + 1, w[1].0 - 1));
    }
    if let Some(first) = r.first() {
        if first.0 > 1 {
            out.push((1, first.0 - 1));
        }
    }
    out
}

pub fn resolve_batch(u: &Universe, m: &Model, place: &Place, len: u8, src: Source, mal: &Malform, obs: &mut Obs) -> Vec<ExtendedHeader> {
    let n = u.honest.headers.len() as u64;
    let len = len as u64;
    let head = m.head().unwrap_or(0);
    let gs = gaps(m);
    let (a, b) = match place {
        Place::AboveHead => (head + 1, head + len),
        Place::AboveGap { gap } => (head + 1 + *gap as u64, head + *gap as u64 + len),
        Place::GapFromBelow { g } if !gs.is_empty() => {
            let (lo, hi) = gs[pick(*g, gs.len())];
            (lo, (lo + len - 1).min(hi))
        }
        Place::GapFromAbove { g } if !gs.is_empty() => {
            let (lo, hi) = gs[pick(*g, gs.len())];
            (hi.saturating_sub(len - 1).max(lo), hi)
        }
        Place::Bridge { g } if !gs.is_empty() => {
            let (lo, hi) = gs[pick(*g, gs.len())];
            (lo, hi.min(lo + 40))
        }
        Place::At { start } => {
            let s = 1 + pick(*start, n as usize) as u64;
            (s, s + len - 1)
        }
        _ => (head + 1, head + len),
    };
    let b = b.min(n);
    let mut batch: Vec<ExtendedHeader> = (a..=b).filter_map(|h| u.header(src, h)).collect();
    match mal {
        Malform::None => {}
        Malform::SwapTwo { i, j } => {
            if batch.len() >= 2 {
                let (x, y) = (pick(*i, batch.len()), pick(*j, batch.len()));
                batch.swap(x, y);
                obs.label("malformed-batch");
            }
        }
        Malform::DropOne { i } => {
            if batch.len() >= 3 {
                let x = 1 + pick(*i, batch.len() - 2);
                batch.remove(x);
                obs.label("malformed-batch");
            }
        }
        Malform::Empty => batch.clear(),
        Malform::DupHash { j, of } => {
            let stored: Vec<&ExtendedHeader> = m.headers.values().collect();
            if !stored.is_empty() && !batch.is_empty() {
                let j = pick(*j, batch.len());
                let victim = stored[pick(*of, stored.len())].hash();
                batch[j].commit.block_id.hash = victim;
                if j + 1 < batch.len() {
                    if let Some(id) = batch[j + 1].header.last_block_id.as_mut() {
                        id.hash = victim;
                    }
                }
                obs.label("dup-hash-batch");
                if j >= 1 {
                    obs.label("dup-hash-mid-batch");
                }
            }
        }
        Malform::DupInBatch { i, j } => {
            if batch.len() >= 2 {
                let j = 1 + pick(*j, batch.len() - 1);
                let i = pick(*i, j);
                let victim = batch[i].hash();
                batch[j].commit.block_id.hash = victim;
                if j + 1 < batch.len() {
                    if let Some(id) = batch[j + 1].header.last_block_id.as_mut() {
                        id.hash = victim;
                    }
                }
                obs.label("dup-hash-within-batch");
            }
        }
        Malform::SpliceFork { at, fork } => {
            if batch.len() >= 2 {
                let at = 1 + pick(*at, batch.len() - 1);
                for x in batch.iter_mut().skip(at) {
                    if let Some(f) = u.header(Source::Fork(*fork), x.height()) {
                        *x = f;
                    }
                }
            }
        }
    }
    batch
}

async fn check_links<S: Store>(s: &S, name: &str, obs: &mut Obs<'_>) -> Result<(), Failure> {
    let ranges = ranges_vec(&s.get_stored_header_ranges().await.map_err(|e| Failure::new("C21:ranges-unreadable", e.to_string()))?);
    for (a, b) in ranges {
        let mut prev: Option<ExtendedHeader> = None;
        for h in a..=b {
            let cur = match s.get_by_height(h).await {
                Ok(c) => c,
                Err(e) => {
                    obs.fail("C21:stored-height-unreadable", format!("{name}: height {h} is in stored ranges but get_by_height failed: {e}"))?;
                    prev = None;
                    continue;
                }
            };
            match s.get_by_hash(&cur.hash()).await {
                Ok(x) if x == cur && x.height() == h => {}
                other => obs.fail(
                    "C21:hash-lookup-mismatch",
                    format!("{name}: get_by_hash(hash of stored header {h}) returned {:?}", other.map(|x| x.height()).map_err(|e| e.to_string())),
                )?,
            }
            if let Some(p) = &prev {
                obs.eval(None);
                if let Err(e) = p.verify_adjacent(&cur) {
                    obs.fail("C21:neighbours-not-linked", format!("{name}: stored headers {} and {h} do not verify as adjacent: {e}", h - 1))?;
                }
                if !ref_adjacent(p, &cur) {
                    obs.fail("C21:neighbours-not-linked", format!("{name}: stored headers {} and {h} are not hash-linked (reference)", h - 1))?;
                }
            }
            prev = Some(cur);
        }
    }
    Ok(())
}

async fn run_case(case: &Case, prop: &str, obs: &mut Obs<'_>) -> Result<(), Failure> {
    let u = build_universe(case);
    let n = u.honest.headers.len();

    let mem = InMemoryStore::new();
    let redb = RedbStore::in_memory().await.map_err(|e| Failure::new("harness:redb-open", e.to_string()))?;
    let mut model = Model::default();
    let mut removed_ever: BTreeSet<u64> = BTreeSet::new();

    macro_rules! both {
        ($call:ident ( $($arg:expr),* )) => {{
            let a = mem.$call($($arg.clone()),*).await;
            let b = redb.$call($($arg.clone()),*).await;
            (a, b)
        }};
    }

    for (step, op) in case.ops.iter().enumerate() {
        let stored: Vec<u64> = model.headers.keys().copied().collect();
        let pick_h = |sel: u16, bias: bool| -> u64 {
            if bias && !stored.is_empty() { stored[pick(sel, stored.len())] } else { pick(sel, n + 2) as u64 }
        };
        // what will the model say?
        let mut trial = model.clone();
        enum Conc {
            Insert(Vec<ExtendedHeader>),
            Remove(u64),
            Mark(u64),
            Meta(u64, Vec<Cid>),
        }
        let conc = match op {
            Op::Insert { place, len, src, mal } => Conc::Insert(resolve_batch(&u, &model, place, *len, *src, mal, obs)),
            Op::Remove { h, stored_bias } => Conc::Remove(pick_h(*h, *stored_bias)),
            Op::MarkSampled { h, stored_bias } => Conc::Mark(pick_h(*h, *stored_bias)),
            Op::UpdateMeta { h, stored_bias, cids } => Conc::Meta(pick_h(*h, *stored_bias), cids.iter().map(|c| cid_of(*c)).collect()),
        };
        let expected = match &conc {
            Conc::Insert(b) => trial.insert(b),
            Conc::Remove(h) => trial.remove(*h),
            Conc::Mark(h) => trial.mark(*h),
            Conc::Meta(h, c) => trial.update_meta(*h, c),
        };
        // C20: snapshot of the stores themselves before an operation expected to fail
        let before = if prop == "C20" && expected.is_err() {
            Some((snapshot(&mem, &u.heights, &u.hashes).await, snapshot(&redb, &u.heights, &u.hashes).await))
        } else {
            None
        };
        let (ra, rb) = match &conc {
            Conc::Insert(b) => both!(insert(b)),
            Conc::Remove(h) => both!(remove_height(*h)),
            Conc::Mark(h) => both!(mark_as_sampled(*h)),
            Conc::Meta(h, c) => both!(update_sampling_metadata(*h, c)),
        };
        let desc = match &conc {
            Conc::Insert(b) => format!(
                "step {step}: insert heights {:?} (stored before: {:?})",
                b.iter().map(|h| h.height()).collect::<Vec<_>>(),
                model.stored_ranges()
            ),
            Conc::Remove(h) => format!("step {step}: remove_height({h})"),
            Conc::Mark(h) => format!("step {step}: mark_as_sampled({h})"),
            Conc::Meta(h, c) => format!("step {step}: update_sampling_metadata({h}, {} cids)", c.len()),
        };
        // classification
        let digest = digest_bytes(format!("{desc}{:?}", expected).as_bytes());
        let nontrivial = match (&conc, &expected) {
            (Conc::Insert(b), Ok(())) => !b.is_empty() && b.iter().any(|h| removed_ever.contains(&h.height())),
            (Conc::Insert(_), Err(_)) => true,
            (Conc::Remove(_), Ok(())) => true,
            _ => false,
        };
        obs.eval(nontrivial.then_some(digest));
        match (&conc, &expected) {
            (Conc::Insert(b), Ok(())) => {
                if !b.is_empty() {
                    let a = b[0].height();
                    let z = b[b.len() - 1].height();
                    let below = model.headers.contains_key(&(a.wrapping_sub(1)));
                    let above = model.headers.contains_key(&(z + 1));
                    if below && above {
                        obs.label("insert-bridges-gap");
                    } else if above {
                        obs.label("insert-gap-fill-from-above");
                    } else if below {
                        obs.label("insert-extends-range");
                    } else {
                        obs.label("insert-new-head-range");
                    }
                    if b.iter().any(|h| removed_ever.contains(&h.height())) {
                        obs.label("reinsert-after-removal");
                    }
                }
            }
            (Conc::Insert(_), Err(k)) => obs.label(match k {
                Kind::HeadersVerification => "rejected-headers-verification",
                Kind::NeighborsVerification => "rejected-neighbors-verification",
                Kind::Constraints => "rejected-constraints",
                Kind::HashExists => "rejected-hash-exists",
                _ => "rejected-other",
            }),
            (Conc::Remove(_), Ok(())) => obs.label("removal"),
            (_, Err(_)) => obs.label("op-on-missing-height"),
            _ => obs.label("mark-or-meta"),
        }

        if prop == "C19" {
            for (name, r) in [("InMemoryStore", &ra), ("RedbStore", &rb)] {
                let got = r.as_ref().map(|_| ()).map_err(kind_of);
                if got != expected {
                    obs.fail(
                        "C19:result-differs-from-model",
                        format!("{name}: {desc}: returned {:?} ({:?}), model says {expected:?}", got, r.as_ref().err().map(|e| e.to_string())),
                    )?;
                }
            }
        }
        if let Some((ba, bb)) = before {
            // C20: error => unchanged (only judged when the store itself returned an error)
            if ra.is_err() {
                let after = snapshot(&mem, &u.heights, &u.hashes).await;
                if after != ba {
                    obs.fail("C20:state-changed-by-failed-op", format!("InMemoryStore: {desc} returned {:?} but changed the store: {}", ra.as_ref().err().map(|e| e.to_string()), diff(&ba, &after)))?;
                }
            }
            if rb.is_err() {
                let after = snapshot(&redb, &u.heights, &u.hashes).await;
                if after != bb {
                    obs.fail("C20:state-changed-by-failed-op", format!("RedbStore: {desc} returned {:?} but changed the store: {}", rb.as_ref().err().map(|e| e.to_string()), diff(&bb, &after)))?;
                }
            }
            // the corrected batch is insertable afterwards: honest headers for the same heights,
            // whenever the model admits them
            if let Conc::Insert(b) = &conc {
                if !b.is_empty() && ra.is_err() && rb.is_err() {
                    let lo = b.iter().map(|h| h.height()).min().unwrap();
                    let hi = b.iter().map(|h| h.height()).max().unwrap();
                    let fixed: Vec<ExtendedHeader> = (lo..=hi).filter_map(|h| u.header(Source::Honest, h)).collect();
                    let mut t2 = model.clone();
                    if t2.insert(&fixed).is_ok() && !fixed.is_empty() {
                        obs.label("corrected-batch-reinserted");
                        let (xa, xb) = both!(insert(fixed));
                        if let Err(e) = &xa {
                            obs.fail("C20:corrected-batch-not-insertable", format!("InMemoryStore: after rejected {desc}, inserting the corrected batch {lo}..={hi} failed: {e}"))?;
                        }
                        if let Err(e) = &xb {
                            obs.fail("C20:corrected-batch-not-insertable", format!("RedbStore: after rejected {desc}, inserting the corrected batch {lo}..={hi} failed: {e}"))?;
                        }
                        if xa.is_ok() && xb.is_ok() {
                            model = t2;
                            continue;
                        } else {
                            return Ok(()); // stores diverged under a known finding; stop this history
                        }
                    }
                }
            }
        }
        if expected.is_ok() {
            if let Conc::Remove(h) = &conc {
                removed_ever.insert(*h);
            }
            model = trial;
        }
        // a store that disagrees with the model about success makes the rest of the history meaningless
        if ra.is_ok() != expected.is_ok() || rb.is_ok() != expected.is_ok() {
            if prop == "C21" {
                // a store that accepted what the model rejects may have broken the chain: look before leaving
                check_links(&mem, "InMemoryStore", obs).await?;
                check_links(&redb, "RedbStore", obs).await?;
            }
            if prop != "C19" {
                obs.note(format!("history abandoned at {desc}: store result differs from the model (judged by C19)"));
            }
            return Ok(());
        }

        let full = expected.is_err() || step % 8 == 7 || step + 1 == case.ops.len();
        if prop == "C19" && full {
            let want = model_snapshot(&model, &u.heights, &u.hashes);
            let a = snapshot(&mem, &u.heights, &u.hashes).await;
            if a != want {
                obs.fail("C19:state-differs-from-model", format!("InMemoryStore after {desc}: {}", diff(&a, &want)))?;
            }
            let b = snapshot(&redb, &u.heights, &u.hashes).await;
            if b != want {
                obs.fail("C19:state-differs-from-model", format!("RedbStore after {desc}: {}", diff(&b, &want)))?;
            }
            // get_range over a few windows
            if let Some(head) = model.head() {
                for (lo, hi) in [(1u64, head), (head.saturating_sub(3).max(1), head), (1, 1.max(head / 2))] {
                    let want: Option<Vec<u64>> = (lo..=hi).map(|h| model.headers.get(&h).map(|x| x.height())).collect();
                    let ga = mem.get_range(lo..=hi).await.ok().map(|v| v.iter().map(|h| h.height()).collect::<Vec<_>>());
                    let gb = redb.get_range(lo..=hi).await.ok().map(|v| v.iter().map(|h| h.height()).collect::<Vec<_>>());
                    if ga != want || gb != want {
                        obs.fail("C19:get-range-differs", format!("after {desc}: get_range({lo}..={hi}) mem {ga:?} redb {gb:?} model {want:?}"))?;
                    }
                }
            }
        } else if prop == "C19" {
            // light comparison: the three range sets and the head
            let want = (model.stored_ranges(), Model::ranges(model.sampled.iter().copied()), Model::ranges(model.pruned.iter().copied()));
            let ga = (
                ranges_vec(&mem.get_stored_header_ranges().await.unwrap()),
                ranges_vec(&mem.get_sampled_ranges().await.unwrap()),
                ranges_vec(&mem.get_pruned_ranges().await.unwrap()),
            );
            let gb = (
                ranges_vec(&redb.get_stored_header_ranges().await.unwrap()),
                ranges_vec(&redb.get_sampled_ranges().await.unwrap()),
                ranges_vec(&redb.get_pruned_ranges().await.unwrap()),
            );
            if ga != want {
                obs.fail("C19:state-differs-from-model", format!("InMemoryStore after {desc}: ranges {ga:?} vs model {want:?}"))?;
            }
            if gb != want {
                obs.fail("C19:state-differs-from-model", format!("RedbStore after {desc}: ranges {gb:?} vs model {want:?}"))?;
            }
        }
        if prop == "C21" && (full || matches!(conc, Conc::Insert(_))) {
            check_links(&mem, "InMemoryStore", obs).await?;
            check_links(&redb, "RedbStore", obs).await?;
        }
    }
    let _ = redb.close().await;
    Ok(())
}

pub fn run(ctx: &mut Ctx) {
    let prop = ctx.prop.clone();
    ctx.assume("stored headers are validated headers from generated chains (every production caller validates before insert); forged-hash headers are only offered in batches that must be rejected");
    ctx.assume("the reference insert rule uses the harness' own adjacency predicate (hash link, next-validators hash, chain id, strictly increasing time)");
    ctx.assume("sampling-metadata CIDs are compared as sets (the property says 'accumulates every added CID')");
    ctx.essential(&[
        "rejected-headers-verification",
        "rejected-neighbors-verification",
        "rejected-constraints",
        "rejected-hash-exists",
        "dup-hash-mid-batch",
        "dup-hash-within-batch",
        "reinsert-after-removal",
        "insert-bridges-gap",
        "insert-gap-fill-from-above",
    ]);
    ctx.set_shrink_iters(300);
    let (max_len, max_ops, cases) = match (ctx.tier, prop.as_str()) {
        (Tier::Quick, _) => (60, 80, 480),
        (Tier::Thorough, _) => (200, 300, 3000),
    };
    let rule = "history = generated universe (honest chain with validator rotation + 1..3 forks) and 10..N ops (insert batches resolved against the current state: above head, above a gap, gap fill from below/above, exact bridge, arbitrary; honest or fork source; swapped/dropped/empty/duplicate-hash/fork-spliced batches; remove; mark sampled; metadata update). One evaluation per op. Non-trivial = rejected insert, removal, or re-insertion of a previously removed height (distinct by op description + expected result)";
    ctx.proptest("store-machine", rule, cases, move || case_strategy(max_len, max_ops), move |case, obs| {
        let rt = tokio::runtime::Builder::new_current_thread().enable_all().build().unwrap();
        let p = prop.clone();
        rt.block_on(run_case(case, &p, obs))
    });
}
