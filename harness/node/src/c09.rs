//! C09 — An EDS fetched over shrex matches the header's DAH (shrex `ResponseCodec for
//! ExtendedDataSquare`), plus the node half of C05: the shrex ROW response codec (sub-check
//! `c05-shrex-row`, labels prefixed `row-`).
//!
//! Hooks: `lumina_node::verif::shrex_codec` (additive wrappers around the crate-private codec).
use celestia_proto::shwap::{Row as RawRow, Share as RawShare, row::HalfSide};
use celestia_types::nmt::{NamespacedHash, NamespacedHashExt};
use celestia_types::row::{Row, RowId};
use celestia_types::{DataAvailabilityHeader, ExtendedDataSquare, ExtendedHeader};
use lumina_node::verif::shrex_codec as hook;
use lv_common::prelude::*;
use lv_common::{Prng, no_panic};
use lv_gen::panicsite::site_sig as panic_sig;
use lv_gen::chain::{app_version_of, build_header, build_set};
use lv_gen::mutate::{ByteMut, byte_mut_strategy};
use lv_gen::square::{Square, SquareSpec, build_square, ref_axis_root, square_strategy};
use prost::Message;
use tendermint::Time;

const SHARE: usize = 512;
const NS: usize = 29;

// ------------------------------------------------------------------------------------------ recipe

#[derive(Clone, Debug, Serialize, Deserialize)]
pub enum Region {
    NsVersion,
    NsId,
    InfoByte,
    SeqLen,
    Payload,
    Last,
}

#[derive(Clone, Debug, Serialize, Deserialize)]
pub enum PayMut {
    /// truncate to `pos` (scaled over the length) bytes
    TruncBytes { pos: u16 },
    /// append a share: 0 = copy of the last share, 1 = tail padding, 2 = random v0 user share, 3 = zeros
    AppendShare { kind: u8 },
    SwapShares { a: u16, b: u16 },
    Flip { share: u16, region: Region, off: u16, bit: u8 },
    /// ODS of the other generated square
    OtherSquare,
    /// one share replaced by a share of the other square
    SpliceOther { at: u16, from: u16 },
    DropShare { i: u16 },
    DupShare { i: u16 },
    SwapRows { a: u16, b: u16 },
    Transpose,
    ZeroShare { i: u16 },
    /// k-fold repetition of the payload (4x = a plausible bigger square)
    Repeat { k: u8 },
    Bytes(ByteMut),
}

#[derive(Clone, Debug, Serialize, Deserialize)]
pub enum DahMut {
    SwapRowCol,
    /// column root i replaced: 0 = by row root i of the same square, 1 = by column root of the other square, 2 = by column root j
    ReplaceCol { i: u16, how: u8, j: u16 },
    ReplaceRow { i: u16, how: u8, j: u16 },
    /// all column roots of the other square (kept only when widths agree)
    ColsOfOther,
    RowsOfOther,
    FlipRootByte { row_axis: bool, i: u16, byte: u16, bit: u8 },
    DropLastCol,
    DupLastRowAndCol,
    SwapTwoCols { a: u16, b: u16 },
}

#[derive(Clone, Debug, Serialize, Deserialize)]
pub struct Case {
    pub square: SquareSpec,
    pub other: SquareSpec,
    /// app version of the header (1..=7)
    pub app: u8,
    /// a different app version for the wrong-app-version probes
    pub wrong_app: u8,
    pub muts: Vec<PayMut>,
    pub dah_muts: Vec<DahMut>,
}

fn region_strategy() -> impl Strategy<Value = Region> {
    prop_oneof![
        1 => Just(Region::NsVersion),
        2 => Just(Region::NsId),
        2 => Just(Region::InfoByte),
        1 => Just(Region::SeqLen),
        3 => Just(Region::Payload),
        1 => Just(Region::Last),
    ]
}

fn pay_mut_strategy() -> impl Strategy<Value = PayMut> {
    prop_oneof![
        2 => any::<u16>().prop_map(|pos| PayMut::TruncBytes { pos }),
        2 => (0u8..4).prop_map(|kind| PayMut::AppendShare { kind }),
        4 => (any::<u16>(), any::<u16>()).prop_map(|(a, b)| PayMut::SwapShares { a, b }),
        8 => (any::<u16>(), region_strategy(), any::<u16>(), 0u8..8).prop_map(|(share, region, off, bit)| PayMut::Flip { share, region, off, bit }),
        1 => Just(PayMut::OtherSquare),
        2 => (any::<u16>(), any::<u16>()).prop_map(|(at, from)| PayMut::SpliceOther { at, from }),
        1 => any::<u16>().prop_map(|i| PayMut::DropShare { i }),
        1 => any::<u16>().prop_map(|i| PayMut::DupShare { i }),
        2 => (any::<u16>(), any::<u16>()).prop_map(|(a, b)| PayMut::SwapRows { a, b }),
        1 => Just(PayMut::Transpose),
        1 => any::<u16>().prop_map(|i| PayMut::ZeroShare { i }),
        1 => prop_oneof![Just(2u8), Just(4u8)].prop_map(|k| PayMut::Repeat { k }),
        3 => byte_mut_strategy().prop_map(PayMut::Bytes),
    ]
}

fn dah_mut_strategy() -> impl Strategy<Value = DahMut> {
    prop_oneof![
        1 => Just(DahMut::SwapRowCol),
        4 => (any::<u16>(), 0u8..3, any::<u16>()).prop_map(|(i, how, j)| DahMut::ReplaceCol { i, how, j }),
        3 => (any::<u16>(), 0u8..3, any::<u16>()).prop_map(|(i, how, j)| DahMut::ReplaceRow { i, how, j }),
        1 => Just(DahMut::ColsOfOther),
        1 => Just(DahMut::RowsOfOther),
        3 => (any::<bool>(), any::<u16>(), any::<u16>(), 0u8..8).prop_map(|(row_axis, i, byte, bit)| DahMut::FlipRootByte { row_axis, i, byte, bit }),
        1 => Just(DahMut::DropLastCol),
        1 => Just(DahMut::DupLastRowAndCol),
        2 => (any::<u16>(), any::<u16>()).prop_map(|(a, b)| DahMut::SwapTwoCols { a, b }),
    ]
}

fn case_strategy(max_log2: u8, nmuts: usize) -> impl Strategy<Value = Case> {
    (
        square_strategy(0, max_log2),
        square_strategy(0, max_log2),
        1u8..=7,
        1u8..=7,
        prop::collection::vec(pay_mut_strategy(), 1..=2 * nmuts),
        prop::collection::vec(dah_mut_strategy(), 0..=16),
    )
        .prop_map(|(square, other, app, wrong_app, muts, dah_muts)| Case { square, other, app, wrong_app, muts, dah_muts })
}

// ------------------------------------------------------------------------------------------ helpers

fn header_for(seed: u64, height: u64, app: u8, dah: DataAvailabilityHeader) -> ExtendedHeader {
    let (set, keys) = build_set(seed, &[(0, 10)]);
    let time = Time::from_unix_timestamp(1_650_000_000, 0).unwrap();
    let next = set.hash();
    build_header(seed, "private", height, app, time, None, &set, &keys, next, &[], dah, 0)
}

fn concat(shares: &[Vec<u8>]) -> Vec<u8> {
    let mut v = Vec::with_capacity(shares.len() * SHARE);
    for s in shares {
        v.extend_from_slice(s);
    }
    v
}

fn is_pow4(n: usize) -> bool {
    n != 0 && n.is_power_of_two() && n.trailing_zeros() % 2 == 0
}

/// passes the decoder's size checks: non-empty, multiple of the share size, 4^k shares
fn right_length_class(p: &[u8]) -> bool {
    !p.is_empty() && p.len() % SHARE == 0 && is_pow4(p.len() / SHARE)
}

fn apply_pay_mut(m: &PayMut, honest: &[u8], other: &[u8], k: usize, seed: u64) -> (Vec<u8>, &'static str) {
    let n = honest.len() / SHARE;
    let mut v = honest.to_vec();
    let share_at = |v: &[u8], i: usize| v[i * SHARE..(i + 1) * SHARE].to_vec();
    let label = match m {
        PayMut::TruncBytes { pos } => {
            v.truncate(pick(*pos, v.len()));
            "trunc-bytes"
        }
        PayMut::AppendShare { kind } => {
            let mut s = vec![0u8; SHARE];
            match kind {
                0 => s = share_at(&v, n - 1),
                1 => {
                    s[..NS].copy_from_slice(&[0xff; NS]);
                    s[NS - 1] = 0xfe;
                    s[NS] = 1;
                }
                2 => {
                    let mut r = Prng::new(seed ^ 0xa99e);
                    r.fill(&mut s);
                    s[..NS].copy_from_slice(&v[(n - 1) * SHARE..(n - 1) * SHARE + NS]);
                    s[NS] = 1;
                }
                _ => {}
            }
            v.extend_from_slice(&s);
            "append-share"
        }
        PayMut::SwapShares { a, b } => {
            let (a, b) = (pick(*a, n), pick(*b, n));
            let (sa, sb) = (share_at(&v, a), share_at(&v, b));
            v[a * SHARE..(a + 1) * SHARE].copy_from_slice(&sb);
            v[b * SHARE..(b + 1) * SHARE].copy_from_slice(&sa);
            "swap-shares"
        }
        PayMut::Flip { share, region, off, bit } => {
            let s = pick(*share, n);
            let (o, label) = match region {
                Region::NsVersion => (0, "flip-ns-version"),
                Region::NsId => (1 + pick(*off, NS - 1), "flip-namespace"),
                Region::InfoByte => (NS, "flip-info-byte"),
                Region::SeqLen => (NS + 1 + pick(*off, 4), "flip-seq-len"),
                Region::Payload => (NS + 5 + pick(*off, SHARE - NS - 5), "flip-payload"),
                Region::Last => (SHARE - 1, "flip-last-byte"),
            };
            v[s * SHARE + o] ^= 1 << (bit % 8);
            label
        }
        PayMut::OtherSquare => {
            v = other.to_vec();
            "other-square"
        }
        PayMut::SpliceOther { at, from } => {
            let a = pick(*at, n);
            let f = pick(*from, other.len() / SHARE);
            v[a * SHARE..(a + 1) * SHARE].copy_from_slice(&other[f * SHARE..(f + 1) * SHARE]);
            "splice-other-share"
        }
        PayMut::DropShare { i } => {
            let i = pick(*i, n);
            v.drain(i * SHARE..(i + 1) * SHARE);
            "drop-share"
        }
        PayMut::DupShare { i } => {
            let i = pick(*i, n);
            let s = share_at(&v, i);
            v.splice(i * SHARE..i * SHARE, s);
            "dup-share"
        }
        PayMut::SwapRows { a, b } => {
            let (a, b) = (pick(*a, k), pick(*b, k));
            let rl = k * SHARE;
            let (ra, rb) = (v[a * rl..(a + 1) * rl].to_vec(), v[b * rl..(b + 1) * rl].to_vec());
            v[a * rl..(a + 1) * rl].copy_from_slice(&rb);
            v[b * rl..(b + 1) * rl].copy_from_slice(&ra);
            "swap-rows"
        }
        PayMut::Transpose => {
            let mut t = Vec::with_capacity(v.len());
            for c in 0..k {
                for r in 0..k {
                    t.extend_from_slice(&honest[(r * k + c) * SHARE..(r * k + c + 1) * SHARE]);
                }
            }
            v = t;
            "transpose"
        }
        PayMut::ZeroShare { i } => {
            let i = pick(*i, n);
            v[i * SHARE..(i + 1) * SHARE].fill(0);
            "zero-share"
        }
        PayMut::Repeat { k } => {
            v = honest.repeat(*k as usize);
            "repeat-payload"
        }
        PayMut::Bytes(b) => {
            v = b.apply(honest);
            "byte-mutation"
        }
    };
    (v, label)
}

fn apply_dah_mut(m: &DahMut, dah: &DataAvailabilityHeader, other: &DataAvailabilityHeader) -> Option<(DataAvailabilityHeader, &'static str)> {
    let mut rows: Vec<NamespacedHash> = dah.row_roots().to_vec();
    let mut cols: Vec<NamespacedHash> = dah.column_roots().to_vec();
    let w = rows.len();
    let ow = other.row_roots().len();
    let label = match m {
        DahMut::SwapRowCol => {
            std::mem::swap(&mut rows, &mut cols);
            "dah-swap-row-col"
        }
        DahMut::ReplaceCol { i, how, j } => {
            let i = pick(*i, w);
            cols[i] = match how {
                0 => rows[i].clone(),
                1 => other.column_roots()[pick(*j, ow)].clone(),
                _ => cols[pick(*j, w)].clone(),
            };
            "dah-replace-col-root"
        }
        DahMut::ReplaceRow { i, how, j } => {
            let i = pick(*i, w);
            rows[i] = match how {
                0 => cols[i].clone(),
                1 => other.row_roots()[pick(*j, ow)].clone(),
                _ => rows[pick(*j, w)].clone(),
            };
            "dah-replace-row-root"
        }
        DahMut::ColsOfOther => {
            if ow != w {
                return None;
            }
            cols = other.column_roots().to_vec();
            "dah-cols-of-other"
        }
        DahMut::RowsOfOther => {
            if ow != w {
                return None;
            }
            rows = other.row_roots().to_vec();
            "dah-rows-of-other"
        }
        DahMut::FlipRootByte { row_axis, i, byte, bit } => {
            let i = pick(*i, w);
            let tgt = if *row_axis { &mut rows[i] } else { &mut cols[i] };
            let mut raw = tgt.to_array();
            // only the hash part: keeps the node a well-formed namespaced hash
            let b = 2 * NS + pick(*byte, 32);
            raw[b] ^= 1 << (bit % 8);
            *tgt = NamespacedHash::from_raw(&raw).ok()?;
            if *row_axis { "dah-flip-row-root" } else { "dah-flip-col-root" }
        }
        DahMut::DropLastCol => {
            cols.pop();
            "dah-drop-last-col"
        }
        DahMut::DupLastRowAndCol => {
            rows.push(rows[w - 1].clone());
            cols.push(cols[w - 1].clone());
            "dah-dup-last-roots"
        }
        DahMut::SwapTwoCols { a, b } => {
            let (a, b) = (pick(*a, w), pick(*b, w));
            cols.swap(a, b);
            "dah-swap-two-cols"
        }
    };
    let d = DataAvailabilityHeader::new_unchecked(rows, cols);
    if &d == dah {
        return None; // semantic no-op
    }
    Some((d, label))
}

/// first quadrant of `e`, row-major
fn ods_bytes_of(e: &ExtendedDataSquare) -> Vec<u8> {
    let k = e.square_width() / 2;
    let mut v = Vec::with_capacity(k as usize * k as usize * SHARE);
    for r in 0..k {
        for c in 0..k {
            v.extend_from_slice(e.share(r, c).unwrap().as_ref());
        }
    }
    v
}

/// every row/column root of `e` recomputed with the harness' own NMT equals the DAH's roots
fn ref_roots_match(e: &ExtendedDataSquare, dah: &DataAvailabilityHeader) -> Result<(), String> {
    let w = e.square_width();
    if dah.row_roots().len() != w as usize || dah.column_roots().len() != w as usize {
        return Err(format!("DAH has {}x{} roots, square width {w}", dah.row_roots().len(), dah.column_roots().len()));
    }
    for i in 0..w {
        if ref_axis_root(e, true, i).to_bytes()[..] != dah.row_roots()[i as usize].to_array()[..] {
            return Err(format!("row root {i} of the returned square differs from the header's"));
        }
        if ref_axis_root(e, false, i).to_bytes()[..] != dah.column_roots()[i as usize].to_array()[..] {
            return Err(format!("column root {i} of the returned square differs from the header's"));
        }
    }
    Ok(())
}

struct Env<'a> {
    sq: &'a Square,
    honest: &'a [u8],
}

/// One oracle evaluation of the EDS decoder.
/// `dah_honest`: the header carries exactly the square's DAH; `must_accept`: honest payload, honest
/// DAH, the square's own app version.
fn judge(
    obs: &mut Obs,
    env: &Env,
    label: &str,
    payload: &[u8],
    header: &ExtendedHeader,
    dah_honest: bool,
    must_accept: bool,
) -> Result<(), Failure> {
    let mutated = payload != env.honest || !dah_honest;
    let nontrivial = mutated && right_length_class(payload);
    obs.eval(nontrivial.then(|| digest_bytes(payload) ^ digest_of(&header.dah.hash())));
    obs.label(label);
    if nontrivial {
        obs.label("mutated-right-length-class");
    }
    let res = match no_panic(|| hook::shrex_decode_and_verify_eds(payload, header)) {
        Ok(r) => r,
        Err(rec) => {
            obs.label("panicked");
            return obs.fail(&panic_sig(&rec), format!("EDS decode_and_verify panicked on a {label} payload of {} bytes: {rec}", payload.len()));
        }
    };
    match res {
        Ok(e) => {
            obs.label("accepted");
            let w = env.sq.eds.square_width();
            if ods_bytes_of(&e) != payload {
                obs.fail("C09:returned-square-is-not-the-payload", format!("{label}: accepted, but the first quadrant of the returned EDS is not the payload"))?;
            }
            if let Err(why) = ref_roots_match(&e, &header.dah) {
                obs.fail("C09:accepted-square-does-not-reproduce-dah", format!("{label}: accepted (width {w}), but {why}"))?;
            }
            if !dah_honest {
                // header DAH differs from the square's: only a payload whose own extension has
                // exactly these roots may pass (checked above); the honest square cannot.
                if payload == env.honest {
                    obs.fail("C09:accepted-under-foreign-dah", format!("{label}: honest payload accepted although the header's DAH differs from the square's DAH"))?;
                }
            } else {
                if payload != env.honest {
                    obs.fail("C09:accepted-payload-differs-from-ods", format!("{label}: payload differs from the committed ODS ({} vs {} bytes) but was accepted", payload.len(), env.honest.len()))?;
                }
                if e != env.sq.eds {
                    obs.fail("C09:returned-square-differs-from-committed-eds", format!("{label}: returned EDS differs from the committed EDS"))?;
                }
            }
        }
        Err(err) => {
            obs.label("rejected");
            if must_accept {
                obs.fail("C09:honest-rejected", format!("{label}: honest payload (ODS width {}) rejected: {err}", env.sq.eds.square_width() / 2))?;
            }
        }
    }
    Ok(())
}

fn run_eds_case(case: &Case, obs: &mut Obs) -> Result<(), Failure> {
    let app = app_version_of(case.app);
    let sq = build_square(&case.square, app);
    let osq = build_square(&case.other, app);
    let k = sq.eds.square_width() as usize / 2;
    let n = k * k;
    let seed = case.square.seed;
    let height = 1 + seed % 1000;
    let header = header_for(seed, height, case.app, sq.dah.clone());
    let honest = concat(&sq.ods);
    let other = concat(&osq.ods);
    let env = Env { sq: &sq, honest: &honest };

    // honest encoding is the row-major ODS the generator produced
    let enc = hook::shrex_encode_eds(&sq.eds);
    obs.eval(None);
    obs.label("encode");
    obs.check(enc == honest, "C09:encode-is-not-the-ods", || format!("encode(eds) differs from the generated ODS ({} vs {} bytes)", enc.len(), honest.len()))?;
    judge(obs, &env, "honest", &enc, &header, true, true)?;
    obs.label(&format!("ods-width-{k}"));

    // wrong app version in the header (same DAH): soundness only
    if case.wrong_app != case.app {
        let h2 = header_for(seed, height, case.wrong_app, sq.dah.clone());
        judge(obs, &env, "wrong-app-version-honest-payload", &honest, &h2, true, false)?;
        if let Some(m) = case.muts.first() {
            let (p, _) = apply_pay_mut(m, &honest, &other, k, seed);
            judge(obs, &env, "wrong-app-version-mutated-payload", &p, &h2, true, false)?;
        }
    }

    // empty
    judge(obs, &env, "empty", &[], &header, true, false)?;
    // every truncation at share granularity
    for t in 0..n {
        judge(obs, &env, "trunc-shares", &honest[..t * SHARE], &header, true, false)?;
    }
    // share counts that are not squares / not power-of-two squares (cyclic extension of the ODS)
    for cnt in [2usize, 3, 5, 6, 8, 9, 12, 36, 100] {
        let mut p = Vec::with_capacity(cnt * SHARE);
        for i in 0..cnt {
            p.extend_from_slice(&honest[(i % n) * SHARE..(i % n + 1) * SHARE]);
        }
        let label = match cnt {
            9 | 36 | 100 => "count-non-pow2-square",
            _ => "count-non-square",
        };
        judge(obs, &env, label, &p, &header, true, false)?;
    }
    // generated mutations of the payload
    for m in &case.muts {
        let (p, label) = apply_pay_mut(m, &honest, &other, k, seed);
        if p == honest {
            obs.label("mutation-noop");
            continue;
        }
        judge(obs, &env, label, &p, &header, true, false)?;
    }
    // header DAH that is not the square's DAH (honest payload, transposed payload, other square)
    let transposed = apply_pay_mut(&PayMut::Transpose, &honest, &other, k, seed).0;
    for dm in &case.dah_muts {
        let Some((d, label)) = apply_dah_mut(dm, &sq.dah, &osq.dah) else {
            obs.label("dah-mutation-noop");
            continue;
        };
        let h2 = header_for(seed, height, case.app, d);
        judge(obs, &env, label, &honest, &h2, false, false)?;
        match dm {
            DahMut::SwapRowCol => judge(obs, &env, "dah-swap-row-col-transposed-payload", &transposed, &h2, false, false)?,
            DahMut::ColsOfOther | DahMut::RowsOfOther => judge(obs, &env, "dah-mixed-other-payload", &other, &h2, false, false)?,
            _ => {}
        }
    }
    // the other square's header with this square's payload
    if osq.dah != sq.dah {
        let h3 = header_for(seed, height, case.app, osq.dah.clone());
        judge(obs, &env, "payload-under-other-squares-header", &honest, &h3, false, false)?;
    }
    Ok(())
}

// ------------------------------------------------------------------------------------------ C05 (node half): ROW codec

#[derive(Clone, Debug, Serialize, Deserialize)]
pub enum RowMut {
    FlipByte { share: u16, byte: u16, bit: u8 },
    SwapShares { a: u16, b: u16 },
    OtherRow { j: u16 },
    DropShare { i: u16 },
    AppendShare { i: u16 },
    Reverse,
    /// left-half shares sent with the Right flag and vice versa
    FlipSide,
    /// other half of the same row under the same flag
    OtherHalfSameFlag,
    /// unknown enum value for half_side
    SideValue { v: i32 },
    /// plain (not length-delimited) protobuf
    NoLengthPrefix,
    Bytes(ByteMut),
}

#[derive(Clone, Debug, Serialize, Deserialize)]
pub struct RowCase {
    pub square: SquareSpec,
    pub app: u8,
    pub rows: Vec<u16>,
    pub muts: Vec<(bool, RowMut)>,
}

fn row_mut_strategy() -> impl Strategy<Value = RowMut> {
    prop_oneof![
        4 => (any::<u16>(), any::<u16>(), 0u8..8).prop_map(|(share, byte, bit)| RowMut::FlipByte { share, byte, bit }),
        3 => (any::<u16>(), any::<u16>()).prop_map(|(a, b)| RowMut::SwapShares { a, b }),
        3 => any::<u16>().prop_map(|j| RowMut::OtherRow { j }),
        1 => any::<u16>().prop_map(|i| RowMut::DropShare { i }),
        1 => any::<u16>().prop_map(|i| RowMut::AppendShare { i }),
        1 => Just(RowMut::Reverse),
        2 => Just(RowMut::FlipSide),
        1 => Just(RowMut::OtherHalfSameFlag),
        1 => prop_oneof![Just(2i32), Just(-1), Just(i32::MAX)].prop_map(|v| RowMut::SideValue { v }),
        1 => Just(RowMut::NoLengthPrefix),
        2 => byte_mut_strategy().prop_map(RowMut::Bytes),
    ]
}

fn row_case_strategy(max_log2: u8) -> impl Strategy<Value = RowCase> {
    (
        square_strategy(0, max_log2),
        1u8..=7,
        prop::collection::vec(any::<u16>(), 6..10),
        prop::collection::vec((any::<bool>(), row_mut_strategy()), 0..=30),
    )
        .prop_map(|(square, app, rows, muts)| RowCase { square, app, rows, muts })
}

fn raw_half(eds: &ExtendedDataSquare, i: u16, right: bool) -> RawRow {
    let w = eds.square_width();
    let half = w / 2;
    let cols = if right { half..w } else { 0..half };
    RawRow {
        shares_half: cols.map(|c| RawShare { data: eds.share(i, c).unwrap().to_vec() }).collect(),
        half_side: if right { HalfSide::Right as i32 } else { HalfSide::Left as i32 },
    }
}

fn row_values(eds: &ExtendedDataSquare, i: u16) -> Vec<Vec<u8>> {
    (0..eds.square_width()).map(|c| eds.share(i, c).unwrap().to_vec()).collect()
}

/// decode under id (i, height); Ok ⇒ shares must equal eds.row(i) by value
fn judge_row(
    obs: &mut Obs,
    sq: &Square,
    header: &ExtendedHeader,
    i: u16,
    label: &str,
    bytes: &[u8],
    must_accept: bool,
    nontrivial: bool,
) -> Result<(), Failure> {
    let id = RowId::new(i, header.height()).unwrap();
    obs.eval(nontrivial.then(|| digest_bytes(bytes) ^ ((i as u64) << 48)));
    obs.label(label);
    let res = match no_panic(|| hook::shrex_decode_and_verify_row(bytes, &id, header)) {
        Ok(r) => r,
        Err(rec) => {
            obs.label("row-panicked");
            return obs.fail(&panic_sig(&rec), format!("ROW decode_and_verify panicked ({label}, row {i}, width {}): {rec}", sq.eds.square_width()));
        }
    };
    let want = row_values(&sq.eds, i);
    match res {
        Ok(row) => {
            obs.label("row-accepted");
            let got: Vec<Vec<u8>> = row.shares.iter().map(|s| s.to_vec()).collect();
            if got != want {
                obs.fail("C05:shrex-accepted-row-differs-from-committed-row", format!("{label}: row accepted for index {i} (EDS width {}) but its shares are not eds.row({i})", sq.eds.square_width()))?;
            }
            // parity flags as the EDS has them
            let flags_ok = row.shares.iter().zip(sq.eds.row(i).unwrap().iter()).all(|(a, b)| a.is_parity() == b.is_parity());
            if !flags_ok {
                obs.fail("C05:shrex-row-parity-flags", format!("{label}: accepted row {i} has parity flags different from eds.row({i})"))?;
            }
        }
        Err(e) => {
            obs.label("row-rejected");
            if must_accept {
                obs.fail("C05:shrex-honest-row-rejected", format!("{label}: honest row {i} (EDS width {}) rejected: {e}", sq.eds.square_width()))?;
            }
        }
    }
    Ok(())
}

fn run_row_case(case: &RowCase, obs: &mut Obs) -> Result<(), Failure> {
    let app = app_version_of(case.app);
    let sq = build_square(&case.square, app);
    let eds = &sq.eds;
    let w = eds.square_width();
    let half = w / 2;
    let seed = case.square.seed;
    let header = header_for(seed, 1 + seed % 100_000, case.app, sq.dah.clone());
    obs.label(&format!("row-eds-width-{w}"));
    for i in 0..w {
        let row = Row::new(i, eds).map_err(|e| Failure::new("gen", format!("Row::new: {e}")))?;
        // left half through the hooked encoder
        let left = hook::shrex_encode_row(&row);
        let want_left = raw_half(eds, i, false).encode_length_delimited_to_vec();
        obs.eval(None);
        obs.label("row-encode");
        obs.check(left == want_left, "C05:shrex-row-encode", || format!("encode(row {i}) is not the length-delimited left half"))?;
        judge_row(obs, &sq, &header, i, "row-left-honest", &left, true, false)?;
        // right half, hand-built
        let right = raw_half(eds, i, true).encode_length_delimited_to_vec();
        judge_row(obs, &sq, &header, i, "row-right-honest", &right, true, true)?;
        if i >= half {
            obs.label("row-parity-row");
        }
    }
    // a response for row j presented under id i: every (i, j) for small squares, sampled otherwise
    let pairs: Vec<(u16, u16)> = if w <= 8 {
        (0..w).flat_map(|i| (0..w).map(move |j| (i, j))).filter(|(i, j)| i != j).collect()
    } else {
        case.rows
            .iter()
            .flat_map(|s| {
                let i = pick(*s, w as usize) as u16;
                [(i, (i + 1) % w), (i, (i + half) % w), (i, pick(s.rotate_left(7), w as usize) as u16)]
            })
            .filter(|(i, j)| i != j)
            .collect()
    };
    for (i, j) in pairs {
        let differs = row_values(eds, i) != row_values(eds, j);
        for right in [false, true] {
            let b = raw_half(eds, j, right).encode_length_delimited_to_vec();
            judge_row(obs, &sq, &header, i, if right { "row-other-index-right" } else { "row-other-index-left" }, &b, false, differs)?;
        }
    }
    // generated mutants
    for (k, (right, m)) in case.muts.iter().enumerate() {
        let i = pick(case.rows[k % case.rows.len()], w as usize) as u16;
        let honest = raw_half(eds, i, *right);
        let honest_bytes = honest.encode_length_delimited_to_vec();
        let mut raw = honest.clone();
        let n = raw.shares_half.len();
        let mut bytes: Option<Vec<u8>> = None;
        let label = match m {
            RowMut::FlipByte { share, byte, bit } => {
                let s = pick(*share, n);
                raw.shares_half[s].data[pick(*byte, SHARE)] ^= 1 << (bit % 8);
                "row-mut-flip-byte"
            }
            RowMut::SwapShares { a, b } => {
                raw.shares_half.swap(pick(*a, n), pick(*b, n));
                "row-mut-swap-shares"
            }
            RowMut::OtherRow { j } => {
                raw = raw_half(eds, pick(*j, w as usize) as u16, *right);
                "row-mut-other-row"
            }
            RowMut::DropShare { i } => {
                raw.shares_half.remove(pick(*i, n));
                "row-mut-drop-share"
            }
            RowMut::AppendShare { i } => {
                let s = raw.shares_half[pick(*i, n)].clone();
                raw.shares_half.push(s);
                "row-mut-append-share"
            }
            RowMut::Reverse => {
                raw.shares_half.reverse();
                "row-mut-reverse"
            }
            RowMut::FlipSide => {
                raw.half_side = if *right { HalfSide::Left as i32 } else { HalfSide::Right as i32 };
                "row-mut-flip-side"
            }
            RowMut::OtherHalfSameFlag => {
                let o = raw_half(eds, i, !*right);
                raw.shares_half = o.shares_half;
                "row-mut-other-half-same-flag"
            }
            RowMut::SideValue { v } => {
                raw.half_side = *v;
                "row-mut-side-value"
            }
            RowMut::NoLengthPrefix => {
                bytes = Some(raw.encode_to_vec());
                "row-mut-no-length-prefix"
            }
            RowMut::Bytes(b) => {
                bytes = Some(b.apply(&honest_bytes));
                "row-mut-bytes"
            }
        };
        let bytes = bytes.unwrap_or_else(|| raw.encode_length_delimited_to_vec());
        if bytes == honest_bytes {
            obs.label("row-mutation-noop");
            continue;
        }
        judge_row(obs, &sq, &header, i, label, &bytes, false, true)?;
    }
    Ok(())
}

// ------------------------------------------------------------------------------------------ run

pub fn run(ctx: &mut Ctx) {
    ctx.enable_crash_sentinel();
    ctx.assume("ground truth: the ODS bytes produced by the harness' own square generator, its extension by ExtendedDataSquare::from_ods (C08 checks that encoder) and, for every accepted square, row/column roots recomputed with the harness' own sha2 NMT and compared with the header's DAH");
    ctx.assume("headers are built by lv_gen::chain::build_header around the (possibly modified) DAH; the decoder only reads header.dah, header.height() and header.app_version()");
    ctx.assume("a panic of the decoder is a violation (C09 says 'rejected without panicking'); the ROW sub-check (node half of C05) treats panics the same way because shrex responses are remote input");
    ctx.essential(&[
        "honest",
        "accepted",
        "rejected",
        "trunc-shares",
        "trunc-bytes",
        "append-share",
        "swap-shares",
        "flip-namespace",
        "flip-info-byte",
        "flip-payload",
        "wrong-app-version-honest-payload",
        "other-square",
        "empty",
        "count-non-square",
        "count-non-pow2-square",
        "mutated-right-length-class",
        "dah-replace-col-root",
        "dah-replace-row-root",
        "row-left-honest",
        "row-right-honest",
        "row-parity-row",
        "row-other-index-left",
        "row-other-index-right",
        "row-mut-flip-byte",
        "row-mut-swap-shares",
        "row-mut-flip-side",
        "row-accepted",
        "row-rejected",
    ]);
    let max_log2 = ctx.tier.pick(4, 5); // ODS width up to 16 quick, 32 thorough
    let cases = ctx.tier.pick(320, 1600);
    let nmuts = ctx.tier.pick(60, 100);
    ctx.proptest(
        "eds-codec",
        "per generated square (ODS width 1..16, thorough 32; structured or dummy) and header over its DAH: honest payload via the hooked encode must be accepted and returned as the committed EDS; empty, every truncation at share granularity, non-square and non-power-of-two-square share counts, generated mutations (byte truncation, appended/dropped/duplicated share, two shares/rows swapped, transposition, bit flips in namespace version/id, info byte, sequence length, payload, last byte; share of / whole ODS of another square; zeroed share; 2x/4x repetition; generic byte/protobuf mutators), wrong app version in the header, and headers whose DAH differs from the square's (row/col swapped, one root replaced, roots of another square, flipped hash bit, dropped/duplicated roots). Ok(e) => first quadrant of e == payload, reference NMT roots of e == header DAH, payload == ODS and e == committed EDS; byte-different payload or foreign DAH => Err; never a panic. Non-trivial = payload or DAH changed by value AND the payload passes the size checks (non-empty, multiple of 512, 4^k shares); distinct by payload+DAH digest",
        cases,
        move || case_strategy(max_log2, nmuts),
        run_eds_case,
    );
    let row_log2 = ctx.tier.pick(5, 7); // EDS width up to 64 quick, 256 thorough
    let row_cases = ctx.tier.pick(160, 800);
    ctx.proptest(
        "c05-shrex-row",
        "node half of C05: per generated square (EDS width 2..64, thorough 256) and every row index (data and parity rows): hooked encode(row) == length-delimited left half; decode_and_verify of the left half and of a hand-built right-half response must both be accepted and reproduce eds.row(i) by value (and parity flags); responses for row j under id i (all pairs for width<=8, sampled above), and mutants (byte flip, shares swapped/dropped/appended/reversed, other row, side flag flipped, other half under the same flag, unknown side value, missing length prefix, generic byte/protobuf mutators): Ok => shares == eds.row(i) by value; never a panic. Non-trivial = right-half reconstruction, a row j whose value differs from row i, or a mutant whose encoding differs from the honest one",
        row_cases,
        move || row_case_strategy(row_log2),
        run_row_case,
    );
}
