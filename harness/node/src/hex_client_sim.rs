//! Shared driver for the `ClientSim` checks (C31, C32): the real `HeaderExClientHandler` + a recording
//! `RequestSender` + the real `PeerTracker` (hook `lumina_node::verif::header_ex_client_sim`), driven on a
//! paused `current_thread` tokio runtime the way `P2p`'s worker drives it: `poll` the handler, and on
//! `Event::SchedulePendingRequests` call `schedule_pending_requests` with the current peer tracker.
//!
//! The harness plays the network: it observes every `send_request(peer, request)` and injects the
//! response / outbound failure for it whenever the script says so.
use std::collections::HashMap;
use std::future::poll_fn;
use std::sync::atomic::{AtomicBool, Ordering};
use std::time::Duration;

use celestia_proto::p2p::pb::header_request::Data;
use celestia_proto::p2p::pb::{HeaderRequest, HeaderResponse, StatusCode};
use celestia_types::ExtendedHeader;
use libp2p::PeerId;
use lumina_node::node::{HeaderExError, P2pError};
pub use lumina_node::verif::header_ex_client_sim::{
    ClientSimEvent, HeaderExClientSim, SentRequest, SimAnswerReceiver, SimOutboundFailure, SimPeerState,
};
use lv_common::prelude::*;
use lv_gen::chain::{Chain, TimeBase, build_chain, build_fork, key_for, resign, simple_chain_spec};
use tendermint_proto::Protobuf;

/// Set when a simulation exceeded one of the harness's own step budgets (reported as inconclusive).
pub static BUDGET_OVERRUN: AtomicBool = AtomicBool::new(false);

pub const TICK: Duration = Duration::from_millis(250);
pub const SETTLE: Duration = Duration::from_millis(1);

#[derive(Clone, Debug, Serialize, Deserialize)]
pub struct PeerSpec {
    pub trusted: bool,
    pub connected: bool,
    pub archival: bool,
}

/// Deterministic peer id of peer number `i` (a sha2-256 multihash of fixed bytes).
pub fn peer_id(i: usize) -> PeerId {
    let mut b = vec![0x12u8, 0x20];
    let mut body = [0u8; 32];
    body[0] = 0xA5;
    body[1] = i as u8;
    body[31] = (i as u8).wrapping_mul(31).wrapping_add(7);
    b.extend_from_slice(&body);
    PeerId::from_bytes(&b).expect("valid multihash")
}

pub fn runtime() -> tokio::runtime::Runtime {
    tokio::runtime::Builder::new_current_thread()
        .enable_time()
        .start_paused(true)
        .build()
        .expect("tokio runtime")
}

/// true when the process was started with `--replay` (schedule-dependent sims re-run a saved case
/// several times because the client shuffles peers with `thread_rng`).
pub fn replay_reps() -> usize {
    if std::env::args().any(|a| a == "--replay") { 5 } else { 1 }
}

pub struct Driver {
    pub sim: HeaderExClientSim,
    /// sends observed since the check last drained this vector
    pub new_sends: Vec<SentRequest>,
    pub schedule_events: u32,
    pub need_trusted: u32,
    pub need_archival: u32,
    pub peers: Vec<PeerId>,
}

impl Driver {
    pub fn new(peers: &[PeerSpec]) -> Driver {
        let mut sim = HeaderExClientSim::new();
        let mut ids = Vec::new();
        for (i, p) in peers.iter().enumerate() {
            let id = peer_id(i);
            sim.set_trusted(&id, p.trusted);
            if p.connected {
                sim.add_connection(&id, i);
            }
            if p.archival {
                sim.mark_as_archival(&id);
            }
            ids.push(id);
        }
        Driver {
            sim,
            new_sends: Vec::new(),
            schedule_events: 0,
            need_trusted: 0,
            need_archival: 0,
            peers: ids,
        }
    }

    pub fn peer_index(&self, id: &PeerId) -> Option<usize> {
        self.peers.iter().position(|p| p == id)
    }

    pub fn state(&self, i: usize) -> SimPeerState {
        self.sim.peer_state(&self.peers[i]).unwrap_or(SimPeerState {
            connected: false,
            trusted: false,
            archival: false,
        })
    }

    /// Let `d` of virtual time pass, servicing the handler's events exactly as `P2p`'s worker does. Returns
    /// when the handler is idle (`Poll::Pending`) and the time has elapsed, i.e. at a quiescent point.
    pub async fn run_for(&mut self, d: Duration) {
        let sleep = tokio::time::sleep(d);
        tokio::pin!(sleep);
        let mut budget = 20_000u32;
        loop {
            let ev = tokio::select! {
                biased;
                ev = poll_fn(|cx| self.sim.poll(cx)) => Some(ev),
                _ = &mut sleep => None,
            };
            match ev {
                Some(ClientSimEvent::SchedulePendingRequests) => {
                    self.schedule_events += 1;
                    self.sim.schedule_pending_requests();
                    self.new_sends.extend(self.sim.take_sent());
                }
                Some(ClientSimEvent::NeedTrustedPeers) => self.need_trusted += 1,
                Some(ClientSimEvent::NeedArchivalPeers) => self.need_archival += 1,
                // the handler was polled to `Pending` in this very iteration (biased select)
                None => return,
            }
            budget -= 1;
            if budget == 0 {
                BUDGET_OVERRUN.store(true, Ordering::SeqCst);
                return;
            }
        }
    }

    pub fn take_sends(&mut self) -> Vec<SentRequest> {
        // sends only ever happen inside `schedule_pending_requests`, but be defensive
        self.new_sends.extend(self.sim.take_sent());
        std::mem::take(&mut self.new_sends)
    }
}

// ------------------------------------------------------------------------------------------ headers

/// Valid headers at `len` consecutive heights, plus valid alternatives ("same height, different hash").
pub struct HeaderPool {
    pub chain: Chain,
    cache: HashMap<(usize, u8), ExtendedHeader>,
}

impl HeaderPool {
    pub fn new(seed: u64, start_height: u64, len: usize) -> Result<HeaderPool, Failure> {
        let spec = simple_chain_spec(seed, start_height, len, TimeBase::Fixed(1_700_000_000), 1000);
        let chain = build_chain(&spec);
        for h in &chain.headers {
            h.validate().map_err(|e| Failure::new("gen", format!("generated header does not validate: {e}")))?;
        }
        Ok(HeaderPool {
            chain,
            cache: HashMap::new(),
        })
    }

    /// variant 0: the chain's header at index `idx`; variant v>0: a valid fork header of the same height.
    pub fn get(&mut self, idx: usize, variant: u8) -> ExtendedHeader {
        if variant == 0 {
            return self.chain.headers[idx].clone();
        }
        if let Some(h) = self.cache.get(&(idx, variant)) {
            return h.clone();
        }
        let h = build_fork(&self.chain, idx, 1, variant as u64, false).remove(0);
        debug_assert!(h.validate().is_ok());
        debug_assert_ne!(h.hash(), self.chain.headers[idx].hash());
        self.cache.insert((idx, variant), h.clone());
        h
    }

    /// A header that decodes but fails `validate()`.
    pub fn invalid(&mut self, idx: usize, bad_sig: bool) -> ExtendedHeader {
        let mut h = self.chain.headers[idx].clone();
        if bad_sig {
            // signed by a key that is not the validator's
            resign(&mut h, &[key_for(self.chain.spec.seed ^ 0xbad, 77)]);
        } else {
            // commit for another height
            h.commit.height = h.commit.height.increment();
        }
        h
    }
}

pub fn resp_ok(h: &ExtendedHeader) -> HeaderResponse {
    HeaderResponse {
        body: h.clone().encode_vec(),
        status_code: StatusCode::Ok.into(),
    }
}

pub fn resp_status(code: StatusCode) -> HeaderResponse {
    HeaderResponse {
        body: Vec::new(),
        status_code: code.into(),
    }
}

pub fn head_request() -> HeaderRequest {
    HeaderRequest {
        data: Some(Data::Origin(0)),
        amount: 1,
    }
}

pub fn failure_kind(k: u8) -> SimOutboundFailure {
    match k % 5 {
        0 => SimOutboundFailure::Timeout,
        1 => SimOutboundFailure::ConnectionClosed,
        2 => SimOutboundFailure::DialFailure,
        3 => SimOutboundFailure::UnsupportedProtocols,
        _ => SimOutboundFailure::Io,
    }
}

/// Class of an error a caller can receive.
#[derive(Clone, Copy, Debug, PartialEq, Eq)]
pub enum ErrClass {
    NotFound,
    InvalidResponse,
    InvalidRequest,
    Outbound(SimOutboundFailure),
    Cancelled,
    Other,
}

pub fn err_class(e: &P2pError) -> ErrClass {
    match e {
        P2pError::HeaderEx(HeaderExError::HeaderNotFound) => ErrClass::NotFound,
        P2pError::HeaderEx(HeaderExError::InvalidResponse) => ErrClass::InvalidResponse,
        P2pError::HeaderEx(HeaderExError::InvalidRequest) => ErrClass::InvalidRequest,
        P2pError::HeaderEx(HeaderExError::RequestCancelled) => ErrClass::Cancelled,
        P2pError::HeaderEx(HeaderExError::OutboundFailure(f)) => {
            let s = format!("{f:?}");
            let k = if s.starts_with("Timeout") {
                SimOutboundFailure::Timeout
            } else if s.starts_with("ConnectionClosed") {
                SimOutboundFailure::ConnectionClosed
            } else if s.starts_with("DialFailure") {
                SimOutboundFailure::DialFailure
            } else if s.starts_with("UnsupportedProtocols") {
                SimOutboundFailure::UnsupportedProtocols
            } else if s.starts_with("Io") {
                SimOutboundFailure::Io
            } else {
                return ErrClass::Other;
            };
            ErrClass::Outbound(k)
        }
        _ => ErrClass::Other,
    }
}
