//! C17 — BlockRanges behaves as a set of heights.
//!
//! (a) exhaustive: every subset of {1..10} x every operation x every argument over 0..=11/12, judged
//!     against a u64 bitmask model;
//! (b) random: histories of operations over four registers of u64-wide sets, judged against the
//!     independent u128 interval-list model `lv_gen::ranges::ISet`.
//! After every operation the representation invariant is checked: sorted, disjoint, non-adjacent,
//! no height 0, no empty range.
use lumina_node::block_ranges::{BlockRange, BlockRanges, BlockRangesError};
use lumina_node::verif::block_ranges as hk;
use lv_common::prelude::*;
use lv_gen::ranges::{HMAX, ISet, RangesSpec, build_ranges, count_strategy, height_strategy, ranges_spec_strategy};

// ------------------------------------------------------------------------------------------------
// shared helpers (also used by c18 / c24)
// ------------------------------------------------------------------------------------------------

/// raw view of the representation (NOT normalised)
pub fn to_iset(r: &BlockRanges) -> ISet {
    ISet(r.as_ref().iter().map(|x| (*x.start() as u128, *x.end() as u128)).collect())
}

/// representation invariant: sorted, disjoint, non-adjacent, no 0, no empty range
pub fn invariant(r: &BlockRanges) -> Result<(), String> {
    let v = r.as_ref();
    for (i, x) in v.iter().enumerate() {
        if *x.start() == 0 {
            return Err(format!("range #{i} {x:?} contains height 0 in {v:?}"));
        }
        if x.start() > x.end() {
            return Err(format!("range #{i} {x:?} is empty in {v:?}"));
        }
        if i > 0 {
            let p = &v[i - 1];
            if (*p.end() as u128) + 1 >= *x.start() as u128 {
                return Err(format!("ranges #{} {p:?} and #{i} {x:?} are unsorted / overlapping / adjacent in {v:?}", i - 1));
            }
        }
    }
    Ok(())
}

/// Build a value through the type's own operations: `new()` + `insert_relaxed` of the maximal runs.
pub fn build_from_model(m: &ISet) -> BlockRanges {
    let mut r = BlockRanges::new();
    for &(a, b) in &m.0 {
        r.insert_relaxed(a as u64..=b as u64).expect("model runs are valid ranges");
    }
    r
}

fn check_value(obs: &mut Obs, op: &str, got: &BlockRanges, want: &ISet, ctx: impl Fn() -> String) -> Result<(), Failure> {
    if let Err(e) = invariant(got) {
        obs.fail(&format!("C17:{op}:invariant"), format!("after {op}: {e}; {}", ctx()))?;
    }
    let g = to_iset(got);
    if ISet::normalise(g.0.clone()) != *want {
        obs.fail(&format!("C17:{op}:result"), format!("{op}: got {:?}, the set operation gives {:?}; {}", got.as_ref(), want.0, ctx()))?;
    }
    Ok(())
}

fn check_eq<T: PartialEq + std::fmt::Debug>(obs: &mut Obs, op: &str, got: T, want: T, ctx: impl Fn() -> String) -> Result<(), Failure> {
    if got != want {
        obs.fail(&format!("C17:{op}:result"), format!("{op}: got {got:?}, the set operation gives {want:?}; {}", ctx()))?;
    }
    Ok(())
}

/// `partitions`: None iff empty; left < middle < right; disjoint union = S; balanced.
fn check_partitions(obs: &mut Obs, r: &BlockRanges, m: &ISet, ctx: impl Fn() -> String) -> Result<Option<(BlockRanges, u64, BlockRanges)>, Failure> {
    let p = hk::partitions(r);
    match &p {
        None => {
            if !m.is_empty() {
                obs.fail("C17:partitions:result", format!("partitions returned None for non-empty {:?}; {}", m.0, ctx()))?;
            }
        }
        Some((l, mid, rt)) => {
            if m.is_empty() {
                obs.fail("C17:partitions:result", format!("partitions returned Some for the empty set; {}", ctx()))?;
                return Ok(p);
            }
            for (n, x) in [("left", l), ("right", rt)] {
                if let Err(e) = invariant(x) {
                    obs.fail("C17:partitions:invariant", format!("partitions {n}: {e}; {}", ctx()))?;
                }
            }
            let (lm, rm) = (ISet::normalise(to_iset(l).0), ISet::normalise(to_iset(rt).0));
            let mid128 = *mid as u128;
            let ordered = lm.max().is_none_or(|x| x < mid128) && rm.min().is_none_or(|x| x > mid128);
            let want_l = m.inter(&ISet::normalise(vec![(0, mid128.saturating_sub(1))]));
            let want_l = if mid128 == 0 { ISet::new() } else { want_l };
            let want_r = m.inter(&ISet::single(mid128 + 1, HMAX + 1));
            let union_ok = m.contains(mid128) && lm == want_l && rm == want_r;
            let (ll, rl) = (lm.len(), rm.len());
            let balanced = ll.abs_diff(rl) <= 1;
            if !(ordered && union_ok && balanced) {
                obs.fail(
                    "C17:partitions:result",
                    format!(
                        "partitions of {:?} = ({:?}, {mid}, {:?}): ordered={ordered} disjoint-union-is-S={union_ok} balanced={balanced} (|left|={ll}, |right|={rl}); {}",
                        m.0,
                        l.as_ref(),
                        rt.as_ref(),
                        ctx()
                    ),
                )?;
            }
        }
    }
    Ok(p)
}

fn tailn_checked(obs: &mut Obs, r: &BlockRanges, n: u64, m: &ISet) -> Result<Option<BlockRanges>, Failure> {
    match lv_common::no_panic(|| hk::tailn(r, n)) {
        Ok(t) => {
            let want = m.tailn(n as u128);
            if invariant(&t).is_err() || ISet::normalise(to_iset(&t).0) != want {
                obs.fail("C17:tailn", format!("tailn({n}) of {:?} = {:?}, the {n} lowest elements are {:?}", r.as_ref(), t.as_ref(), want.0))?;
                return Ok(None);
            }
            Ok(Some(t))
        }
        Err(p) => {
            obs.fail("C17:tailn", format!("tailn({n}) of {:?} panicked: {p}; the {n} lowest elements are {:?}", r.as_ref(), m.tailn(n as u128).0))?;
            Ok(None)
        }
    }
}

fn headn_checked(obs: &mut Obs, r: &BlockRanges, n: u64, m: &ISet) -> Result<Option<BlockRanges>, Failure> {
    match lv_common::no_panic(|| hk::headn(r, n)) {
        Ok(t) => {
            let want = m.headn(n as u128);
            if invariant(&t).is_err() || ISet::normalise(to_iset(&t).0) != want {
                obs.fail("C17:headn", format!("headn({n}) of {:?} = {:?}, the {n} highest elements are {:?}", r.as_ref(), t.as_ref(), want.0))?;
                return Ok(None);
            }
            Ok(Some(t))
        }
        Err(p) => {
            obs.fail("C17:headn", format!("headn({n}) of {:?} panicked: {p}; the {n} highest elements are {:?}", r.as_ref(), m.headn(n as u128).0))?;
            Ok(None)
        }
    }
}

fn range_as_iset(r: &BlockRange) -> ISet {
    ISet::normalise(vec![(*r.start() as u128, *r.end() as u128)])
}

// ------------------------------------------------------------------------------------------------
// (a) exhaustive small universe, bitmask model
// ------------------------------------------------------------------------------------------------

const U: u32 = 10; // heights 1..=10

fn mask_of_index(i: u16) -> u64 {
    (i as u64) << 1
}

fn range_mask(a: u64, b: u64) -> u64 {
    if a > b {
        return 0;
    }
    let hi = if b >= 63 { u64::MAX } else { (1u64 << (b + 1)) - 1 };
    hi & !((1u64 << a) - 1)
}

fn build_small(m: u64) -> BlockRanges {
    build_from_model(&ISet::from_mask(m))
}

fn dg(m: u64, op: u64, a: u64, b: u64) -> u64 {
    (m << 40) | (op << 32) | (a << 16) | b
}

fn small_case(idx: &u16, obs: &mut Obs) -> Result<(), Failure> {
    let m = mask_of_index(*idx);
    let ms = ISet::from_mask(m);
    let r = build_small(m);
    let n_el = m.count_ones() as u64;
    let ctx = || format!("S={:?}", ISet::from_mask(m).0);

    // construction: maximal runs, ascending singles, descending singles, from_vec of the canonical list
    obs.eval(None);
    check_value(obs, "construct", &r, &ms, ctx)?;
    let mut asc = BlockRanges::new();
    let mut desc = BlockRanges::new();
    for h in 1..=U as u64 {
        if m >> h & 1 == 1 {
            asc.insert_relaxed(h..=h).unwrap();
        }
        let g = U as u64 + 1 - h;
        if m >> g & 1 == 1 {
            desc.insert_relaxed(g..=g).unwrap();
        }
    }
    check_eq(obs, "construct-singles-asc", &asc, &r, ctx)?;
    check_eq(obs, "construct-singles-desc", &desc, &r, ctx)?;
    let fv = BlockRanges::from_vec(r.clone().into_inner()).map_err(|e| Failure::new("C17:from_vec:result", format!("from_vec rejected its own canonical list: {e}; {}", ctx())))?;
    check_eq(obs, "from_vec", &fv, &r, ctx)?;

    // membership, length, emptiness, head, tail
    for h in 0..=12u64 {
        let near = (m >> h & 1 == 1) || (h > 0 && m >> (h - 1) & 1 == 1) || m >> (h + 1) & 1 == 1;
        obs.eval(near.then(|| dg(m, 1, h, 0)));
        check_eq(obs, "contains", r.contains(h), m >> h & 1 == 1, ctx)?;
    }
    obs.eval(None);
    check_eq(obs, "len", r.len(), n_el, ctx)?;
    check_eq(obs, "is_empty", r.is_empty(), m == 0, ctx)?;
    check_eq(obs, "head", r.head(), (m != 0).then(|| 63 - m.leading_zeros() as u64), ctx)?;
    check_eq(obs, "tail", r.tail(), (m != 0).then(|| m.trailing_zeros() as u64), ctx)?;

    // insert / remove of every range [a,b], a,b in 0..=11 (invalid ones included)
    for a in 0..=11u64 {
        for b in 0..=11u64 {
            let valid = a >= 1 && a <= b;
            let rm = range_mask(a, b);
            let touch = valid && ms.runs_touching(a as u128, b as u128) > 0;
            for (op, opn) in [(2u64, "insert_relaxed"), (3u64, "remove_relaxed")] {
                obs.eval(touch.then(|| dg(m, op, a, b)));
                let mut x = r.clone();
                let res = if op == 2 { x.insert_relaxed(a..=b) } else { x.remove_relaxed(a..=b) };
                let c2 = || format!("S={:?} arg={a}..={b}", ISet::from_mask(m).0);
                if valid {
                    if let Err(e) = &res {
                        obs.fail(&format!("C17:{opn}:result"), format!("{opn} of a valid range failed: {e}; {}", c2()))?;
                    }
                    let want = if op == 2 { m | rm } else { m & !rm };
                    check_value(obs, opn, &x, &ISet::from_mask(want), c2)?;
                    if op == 2 {
                        let k = ms.runs_touching(a as u128, b as u128);
                        if k >= 2 {
                            obs.label("merge-three");
                        }
                        if k >= 3 {
                            obs.label("merge-3-existing-runs");
                        }
                    } else if ms.strictly_inside_run(a as u128, b as u128) {
                        obs.label("split-middle");
                    }
                } else {
                    obs.label("invalid-range-arg");
                    match &res {
                        Err(BlockRangesError::InvalidBlockRange(g)) if *g == (a..=b) => {}
                        other => obs.fail(&format!("C17:{opn}:invalid-arg"), format!("{opn} of invalid {a}..={b} returned {other:?}; {}", c2()))?,
                    }
                    check_eq(obs, &format!("{opn}-invalid-unchanged"), &x, &r, c2)?;
                }
            }
        }
    }

    // union / difference / intersection with every other subset
    for ti in 0..(1u16 << U) {
        let t = mask_of_index(ti);
        let tr = build_small(t);
        let c2 = || format!("S={:?} T={:?}", ISet::from_mask(m).0, ISet::from_mask(t).0);
        let touch_u = m != 0 && t != 0 && ((m & t) != 0 || (m & (t << 1)) != 0 || (m & (t >> 1)) != 0);
        let overlap = (m & t) != 0;
        obs.eval(touch_u.then(|| dg(m, 4, t, 0)));
        let u = if ti & 1 == 0 { r.clone() + &tr } else { r.clone() | &tr };
        check_value(obs, "union", &u, &ISet::from_mask(m | t), c2)?;
        obs.eval(overlap.then(|| dg(m, 5, t, 0)));
        let d = r.clone() - &tr;
        check_value(obs, "difference", &d, &ISet::from_mask(m & !t), c2)?;
        obs.eval(overlap.then(|| dg(m, 6, t, 0)));
        let i = r.clone() & &tr;
        check_value(obs, "intersection", &i, &ISet::from_mask(m & t), c2)?;
        // the by-value / assign variants must agree (spot: one operand in 16)
        if ti % 16 == (*idx % 16) {
            let mut a1 = r.clone();
            a1 += tr.clone();
            let mut a2 = r.clone();
            a2 |= &tr;
            check_eq(obs, "union-variants", (&a1, &a2, &(r.clone() + tr.clone()), &(r.clone() | tr.clone())), (&u, &u, &u, &u), c2)?;
            let mut s1 = r.clone();
            s1 -= tr.clone();
            check_eq(obs, "difference-variants", (&s1, &(r.clone() - tr.clone())), (&d, &d), c2)?;
            let mut i1 = r.clone();
            i1 &= tr.clone();
            check_eq(obs, "intersection-variants", (&i1, &(r.clone() & tr.clone())), (&i, &i), c2)?;
        }
    }

    // complement within [1, u64::MAX]
    obs.eval((m != 0).then(|| dg(m, 7, 0, 0)));
    let not = !r.clone();
    check_value(obs, "complement", &not, &ms.complement(), ctx)?;
    check_value(obs, "complement-twice", &!not.clone(), &ms, ctx)?;

    // pop_head / pop_tail to empty, iterator in both directions, alternating
    {
        let mut x = r.clone();
        let mut mm = m;
        loop {
            obs.eval((mm != 0).then(|| dg(m, 8, mm, 0)));
            let want = (mm != 0).then(|| 63 - mm.leading_zeros() as u64);
            let got = x.pop_head();
            check_eq(obs, "pop_head", got, want, ctx)?;
            if let Some(h) = want {
                mm &= !(1 << h);
            }
            check_value(obs, "pop_head", &x, &ISet::from_mask(mm), ctx)?;
            if want.is_none() {
                break;
            }
        }
        let mut x = r.clone();
        let mut mm = m;
        loop {
            obs.eval((mm != 0).then(|| dg(m, 9, mm, 0)));
            let want = (mm != 0).then(|| mm.trailing_zeros() as u64);
            let got = x.pop_tail();
            check_eq(obs, "pop_tail", got, want, ctx)?;
            if let Some(h) = want {
                mm &= !(1 << h);
            }
            check_value(obs, "pop_tail", &x, &ISet::from_mask(mm), ctx)?;
            if want.is_none() {
                break;
            }
        }
        let elems: Vec<u64> = (0..64).filter(|h| m >> h & 1 == 1).collect();
        obs.eval(None);
        check_eq(obs, "iter-forward", r.clone().collect::<Vec<_>>(), elems.clone(), ctx)?;
        let mut rev = elems.clone();
        rev.reverse();
        check_eq(obs, "iter-backward", r.clone().rev().collect::<Vec<_>>(), rev, ctx)?;
        let mut x = r.clone();
        let (mut lo, mut hi) = (0usize, elems.len());
        let mut flip = false;
        while lo < hi {
            if flip {
                check_eq(obs, "iter-alternating", x.next_back(), Some(elems[hi - 1]), ctx)?;
                hi -= 1;
            } else {
                check_eq(obs, "iter-alternating", x.next(), Some(elems[lo]), ctx)?;
                lo += 1;
            }
            flip = !flip;
        }
        check_eq(obs, "iter-alternating-end", (x.next(), x.next_back()), (None, None), ctx)?;
    }

    // headn / tailn for n in 0..=12
    for n in 0..=12u64 {
        let cut = n > 0 && n < n_el;
        obs.eval(cut.then(|| dg(m, 10, n, 0)));
        headn_checked(obs, &r, n, &ms)?;
        obs.eval(cut.then(|| dg(m, 11, n, 0)));
        tailn_checked(obs, &r, n, &ms)?;
    }

    // edges
    obs.eval((m != 0).then(|| dg(m, 12, 0, 0)));
    let em = m & (!(m << 1) | !(m >> 1));
    check_value(obs, "edges", &hk::edges(&r), &ISet::from_mask(em), ctx)?;

    // left_of / right_of for h in 1..=11 (h = 0 is not a height: debug_assert precondition)
    for h in 1..=11u64 {
        obs.eval((m != 0).then(|| dg(m, 13, h, 0)));
        let below = m & ((1u64 << h) - 1);
        let above = m & !((1u64 << (h + 1)) - 1);
        let c2 = || format!("S={:?} h={h}", ISet::from_mask(m).0);
        check_eq(obs, "left_of", hk::left_of(&r, h), (below != 0).then(|| 63 - below.leading_zeros() as u64), c2)?;
        obs.eval((m != 0).then(|| dg(m, 14, h, 0)));
        check_eq(obs, "right_of", hk::right_of(&r, h), (above != 0).then(|| above.trailing_zeros() as u64), c2)?;
    }

    // partitions (also iterated the way the pruner's binary search does: keep descending into a side)
    obs.eval((n_el >= 2).then(|| dg(m, 15, 0, 0)));
    if let Some((l, _, rt)) = check_partitions(obs, &r, &ms, ctx)? {
        for (side, mut cur) in [(0u64, l), (1u64, rt)] {
            let mut depth = 0;
            loop {
                let cm = ISet::normalise(to_iset(&cur).0);
                obs.eval((cm.len() >= 2).then(|| dg(m, 16 + side, cm.to_mask().unwrap_or(0), depth)));
                match check_partitions(obs, &cur, &cm, ctx)? {
                    Some((l2, _, r2)) => cur = if (depth + side) % 2 == 0 { l2 } else { r2 },
                    None => break,
                }
                depth += 1;
                if depth > 20 {
                    obs.fail("C17:partitions:result", format!("repeated partitioning does not terminate; {}", ctx()))?;
                    break;
                }
            }
        }
    }

    // serde round trip, Display does not panic
    obs.eval(None);
    let js = serde_json::to_string(&r).map_err(|e| Failure::new("C17:serde:result", format!("serialize failed: {e}")))?;
    match serde_json::from_str::<BlockRanges>(&js) {
        Ok(back) => check_eq(obs, "serde-roundtrip", &back, &r, ctx)?,
        Err(e) => obs.fail("C17:serde:result", format!("own JSON {js} rejected: {e}; {}", ctx()))?,
    }
    let _ = format!("{r}");
    Ok(())
}

// ------------------------------------------------------------------------------------------------
// (a') exhaustive universe at the top of the u64 range: heights u64::MAX-7 ..= u64::MAX, interval model
// ------------------------------------------------------------------------------------------------

const TOPW: u32 = 8;
const TOP_BASE: u128 = HMAX - (TOPW as u128 - 1);

fn top_set(idx: u16) -> ISet {
    ISet::normalise((0..TOPW as u128).filter(|i| idx >> i & 1 == 1).map(|i| (TOP_BASE + i, TOP_BASE + i)).collect())
}

fn top_case(idx: &u16, obs: &mut Obs) -> Result<(), Failure> {
    let ms = top_set(*idx);
    let r = build_from_model(&ms);
    let m = *idx as u64;
    let ctx = || format!("S={:?}", top_set(*idx).0);
    let args: Vec<u64> = ((TOP_BASE - 2)..=HMAX).map(|x| x as u64).collect();
    let off = |x: u64| x - (TOP_BASE - 2) as u64;
    if ms.contains(HMAX) {
        obs.label("u64-max-edge");
    }
    obs.eval(None);
    check_value(obs, "construct", &r, &ms, ctx)?;
    check_eq(obs, "len", r.len() as u128, ms.len(), ctx)?;
    check_eq(obs, "is_empty", r.is_empty(), ms.is_empty(), ctx)?;
    check_eq(obs, "head", r.head().map(|x| x as u128), ms.max(), ctx)?;
    check_eq(obs, "tail", r.tail().map(|x| x as u128), ms.min(), ctx)?;
    for &h in &args {
        obs.eval((ms.runs_touching(h as u128, h as u128) > 0).then(|| dg(m, 33, off(h), 0)));
        check_eq(obs, "contains", r.contains(h), ms.contains(h as u128), ctx)?;
    }
    for &a in &args {
        for &b in &args {
            let valid = a <= b;
            let k = if valid { ms.runs_touching(a as u128, b as u128) } else { 0 };
            for (op, opn) in [(34u64, "insert_relaxed"), (35u64, "remove_relaxed")] {
                obs.eval((k > 0).then(|| dg(m, op, off(a), off(b))));
                let mut x = r.clone();
                let res = if op == 34 { x.insert_relaxed(a..=b) } else { x.remove_relaxed(a..=b) };
                let c2 = || format!("S={:?} arg={a}..={b}", top_set(*idx).0);
                if valid {
                    if let Err(e) = &res {
                        obs.fail(&format!("C17:{opn}:result"), format!("{opn} of a valid range failed: {e}; {}", c2()))?;
                    }
                    let want = if op == 34 { ms.insert(a as u128, b as u128) } else { ms.remove(a as u128, b as u128) };
                    check_value(obs, opn, &x, &want, c2)?;
                    if op == 34 && k >= 2 {
                        obs.label("merge-three");
                    }
                    if op == 35 && ms.strictly_inside_run(a as u128, b as u128) {
                        obs.label("split-middle");
                    }
                } else {
                    match &res {
                        Err(BlockRangesError::InvalidBlockRange(g)) if *g == (a..=b) => {}
                        other => obs.fail(&format!("C17:{opn}:invalid-arg"), format!("{opn} of invalid {a}..={b} returned {other:?}; {}", c2()))?,
                    }
                    check_eq(obs, &format!("{opn}-invalid-unchanged"), &x, &r, c2)?;
                }
            }
        }
    }
    for ti in 0..(1u16 << TOPW) {
        let mt = top_set(ti);
        let tr = build_from_model(&mt);
        let c2 = || format!("S={:?} T={:?}", top_set(*idx).0, top_set(ti).0);
        let uni = ms.union(&mt);
        let int = ms.inter(&mt);
        obs.eval((!ms.is_empty() && !mt.is_empty() && uni.0.len() < ms.0.len() + mt.0.len()).then(|| dg(m, 36, ti as u64, 0)));
        check_value(obs, "union", &(r.clone() | &tr), &uni, c2)?;
        obs.eval((!int.is_empty()).then(|| dg(m, 37, ti as u64, 0)));
        check_value(obs, "difference", &(r.clone() - &tr), &ms.diff(&mt), c2)?;
        obs.eval((!int.is_empty()).then(|| dg(m, 38, ti as u64, 0)));
        check_value(obs, "intersection", &(r.clone() & &tr), &int, c2)?;
    }
    obs.eval(Some(dg(m, 39, 0, 0)));
    let not = !r.clone();
    check_value(obs, "complement", &not, &ms.complement(), ctx)?;
    check_value(obs, "complement-twice", &!not, &ms, ctx)?;
    for head in [true, false] {
        let mut x = r.clone();
        let mut mm = ms.clone();
        loop {
            obs.eval((!mm.is_empty()).then(|| dg(m, 40 + head as u64, mm.len() as u64, 0)));
            let want = if head { mm.max() } else { mm.min() };
            let got = if head { x.pop_head() } else { x.pop_tail() };
            let opn = if head { "pop_head" } else { "pop_tail" };
            check_eq(obs, opn, got.map(|v| v as u128), want, ctx)?;
            if let Some(e) = want {
                mm = mm.remove(e, e);
            }
            check_value(obs, opn, &x, &mm, ctx)?;
            if want.is_none() {
                break;
            }
        }
    }
    let ns: Vec<u64> = (0..=9u64).chain([1 << 63, u64::MAX - 9, u64::MAX - 8, u64::MAX - 7, u64::MAX - 2, u64::MAX - 1, u64::MAX]).collect();
    for (i, &n) in ns.iter().enumerate() {
        obs.eval((!ms.is_empty() && n > 0).then(|| dg(m, 42, i as u64, 0)));
        headn_checked(obs, &r, n, &ms)?;
        obs.eval((!ms.is_empty() && n > 0).then(|| dg(m, 43, i as u64, 0)));
        tailn_checked(obs, &r, n, &ms)?;
    }
    obs.eval((!ms.is_empty()).then(|| dg(m, 44, 0, 0)));
    check_value(obs, "edges", &hk::edges(&r), &ms.edges(), ctx)?;
    for &h in &args {
        let c2 = || format!("S={:?} h={h}", top_set(*idx).0);
        obs.eval((!ms.is_empty()).then(|| dg(m, 45, off(h), 0)));
        check_eq(obs, "left_of", hk::left_of(&r, h).map(|v| v as u128), ms.left_of(h as u128), c2)?;
        obs.eval((!ms.is_empty()).then(|| dg(m, 46, off(h), 0)));
        check_eq(obs, "right_of", hk::right_of(&r, h).map(|v| v as u128), ms.right_of(h as u128), c2)?;
    }
    obs.eval((ms.len() >= 2).then(|| dg(m, 47, 0, 0)));
    check_partitions(obs, &r, &ms, ctx)?;
    // single-range headn / tailn (what calculate_range_to_fetch uses), once per universe (idx 0 only)
    if *idx == 0 {
        for &a in &args {
            for &b in &args {
                let rng = a..=b;
                let rm = range_as_iset(&rng);
                for (i, &n) in ns.iter().enumerate() {
                    for head in [true, false] {
                        obs.eval((a <= b && n > 0).then(|| dg(off(a), 48 + head as u64, off(b), i as u64)));
                        let got = lv_common::no_panic(|| if head { hk::range_headn(&rng, n) } else { hk::range_tailn(&rng, n) });
                        let want = if head { rm.headn(n as u128) } else { rm.tailn(n as u128) };
                        let sig = if head { "C17:headn" } else { "C17:tailn" };
                        match got {
                            Ok(g) if range_as_iset(&g) == want => {}
                            Ok(g) => obs.fail(sig, format!("range {}({n}) of {a}..={b} = {g:?}, expected the elements {:?}", if head { "headn" } else { "tailn" }, want.0))?,
                            Err(p) => obs.fail(sig, format!("range {}({n}) of {a}..={b} panicked: {p}", if head { "headn" } else { "tailn" }))?,
                        }
                    }
                }
            }
        }
    }
    Ok(())
}

// ------------------------------------------------------------------------------------------------
// (b) random histories over the full u64 range
// ------------------------------------------------------------------------------------------------

const REGS: usize = 4;

#[derive(Clone, Debug, Serialize, Deserialize)]
pub enum Val {
    Abs(u64),
    /// an edge (run start / end) of the register the operation works on, plus `d`
    Near { sel: u16, d: i8 },
}

#[derive(Clone, Debug, Serialize, Deserialize)]
pub enum Cnt {
    Abs(u64),
    /// len of the operand plus `d`
    LenRel { d: i8 },
}

#[derive(Clone, Debug, Serialize, Deserialize)]
pub enum Op {
    Insert { r: u8, a: Val, b: Val, order: bool },
    Remove { r: u8, a: Val, b: Val, order: bool },
    Union { dst: u8, x: u8, y: u8 },
    Diff { dst: u8, x: u8, y: u8 },
    Inter { dst: u8, x: u8, y: u8 },
    Not { dst: u8, x: u8 },
    PopHead { r: u8 },
    PopTail { r: u8 },
    Headn { dst: u8, x: u8, n: Cnt },
    Tailn { dst: u8, x: u8, n: Cnt },
    Edges { dst: u8, x: u8 },
    Partitions { x: u8, dl: u8, dr: u8 },
    LeftOf { x: u8, h: Val },
    RightOf { x: u8, h: Val },
    Contains { x: u8, h: Val },
    RangeHeadn { a: Val, b: Val, n: Cnt, x: u8 },
    RangeTailn { a: Val, b: Val, n: Cnt, x: u8 },
    Load { dst: u8, spec: RangesSpec },
}

#[derive(Clone, Debug, Serialize, Deserialize)]
pub struct History {
    pub init: Vec<RangesSpec>,
    pub ops: Vec<Op>,
}

pub fn val_strategy(allow_zero: bool) -> impl Strategy<Value = Val> {
    prop_oneof![
        3 => height_strategy(allow_zero).prop_map(Val::Abs),
        5 => (any::<u16>(), -3i8..=3).prop_map(|(sel, d)| Val::Near { sel, d }),
    ]
}

pub fn cnt_strategy() -> impl Strategy<Value = Cnt> {
    prop_oneof![
        3 => count_strategy().prop_map(Cnt::Abs),
        2 => (-2i8..=2).prop_map(|d| Cnt::LenRel { d }),
    ]
}

fn op_strategy() -> impl Strategy<Value = Op> {
    let reg = || 0u8..REGS as u8;
    prop_oneof![
        8 => (reg(), val_strategy(true), val_strategy(false), prop::bool::weighted(0.85)).prop_map(|(r, a, b, order)| Op::Insert { r, a, b, order }),
        8 => (reg(), val_strategy(true), val_strategy(false), prop::bool::weighted(0.85)).prop_map(|(r, a, b, order)| Op::Remove { r, a, b, order }),
        3 => (reg(), reg(), reg()).prop_map(|(dst, x, y)| Op::Union { dst, x, y }),
        3 => (reg(), reg(), reg()).prop_map(|(dst, x, y)| Op::Diff { dst, x, y }),
        3 => (reg(), reg(), reg()).prop_map(|(dst, x, y)| Op::Inter { dst, x, y }),
        2 => (reg(), reg()).prop_map(|(dst, x)| Op::Not { dst, x }),
        2 => reg().prop_map(|r| Op::PopHead { r }),
        2 => reg().prop_map(|r| Op::PopTail { r }),
        3 => (reg(), reg(), cnt_strategy()).prop_map(|(dst, x, n)| Op::Headn { dst, x, n }),
        3 => (reg(), reg(), cnt_strategy()).prop_map(|(dst, x, n)| Op::Tailn { dst, x, n }),
        1 => (reg(), reg()).prop_map(|(dst, x)| Op::Edges { dst, x }),
        2 => (reg(), reg(), reg()).prop_map(|(x, dl, dr)| Op::Partitions { x, dl, dr }),
        2 => (reg(), val_strategy(false)).prop_map(|(x, h)| Op::LeftOf { x, h }),
        2 => (reg(), val_strategy(false)).prop_map(|(x, h)| Op::RightOf { x, h }),
        2 => (reg(), val_strategy(true)).prop_map(|(x, h)| Op::Contains { x, h }),
        1 => (val_strategy(false), val_strategy(false), cnt_strategy(), reg()).prop_map(|(a, b, n, x)| Op::RangeHeadn { a, b, n, x }),
        1 => (val_strategy(false), val_strategy(false), cnt_strategy(), reg()).prop_map(|(a, b, n, x)| Op::RangeTailn { a, b, n, x }),
        1 => (reg(), ranges_spec_strategy(5)).prop_map(|(dst, spec)| Op::Load { dst, spec }),
    ]
}

fn history_strategy(min_ops: usize, max_ops: usize) -> impl Strategy<Value = History> {
    (prop::collection::vec(ranges_spec_strategy(5), 0..=REGS), prop::collection::vec(op_strategy(), min_ops..=max_ops)).prop_map(|(init, ops)| History { init, ops })
}

pub fn resolve(v: &Val, m: &ISet, min: u64) -> u64 {
    match v {
        Val::Abs(x) => (*x).max(min),
        Val::Near { sel, d } => {
            let e = m.edge_points();
            if e.is_empty() {
                return (1 + d.unsigned_abs() as u64).max(min);
            }
            let p = e[pick(*sel, e.len())] as i128 + *d as i128;
            (p.clamp(min as i128, HMAX as i128)) as u64
        }
    }
}

pub fn resolve_cnt(c: &Cnt, m: &ISet) -> u64 {
    match c {
        Cnt::Abs(x) => *x,
        Cnt::LenRel { d } => (m.len() as i128 + *d as i128).clamp(0, HMAX as i128) as u64,
    }
}

const HALF: u128 = 1u128 << 63;

struct Machine {
    regs: Vec<BlockRanges>,
    model: Vec<ISet>,
}

impl Machine {
    fn settle(&mut self, obs: &mut Obs, op: &str, dst: usize, got: BlockRanges, want: ISet, ctx: &dyn Fn() -> String) -> Result<(), Failure> {
        check_value(obs, op, &got, &want, ctx)?;
        // observers on the fresh value
        check_eq(obs, "len", got.len() as u128, want.len(), ctx)?;
        check_eq(obs, "is_empty", got.is_empty(), want.is_empty(), ctx)?;
        check_eq(obs, "head", got.head().map(|x| x as u128), want.max(), ctx)?;
        check_eq(obs, "tail", got.tail().map(|x| x as u128), want.min(), ctx)?;
        if want.contains(HMAX) {
            obs.label("u64-max-edge");
        }
        // keep the implementation's value only when it matched (after a KNOWN finding the model value is rebuilt)
        if ISet::normalise(to_iset(&got).0) == want && invariant(&got).is_ok() {
            self.regs[dst] = got;
        } else {
            self.regs[dst] = build_from_model(&want);
        }
        self.model[dst] = want;
        Ok(())
    }
}

fn history_case(h: &History, obs: &mut Obs) -> Result<(), Failure> {
    let mut mc = Machine { regs: Vec::new(), model: Vec::new() };
    for i in 0..REGS {
        let m = h.init.get(i).map(build_ranges).unwrap_or_default();
        mc.regs.push(build_from_model(&m));
        mc.model.push(m);
    }
    for (step, op) in h.ops.iter().enumerate() {
        let big = |m: &ISet| m.touches_high_half();
        let d0 = digest_of(op);
        let dig = |ms: &[&ISet]| {
            let mut d = d0;
            for m in ms {
                d = d.rotate_left(17) ^ digest_of(&m.0);
            }
            d
        };
        match op {
            Op::Insert { r, a, b, order } | Op::Remove { r, a, b, order } => {
                let is_ins = matches!(op, Op::Insert { .. });
                let opn = if is_ins { "insert_relaxed" } else { "remove_relaxed" };
                let r = *r as usize;
                let m = mc.model[r].clone();
                let (mut a, mut b) = (resolve(a, &m, 0), resolve(b, &m, 1));
                if *order && a > b {
                    std::mem::swap(&mut a, &mut b);
                }
                if *order && a == 0 {
                    a = 1;
                }
                let valid = a >= 1 && a <= b;
                let k = if valid { m.runs_touching(a as u128, b as u128) } else { 0 };
                let nt = valid && (k > 0 || b as u128 >= HALF || big(&m));
                obs.eval(nt.then(|| dig(&[&m]) ^ a.rotate_left(7) ^ b));
                let mut x = mc.regs[r].clone();
                let res = if is_ins { x.insert_relaxed(a..=b) } else { x.remove_relaxed(a..=b) };
                let ctx = || format!("step {step}: {opn}({a}..={b}) on {:?}", m.0);
                if valid {
                    if let Err(e) = &res {
                        obs.fail(&format!("C17:{opn}:result"), format!("valid range rejected: {e}; {}", ctx()))?;
                    }
                    if b == u64::MAX || a == u64::MAX {
                        obs.label("u64-max-edge");
                    }
                    if is_ins {
                        if k >= 2 {
                            obs.label("merge-three");
                        }
                        if k == 1 {
                            obs.label("insert-touches-one-run");
                        }
                    } else {
                        if m.strictly_inside_run(a as u128, b as u128) {
                            obs.label("split-middle");
                        }
                        if k >= 2 {
                            obs.label("remove-spans-runs");
                        }
                    }
                    let want = if is_ins { m.insert(a as u128, b as u128) } else { m.remove(a as u128, b as u128) };
                    mc.settle(obs, opn, r, x, want, &ctx)?;
                } else {
                    obs.label("invalid-range-arg");
                    match &res {
                        Err(BlockRangesError::InvalidBlockRange(g)) if *g == (a..=b) => {}
                        other => obs.fail(&format!("C17:{opn}:invalid-arg"), format!("invalid range returned {other:?}; {}", ctx()))?,
                    }
                    check_eq(obs, &format!("{opn}-invalid-unchanged"), &x, &mc.regs[r], ctx)?;
                }
            }
            Op::Union { dst, x, y } | Op::Diff { dst, x, y } | Op::Inter { dst, x, y } => {
                let (dst, x, y) = (*dst as usize, *x as usize, *y as usize);
                let (mx, my) = (mc.model[x].clone(), mc.model[y].clone());
                let (opn, want) = match op {
                    Op::Union { .. } => ("union", mx.union(&my)),
                    Op::Diff { .. } => ("difference", mx.diff(&my)),
                    _ => ("intersection", mx.inter(&my)),
                };
                let interacts = !mx.is_empty()
                    && !my.is_empty()
                    && if opn == "union" { want.0.len() < mx.0.len() + my.0.len() } else { !mx.inter(&my).is_empty() };
                let nt = interacts || ((big(&mx) || big(&my)) && !mx.is_empty() && !my.is_empty());
                obs.eval(nt.then(|| dig(&[&mx, &my])));
                obs.label(opn);
                let (rx, ry) = (mc.regs[x].clone(), &mc.regs[y]);
                let got = match op {
                    Op::Union { .. } => {
                        if step % 2 == 0 {
                            rx + ry
                        } else {
                            rx | ry
                        }
                    }
                    Op::Diff { .. } => rx - ry,
                    _ => rx & ry,
                };
                let ctx = || format!("step {step}: {opn} of {:?} and {:?}", mx.0, my.0);
                mc.settle(obs, opn, dst, got, want, &ctx)?;
            }
            Op::Not { dst, x } => {
                let (dst, x) = (*dst as usize, *x as usize);
                let mx = mc.model[x].clone();
                obs.eval(Some(dig(&[&mx])));
                obs.label("complement");
                let got = !mc.regs[x].clone();
                let ctx = || format!("step {step}: complement of {:?}", mx.0);
                mc.settle(obs, "complement", dst, got, mx.complement(), &ctx)?;
            }
            Op::PopHead { r } | Op::PopTail { r } => {
                let is_head = matches!(op, Op::PopHead { .. });
                let opn = if is_head { "pop_head" } else { "pop_tail" };
                let r = *r as usize;
                let m = mc.model[r].clone();
                obs.eval((!m.is_empty() && big(&m)).then(|| dig(&[&m])));
                let mut x = mc.regs[r].clone();
                let got = if is_head { x.pop_head() } else { x.pop_tail() };
                let want_el = if is_head { m.max() } else { m.min() };
                let ctx = || format!("step {step}: {opn} on {:?}", m.0);
                check_eq(obs, opn, got.map(|v| v as u128), want_el, ctx)?;
                let want = match want_el {
                    Some(e) => m.remove(e, e),
                    None => m.clone(),
                };
                mc.settle(obs, opn, r, x, want, &ctx)?;
            }
            Op::Headn { dst, x, n } | Op::Tailn { dst, x, n } => {
                let is_head = matches!(op, Op::Headn { .. });
                let (dst, x) = (*dst as usize, *x as usize);
                let m = mc.model[x].clone();
                let n = resolve_cnt(n, &m);
                let cut = n > 0 && (n as u128) < m.len();
                obs.eval((cut || (big(&m) && n > 0)).then(|| dig(&[&m]) ^ n));
                if cut {
                    obs.label(if is_head { "headn-cuts" } else { "tailn-cuts" });
                }
                if n as u128 >= HALF && !m.is_empty() {
                    obs.label("headn-tailn-huge-n");
                }
                let src = mc.regs[x].clone();
                let got = if is_head { headn_checked(obs, &src, n, &m)? } else { tailn_checked(obs, &src, n, &m)? };
                let want = if is_head { m.headn(n as u128) } else { m.tailn(n as u128) };
                let got = got.unwrap_or_else(|| build_from_model(&want));
                let ctx = || format!("step {step}: {}({n}) of {:?}", if is_head { "headn" } else { "tailn" }, m.0);
                mc.settle(obs, if is_head { "headn" } else { "tailn" }, dst, got, want, &ctx)?;
            }
            Op::Edges { dst, x } => {
                let (dst, x) = (*dst as usize, *x as usize);
                let m = mc.model[x].clone();
                obs.eval((!m.is_empty()).then(|| dig(&[&m])));
                let got = hk::edges(&mc.regs[x]);
                let ctx = || format!("step {step}: edges of {:?}", m.0);
                mc.settle(obs, "edges", dst, got, m.edges(), &ctx)?;
            }
            Op::Partitions { x, dl, dr } => {
                let (x, dl, dr) = (*x as usize, *dl as usize, *dr as usize);
                let m = mc.model[x].clone();
                obs.eval((m.len() >= 2).then(|| dig(&[&m])));
                obs.label("partitions");
                let src = mc.regs[x].clone();
                let ctx = || format!("step {step}: partitions of {:?}", m.0);
                if let Some((l, _, r)) = check_partitions(obs, &src, &m, ctx)? {
                    let (lm, rm) = (ISet::normalise(to_iset(&l).0), ISet::normalise(to_iset(&r).0));
                    mc.settle(obs, "partitions-left", dl, l, lm, &ctx)?;
                    if dr != dl {
                        mc.settle(obs, "partitions-right", dr, r, rm, &ctx)?;
                    }
                }
            }
            Op::LeftOf { x, h } | Op::RightOf { x, h } => {
                let is_left = matches!(op, Op::LeftOf { .. });
                let x = *x as usize;
                let m = &mc.model[x];
                let h = resolve(h, m, 1);
                obs.eval((!m.is_empty()).then(|| dig(&[m]) ^ h));
                let ctx = || format!("step {step}: {}({h}) on {:?}", if is_left { "left_of" } else { "right_of" }, m.0);
                if h == u64::MAX {
                    obs.label("u64-max-edge");
                }
                if is_left {
                    check_eq(obs, "left_of", hk::left_of(&mc.regs[x], h).map(|v| v as u128), m.left_of(h as u128), ctx)?;
                } else {
                    check_eq(obs, "right_of", hk::right_of(&mc.regs[x], h).map(|v| v as u128), m.right_of(h as u128), ctx)?;
                }
            }
            Op::Contains { x, h } => {
                let x = *x as usize;
                let m = &mc.model[x];
                let h = resolve(h, m, 0);
                obs.eval((m.runs_touching(h as u128, h as u128) > 0).then(|| dig(&[m]) ^ h));
                let ctx = || format!("step {step}: contains({h}) on {:?}", m.0);
                check_eq(obs, "contains", mc.regs[x].contains(h), m.contains(h as u128), ctx)?;
            }
            Op::RangeHeadn { a, b, n, x } | Op::RangeTailn { a, b, n, x } => {
                let is_head = matches!(op, Op::RangeHeadn { .. });
                let m = &mc.model[*x as usize];
                let (a, b) = (resolve(a, m, 1), resolve(b, m, 1));
                let rng = a..=b;
                let rm = range_as_iset(&rng);
                let n = resolve_cnt(n, &rm);
                obs.eval((a <= b && n > 0).then(|| d0 ^ a.rotate_left(9) ^ b.rotate_left(3) ^ n));
                let opn = if is_head { "range-headn" } else { "range-tailn" };
                obs.label(opn);
                if b == u64::MAX && a <= b {
                    obs.label("u64-max-edge");
                }
                let got = lv_common::no_panic(|| if is_head { hk::range_headn(&rng, n) } else { hk::range_tailn(&rng, n) });
                let want = if is_head { rm.headn(n as u128) } else { rm.tailn(n as u128) };
                let sig = if is_head { "C17:headn" } else { "C17:tailn" };
                match got {
                    Ok(g) => {
                        if range_as_iset(&g) != want {
                            obs.fail(sig, format!("step {step}: {opn}({n}) of {a}..={b} = {g:?}, expected the elements {:?}", want.0))?;
                        }
                    }
                    Err(p) => obs.fail(sig, format!("step {step}: {opn}({n}) of {a}..={b} panicked: {p}"))?,
                }
            }
            Op::Load { dst, spec } => {
                let m = build_ranges(spec);
                let dst = *dst as usize;
                obs.eval(None);
                // canonical list through from_vec (documented precondition: canonical input) must equal
                // the value built by insertions
                let built = build_from_model(&m);
                let fv = BlockRanges::from_vec(m.0.iter().map(|&(a, b)| a as u64..=b as u64).collect());
                let ctx = || format!("step {step}: load {:?}", m.0);
                match fv {
                    Ok(v) => check_eq(obs, "from_vec", &v, &built, ctx)?,
                    Err(e) => obs.fail("C17:from_vec:result", format!("from_vec rejected canonical list: {e}; {}", ctx()))?,
                }
                mc.settle(obs, "construct", dst, built, m.clone(), &ctx)?;
            }
        }
    }
    Ok(())
}

pub fn run(ctx: &mut Ctx) {
    ctx.assume("values reach BlockRanges only through its own operations or from_vec/Deserialize of canonical (sorted, non-adjacent) lists; left_of(0)/right_of(0) are not generated (debug_assert precondition: 0 is not a height)");
    ctx.assume("oracle: u64 bitmask (small universe) and an independent u128 interval-list model (lv_gen::ranges::ISet, self-tested against the bitmask)");
    ctx.essential(&["merge-three", "split-middle", "u64-max-edge"]);

    ctx.enumerate(
        "small-universe",
        "every subset S of {1..10} (1024 items) x {construction 4 ways, contains h in 0..=12, len, is_empty, head, tail, insert_relaxed/remove_relaxed of every [a,b] with a,b in 0..=11 incl. invalid, union/difference/intersection with every subset T (1024^2 pairs), complement, pop_head/pop_tail to empty, iterator forward/backward/alternating, headn/tailn n in 0..=12, edges, left_of/right_of h in 1..=11, partitions (iterated), serde round trip}. Non-trivial = the argument overlaps or touches an existing run of S (insert/remove/union), overlaps S (difference/intersection), cuts inside S (headn/tailn with 0<n<|S|), or S non-empty (pop, complement, edges, left_of/right_of, partitions with |S|>=2); distinct by (S, operation, argument)",
        true,
        (0u16..(1 << U)).collect::<Vec<_>>(),
        small_case,
    );

    ctx.enumerate(
        "top-universe",
        "every subset S of {u64::MAX-7..=u64::MAX} (256 items) x {construction, len/head/tail, contains, insert/remove of every [a,b] with a,b in u64::MAX-9..=u64::MAX incl. a>b, union/difference/intersection with every subset T (256^2), complement (twice), pops to empty, headn/tailn for n in 0..=9 and {2^63, u64::MAX-9..-7, u64::MAX-2..u64::MAX}, edges, left_of/right_of, partitions; single-range headn/tailn for every [a,b] x n}, judged by the u128 interval model. Non-trivial as in small-universe; distinct by (S, operation, argument)",
        true,
        (0u16..(1 << TOPW)).collect::<Vec<_>>(),
        top_case,
    );

    let cases = ctx.tier.pick(8000, 200_000);
    let (lo, hi) = (1usize, 400usize);
    ctx.proptest(
        "histories",
        "random histories of 1..400 operations (mean 200; minimum 1 so that failing histories shrink) over 4 registers of u64-wide sets (boundary-biased values 1, 2, 2^63(+-), u64::MAX(-k), edges of the current value +-3, random; operands are results of earlier operations); every result compared with the u128 interval model, representation invariant after every step. Non-trivial = argument touches/bridges/splits existing runs, operands interact, or a value >= 2^63 is involved; distinct by (operation, operand sets, resolved arguments)",
        cases,
        move || history_strategy(lo, hi),
        history_case,
    );
}
