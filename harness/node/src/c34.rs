//! C34 — Data sampling respects concurrency limits and recency order.
//!
//! Same simulation as C33 (`daser_sim.rs`), with generated concurrency limit 1..4, header-sub
//! allowance 0..5, pruner reports around the 512 threshold, chains partly older than the sampling
//! window and small squares (the subject is scheduling, not shares).
use lv_common::prelude::*;

use crate::daser_sim::{DaserRecipe, Mode, dstep_strategy, run_daser_scenario, width_strategy};
use crate::pruner_sim::{Inconclusives, SimErr};

fn schedule_strategy(max_blocks: usize, max_steps: usize) -> impl Strategy<Value = DaserRecipe> {
    (
        (any::<u64>(), 6u8..=48, 1u8..=4, 0u8..=5, 0u8..=10),
        prop::collection::vec(width_strategy(false), 10..=max_blocks),
        prop::collection::vec((0u8..4, 1u8..14), 1..=4),
        prop_oneof![2 => Just(0u8), 1 => 0u8..60],
        prop_oneof![5 => Just(true), 1 => Just(false)],
        prop::collection::vec(dstep_strategy(3, 1, 2, 2), 10..=max_steps),
    )
        .prop_map(|((seed, sw_h, limit, allowance, n_old), widths, layout, pre_sampled_pct, connect_first, steps)| DaserRecipe {
            seed,
            sw_h,
            limit,
            allowance,
            n_old,
            widths,
            layout,
            pre_sampled_pct,
            connect_first,
            steps,
        })
}

pub fn run(ctx: &mut Ctx) {
    ctx.assume("in-progress is counted from the daser's own SamplingStarted / SamplingResult events in the order they were published (a sampling is in progress from its SamplingStarted until its SamplingResult or until all peers disconnect)");
    ctx.assume("'highest known stored height' uses the daser's snapshot semantics: the start is accepted if it is the highest candidate under the store contents at the last (re)connect / head change, under the previous such snapshot during the step that changed the head, or under the current store (DESIGN.md section 7)");
    ctx.assume("the harness is the store's only writer besides the daser; pruner reports are accepted under the old or the new values during the step that delivers them; the harness removes a height only after want_to_prune granted it and never re-inserts a height");
    ctx.assume("header times are placed relative to the wall clock with margins of >= 1 hour around the sampling-window cutoff");
    ctx.essential(&[
        "start-judged",
        "start-filling-the-limit",
        "head-allowance-used",
        "stale-snapshot-start",
        "idle-blocked-by-backlog",
        "idle-top-candidate-older-than-window",
        "started-above-prunable-with-backlog",
        "prune-granted",
        "reconnect",
        "resampled-height",
        "sampling-result-timed-out",
        "insert-historical",
    ]);
    ctx.set_shrink_iters(400);
    let inc = Inconclusives::default();
    let (cases, max_blocks, max_steps) = match ctx.tier {
        Tier::Quick => (600u32, 40usize, 100usize),
        Tier::Thorough => (12000, 50, 160),
    };
    ctx.proptest(
        "daser-scheduling",
        "a schedule = chain with 0..10 headers older than the sampling window and 10..50 recent ones + concurrency limit 1..4 + header-sub allowance 0..5 + steps (insert head/historical, answer, fail, advance the virtual clock, prune, pruner reports with backlog 0/511/512/513/6000/any, disconnect/reconnect/flap); one evaluation per SamplingStarted; non-trivial iff at that start another block was in progress or at least two candidates existed; distinct by (schedule digest, start index)",
        cases,
        move || schedule_strategy(max_blocks, max_steps),
        |r, obs| match run_daser_scenario(r, Mode { c34: true, ..Mode::default() }, obs) {
            Ok(()) => Ok(()),
            Err(SimErr::Fail(f)) => Err(f),
            Err(SimErr::Inconclusive(why)) => {
                inc.record(why);
                obs.label("scenario-not-judged");
                Ok(())
            }
        },
    );
    inc.report(ctx, "daser-scheduling");
}
