//! C36 — not built yet.
use lv_common::Ctx;

pub fn run(_ctx: &mut Ctx) {
    eprintln!("C36: check not built yet");
    std::process::exit(2);
}
