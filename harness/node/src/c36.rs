//! C36 — Window-edge search finds the newest header outside the window.
//!
//! The pruner's `find_height_after_window` (fast path over a previous answer + binary search) is run
//! through the hook against a real `InMemoryStore` holding generated, validly signed headers whose
//! times strictly increase with height.
//!  (a) exhaustive: universe heights 1..10 (times T0+(h-1)*10 s) x every stored subset (1024) x every
//!      cutoff position (before all / equal to each time / between each pair / after all: 21) x
//!      every admissible previous answer ({None} ∪ {p in 1..10 : time(p) <= cutoff}, stored or since removed);
//!  (b) random: sparse heights up to 2^62, irregular time steps, histories of (remove / append /
//!      raise cutoff) steps where the previous answer and the block-info cache are carried along the
//!      way the pruner's worker does.
//! Oracle (from the statement; ties admit both answers):
//!   Some(r): r stored ∧ time(r) <= cutoff ∧ no stored h > r has time(h) < cutoff
//!   None   : no stored header has time < cutoff
use std::collections::BTreeMap;
use std::time::Duration;

use celestia_types::ExtendedHeader;
use lumina_node::block_ranges::BlockRanges;
use lumina_node::store::{InMemoryStore, Store, VerifiedExtendedHeaders};
use lumina_node::verif::pruner as hk;
use lv_common::prelude::*;
use lv_gen::chain::{TimeBase, build_chain, simple_chain_spec};
use lv_gen::ranges::ISet;
use tendermint::Time;

use crate::c17::to_iset;
use crate::c18::{CHAIN_DT_MS, CHAIN_T0, chain12, rt, store_with};

fn time_at_ms(t0_secs: u64, off_ms: i64) -> Time {
    let total_ms = t0_secs as i128 * 1000 + off_ms as i128;
    let secs = total_ms.div_euclid(1000) as i64;
    let nanos = (total_ms.rem_euclid(1000) as u32) * 1_000_000;
    Time::from_unix_timestamp(secs, nanos).expect("valid time")
}

/// The statement's oracle. `times`: height -> time offset (ms) of every currently STORED header.
fn judge(stored: &BTreeMap<u64, i64>, cutoff_ms: i64, got: &Result<Option<u64>, String>) -> Result<(), (String, String)> {
    match got {
        Err(e) => Err(("C36:search-error".into(), format!("the search failed on a consistent store: {e}"))),
        Ok(Some(r)) => {
            let Some(tr) = stored.get(r) else {
                return Err(("C36:result-not-stored".into(), format!("returned height {r} is not stored")));
            };
            if *tr > cutoff_ms {
                return Err(("C36:result-inside-window".into(), format!("returned height {r} has time {tr} ms, newer than the cutoff {cutoff_ms} ms")));
            }
            if let Some((h, th)) = stored.range(r + 1..).find(|(_, t)| **t < cutoff_ms) {
                return Err(("C36:newer-header-outside-window-missed".into(), format!("returned {r} but stored height {h} above it has time {th} ms, older than the cutoff {cutoff_ms} ms")));
            }
            Ok(())
        }
        Ok(None) => {
            if let Some((h, th)) = stored.iter().find(|(_, t)| **t < cutoff_ms) {
                return Err(("C36:none-although-older-header-stored".into(), format!("returned None but stored height {h} has time {th} ms, strictly older than the cutoff {cutoff_ms} ms")));
            }
            Ok(())
        }
    }
}

fn classify(obs: &mut Obs, stored: &BTreeMap<u64, i64>, cutoff_ms: i64, prev: Option<u64>, got: &Result<Option<u64>, String>) -> bool {
    let older = stored.values().filter(|t| **t < cutoff_ms).count();
    let tie = stored.values().any(|t| *t == cutoff_ms);
    let boundary_inside = older > 0 && older < stored.len();
    if tie {
        obs.label("tie");
        if let Ok(r) = got {
            // which of the two admitted answers was given
            let tie_h = stored.iter().find(|(_, t)| **t == cutoff_ms).map(|(h, _)| *h);
            obs.label(if *r == tie_h { "tie-answer-is-tied-header" } else { "tie-answer-is-strictly-older" });
        }
    }
    if boundary_inside {
        obs.label("boundary-inside");
    }
    match got {
        Ok(None) => obs.label("result-none"),
        Ok(Some(_)) => obs.label("result-some"),
        Err(_) => {}
    }
    match prev {
        None => obs.label("prev-none"),
        Some(p) if stored.contains_key(&p) => {
            obs.label("prev-stored");
            if let Ok(Some(r)) = got {
                if *r > p {
                    obs.label("answer-advanced-past-prev");
                } else if *r == p {
                    obs.label("answer-is-prev");
                }
            }
        }
        Some(p) => {
            obs.label("prev-removed");
            if let Ok(Some(r)) = got {
                if *r < p {
                    obs.label("prev-removed-answer-below");
                }
            }
            if matches!(got, Ok(None)) {
                obs.label("prev-removed-answer-none");
            }
        }
    }
    // non-trivial: something is stored and the answer is not forced by an empty / all-in-window store alone
    !stored.is_empty() && (older > 0 || tie || prev.is_some())
}

// ------------------------------------------------------------------------------------------------
// (a) exhaustive
// ------------------------------------------------------------------------------------------------

fn small_case(idx: &u16, obs: &mut Obs) -> Result<(), Failure> {
    let m = (*idx as u64) << 1;
    let rt = rt();
    rt.block_on(async {
        let store = store_with(m).await?;
        let ranges = store.get_stored_header_ranges().await.map_err(|e| Failure::new("gen", e.to_string()))?;
        if ISet::normalise(to_iset(&ranges).0) != ISet::from_mask(m) {
            return Err(Failure::new("gen", format!("store setup mismatch: {ranges}")));
        }
        let dt = CHAIN_DT_MS as i64;
        let stored: BTreeMap<u64, i64> = (1..=10u64).filter(|h| m >> h & 1 == 1).map(|h| (h, (h as i64 - 1) * dt)).collect();
        // self-check: the store serves the times the oracle assumes
        for (h, t) in &stored {
            let hdr = store.get_by_height(*h).await.map_err(|e| Failure::new("gen", e.to_string()))?;
            if hdr.time() != time_at_ms(CHAIN_T0, *t) {
                return Err(Failure::new("gen", format!("header {h} has time {:?}, expected offset {t} ms", hdr.time())));
            }
        }
        for q in 0..=20i64 {
            let cutoff_ms = -dt / 2 + q * (dt / 2);
            let cutoff = time_at_ms(CHAIN_T0, cutoff_ms);
            let mut prevs: Vec<Option<u64>> = vec![None];
            prevs.extend((1..=10u64).filter(|p| (*p as i64 - 1) * dt <= cutoff_ms).map(Some));
            for prev in prevs {
                let mut cache = hk::WindowSearchCache::new();
                let got = hk::find_height_after_window(&store, &ranges, &cutoff, prev, &mut cache).await;
                let nt = classify(obs, &stored, cutoff_ms, prev, &got);
                obs.eval(nt.then(|| (m << 24) | ((q as u64) << 8) | prev.unwrap_or(0)));
                if let Err((sig, msg)) = judge(&stored, cutoff_ms, &got) {
                    obs.fail(&sig, format!("{msg}; stored={:?} cutoff position {q} ({cutoff_ms} ms; header h has time (h-1)*{dt} ms) prev={prev:?} result={got:?}", stored.keys().collect::<Vec<_>>()))?;
                }
            }
            // the binary search alone must satisfy the same statement
            let mut cache = hk::WindowSearchCache::new();
            let got = hk::find_height_after_window_slow(&store, &ranges, &cutoff, &mut cache).await;
            obs.eval((!stored.is_empty()).then(|| (m << 24) | ((q as u64) << 8) | 0xff));
            obs.label("slow-path-alone");
            if let Err((sig, msg)) = judge(&stored, cutoff_ms, &got) {
                obs.fail(&sig, format!("[binary search alone] {msg}; stored={:?} cutoff position {q} ({cutoff_ms} ms) result={got:?}", stored.keys().collect::<Vec<_>>()))?;
            }
        }
        Ok(())
    })
}

// ------------------------------------------------------------------------------------------------
// (b) random sparse universes with histories
// ------------------------------------------------------------------------------------------------

#[derive(Clone, Debug, Serialize, Deserialize)]
pub struct RunSpec {
    /// gap to the previous run minus 2 (so runs never touch)
    pub gap: u64,
    /// time steps (ms, >= 1) of the run's headers; the run has `dts.len()` headers (1..=5)
    pub dts: Vec<u32>,
}

#[derive(Clone, Debug, Serialize, Deserialize)]
pub struct Step {
    /// selectors of stored heights removed before the search
    pub remove: Vec<u16>,
    /// how many of the not-yet-inserted top headers are appended before the search
    pub append: u8,
    /// cutoff = time of universe header `at` + `delta_ms` (then made non-decreasing along the history)
    pub at: u16,
    pub delta_ms: i8,
    /// false: forget the previous answer (search from scratch, fresh cache)
    pub carry_prev: bool,
}

#[derive(Clone, Debug, Serialize, Deserialize)]
pub struct Sparse {
    pub seed: u64,
    pub base: u64,
    pub runs: Vec<RunSpec>,
    /// number of top universe headers withheld initially (appended by steps)
    pub withheld: u8,
    pub steps: Vec<Step>,
}

fn sparse_strategy() -> impl Strategy<Value = Sparse> {
    let gap = prop_oneof![4 => Just(0u64), 3 => 0u64..6, 1 => 0u64..100_000, 1 => any::<u64>().prop_map(|r| r >> 8), 1 => any::<u64>().prop_map(|r| r >> 4)];
    let dt = prop_oneof![3 => Just(1u32), 2 => 1u32..5, 3 => 1u32..20_000, 1 => 1u32..4_000_000];
    let run = (gap, prop::collection::vec(dt, 1..=5)).prop_map(|(gap, dts)| RunSpec { gap, dts });
    let step = (prop::collection::vec(any::<u16>(), 0..=3), prop_oneof![3 => Just(0u8), 1 => 1u8..3], any::<u16>(), prop_oneof![3 => Just(0i8), 2 => -2i8..=2, 1 => any::<i8>()], prop::bool::weighted(0.85))
        .prop_map(|(remove, append, at, delta_ms, carry_prev)| Step { remove, append, at, delta_ms, carry_prev });
    (
        any::<u64>(),
        prop_oneof![3 => Just(1u64), 2 => 1u64..50, 1 => any::<u64>().prop_map(|r| (r >> 3).max(1))],
        prop::collection::vec(run, 1..=6),
        0u8..4,
        prop::collection::vec(step, 1..=10),
    )
        .prop_map(|(seed, base, runs, withheld, steps)| Sparse { seed, base, runs, withheld, steps })
}

const MAX_HEIGHT: u64 = 1 << 62; // tendermint heights are i64

fn sparse_case(c: &Sparse, obs: &mut Obs) -> Result<(), Failure> {
    // universe: runs of consecutive heights, each run its own valid chain segment
    let t0 = CHAIN_T0;
    let mut universe: Vec<(u64, i64, ExtendedHeader)> = Vec::new(); // (height, time offset ms, header)

    let mut next_h = c.base;
    let mut t_ms: i64 = -1;
    for (k, r) in c.runs.iter().enumerate() {
        if k > 0 {
            next_h = next_h.saturating_add(r.gap).saturating_add(1); // next_h is one past the previous run already
        }
        if next_h.saturating_add(r.dts.len() as u64) >= MAX_HEIGHT {
            break;
        }
        // the run's first header comes at the first whole second that is >= dts[0] ms after the previous
        // run's last header (chain segments start on whole seconds); later headers follow their dts
        let start_ms = (t_ms + r.dts[0].max(1) as i64 + 999).div_euclid(1000) * 1000;
        let mut spec = simple_chain_spec(c.seed ^ k as u64, next_h, r.dts.len(), TimeBase::Fixed(t0 + (start_ms / 1000) as u64), 1);
        for (i, b) in spec.blocks.iter_mut().enumerate() {
            b.dt_ms = r.dts[i].max(1);
        }
        let chain = build_chain(&spec);
        let mut idxs = Vec::new();
        let mut cur = start_ms;
        for (i, h) in chain.headers.into_iter().enumerate() {
            if i > 0 {
                cur += r.dts[i].max(1) as i64;
            }
            idxs.push(universe.len());
            universe.push((next_h + i as u64, cur, h));
        }
        t_ms = cur;
        let _ = idxs;
        next_h += r.dts.len() as u64;
    }
    if universe.is_empty() {
        obs.eval(None);
        return Ok(());
    }
    for w in universe.windows(2) {
        if !(w[0].0 < w[1].0 && w[0].1 < w[1].1) {
            return Err(Failure::new("gen", format!("universe not strictly increasing: {:?} then {:?}", (w[0].0, w[0].1), (w[1].0, w[1].1))));
        }
    }
    for (h, t, hdr) in &universe {
        if hdr.height() != *h || hdr.time() != time_at_ms(t0, *t) {
            return Err(Failure::new("gen", format!("universe header mismatch at {h}: header says height {} time {:?}, expected offset {t} ms", hdr.height(), hdr.time())));
        }
    }
    let n = universe.len();
    let withheld = (c.withheld as usize).min(n - 1);
    let rt = rt();
    rt.block_on(async {
        let store = InMemoryStore::new();
        let mut inserted = n - withheld; // universe[..inserted] have been inserted (some removed again)
        let mut stored: BTreeMap<u64, i64> = BTreeMap::new();
        for i in 0..n - withheld {
            let (h, t, hdr) = &universe[i];
            // SAFETY: single headers of valid chain segments; adjacency is verified by the store itself
            let v = unsafe { VerifiedExtendedHeaders::new_unchecked(vec![hdr.clone()]) };
            store.insert(v).await.map_err(|e| Failure::new("gen", format!("setup insert of {h} failed: {e}")))?;
            stored.insert(*h, *t);
        }
        let mut prev: Option<u64> = None;
        let mut cache = hk::WindowSearchCache::new();
        let mut cutoff_ms = i64::MIN;
        for (si, st) in c.steps.iter().enumerate() {
            for sel in &st.remove {
                if stored.is_empty() {
                    break;
                }
                let keys: Vec<u64> = stored.keys().copied().collect();
                let h = keys[pick(*sel, keys.len())];
                store.remove_height(h).await.map_err(|e| Failure::new("gen", format!("remove_height({h}): {e}")))?;
                stored.remove(&h);
            }
            let upto = (inserted + st.append as usize).min(n);
            let from = inserted;
            inserted = upto;
            for i in from..upto {
                let (h, t, hdr) = &universe[i];
                let v = unsafe { VerifiedExtendedHeaders::new_unchecked(vec![hdr.clone()]) };
                store.insert(v).await.map_err(|e| Failure::new("gen", format!("append of {h} failed: {e}")))?;
                stored.insert(*h, *t);
                obs.label("appended-new-head");
            }
            let chosen = universe[pick(st.at, n)].1 + st.delta_ms as i64;
            if !st.carry_prev {
                prev = None;
                cache = hk::WindowSearchCache::new();
                cutoff_ms = chosen;
            } else {
                cutoff_ms = cutoff_ms.max(chosen);
            }
            let cutoff = time_at_ms(t0, cutoff_ms);
            let ranges: BlockRanges = store.get_stored_header_ranges().await.map_err(|e| Failure::new("gen", e.to_string()))?;
            let got = hk::find_height_after_window(&store, &ranges, &cutoff, prev, &mut cache).await;
            let nt = classify(obs, &stored, cutoff_ms, prev, &got);
            obs.eval(nt.then(|| digest_of(&(stored.keys().collect::<Vec<_>>(), cutoff_ms, prev))));
            if stored.keys().next_back().is_some_and(|h| *h >= 1 << 40) {
                obs.label("sparse-huge-heights");
            }
            if let Err((sig, msg)) = judge(&stored, cutoff_ms, &got) {
                obs.fail(
                    &sig,
                    format!("step {si}: {msg}; stored (height,time ms)={:?} cutoff={cutoff_ms} ms prev={prev:?} result={got:?}", stored.iter().collect::<Vec<_>>()),
                )?;
            }
            // carry the answer the way the worker does (keeps the maximum)
            if let Ok(r) = got {
                if prev < r {
                    prev = r;
                }
            }
        }
        Ok(())
    })
}

pub fn run(ctx: &mut Ctx) {
    let _ = (chain12(), Duration::ZERO);
    ctx.assume("stored headers are generated valid headers whose times strictly increase with height, served by the real InMemoryStore; the oracle uses the generator's own (height,time) table, self-checked against the store");
    ctx.assume("admissible previous answers: None, or any universe height p with time(p) <= cutoff (stored or since removed) — each was a correct (possibly tie) answer for the earlier cutoff time(p); ties (time == cutoff) admit both answers");
    ctx.assume("the block-info cache is fresh in the exhaustive part and carried across steps (as the pruner's worker does) in the random part");
    ctx.essential(&["tie", "boundary-inside", "result-none", "result-some", "prev-removed", "prev-stored", "prev-none", "answer-advanced-past-prev", "prev-removed-answer-below"]);

    ctx.enumerate(
        "small-universe",
        "universe heights 1..10 with times T0+(h-1)*10s; every stored subset (1024 items) x 21 cutoff positions (before all, equal to each time, between each pair, after all) x previous answer in {None} ∪ {p in 1..10: time(p) <= cutoff} (stored or since removed), plus the binary search alone per (subset, cutoff). Non-trivial = store non-empty and (some header strictly older than the cutoff, or a tie, or a previous answer given); distinct by (subset, cutoff position, prev)",
        true,
        (0u16..1024).collect::<Vec<_>>(),
        small_case,
    );

    let cases = ctx.tier.pick(30_000, 300_000);
    ctx.proptest(
        "sparse-histories",
        "random universes of 1..6 runs (1..5 consecutive heights each, gaps up to 2^60, heights < 2^62, irregular time steps 1 ms..4000 s), some top headers withheld; histories of 1..10 steps (remove up to 3 stored heights, append withheld heads, cutoff = a header's time +- few ms, non-decreasing while the previous answer and the cache are carried). Non-trivial as in the exhaustive part; distinct by (stored set, cutoff, prev)",
        cases,
        sparse_strategy,
        sparse_case,
    );
}
