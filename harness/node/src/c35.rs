//! C35 — The pruner only removes blocks that are safe to remove.
//!
//! `pruner-scenarios`: the real `Pruner` over a mocked `Daser` (`PrunerSim`), a recording `Store`
//! wrapper and a recording `Blockstore` wrapper sharing one ordered call log (`pruner_sim.rs`).
//! `daser-permission`: the real `Daser` (`DaserSim`) must never grant `want_to_prune(h)` while the
//! sampling of `h` is in progress (the other half of the pruner/daser handshake the property anchors).
use lv_common::prelude::*;

use crate::daser_sim::{DaserRecipe, Mode, dstep_strategy, run_daser_scenario, width_strategy};
use crate::pruner_sim::{Inconclusives, SimErr, pruner_recipe_strategy, run_pruner_scenario};

fn permission_strategy(max_steps: usize) -> impl Strategy<Value = DaserRecipe> {
    (
        (any::<u64>(), 6u8..=48, 1u8..=4, 0u8..=3, 0u8..=6),
        prop::collection::vec(width_strategy(false), 8..=30),
        prop::collection::vec((0u8..3, 1u8..14), 1..=3),
        prop::collection::vec(dstep_strategy(2, 1, 6, 1), 10..=max_steps),
    )
        .prop_map(|((seed, sw_h, limit, allowance, n_old), widths, layout, steps)| DaserRecipe {
            seed,
            sw_h,
            limit,
            allowance,
            n_old,
            widths,
            layout,
            pre_sampled_pct: 0,
            connect_first: true,
            steps,
        })
}

pub fn run(ctx: &mut Ctx) {
    ctx.assume("header times are placed relative to the wall clock in three age classes (older than both cutoffs, between them, newer than both) with margins of >= 1 hour around each cutoff, so the classification of a header against both windows is stable for the whole run");
    ctx.assume("'borders an unsynced gap' = a neighbouring height (h-1 if h>1, or h+1) is neither stored nor pruned at the moment of the removal; stored/pruned/sampled/in-progress sets are the harness' model, changed only between settled points, and compared with the real store at the end of each scenario");
    ctx.assume("the mocked daser answers WantToPrune(h) with false exactly while h is in its generated in-progress set (disjoint from sampled) and never starts a height it has granted; the CIDs demanded for a removal are the ones the real store held for the height immediately before remove_height");
    ctx.assume("the pruner's cache refresh is keyed on the std Instant (not the paused tokio clock); scenarios include real pauses of 1..3 ms with 1 ms block time so that refreshes happen, the oracle must hold either way");
    ctx.essential(&[
        "removal-evaluated",
        "pruning-window-smaller",
        "pruning-window-larger",
        "removed-older-than-both-windows",
        "removed-sampled-inside-sampling-window",
        "protected-edge-in-sampling-window",
        "protected-unsampled-in-sampling-window",
        "protected-in-progress",
        "daser-refused",
        "removed-unsampled-with-permission",
        "removal-with-cids",
        "held-answer-released",
        "prune-granted",
        "prune-refused",
    ]);
    ctx.set_shrink_iters(600);
    let inc = Inconclusives::default();
    let (cases, max_zone, max_steps) = match ctx.tier {
        Tier::Quick => (1000u32, 30u8, 24usize),
        Tier::Thorough => (20000, 60, 40),
    };
    ctx.proptest(
        "pruner-scenarios",
        "a scenario = chain whose header ages straddle both window cutoffs (0..N headers per age class) + 1..5 stored ranges with unsynced gaps + pre-pruned heights + sampled set + sampling metadata with CIDs present in the blockstore + in-progress set + pruning window smaller/larger than the sampling window + block time 1 ms..1 s + steps (advance, real pause, insert head/historical, mark sampled, start/stop sampling, hold/release the daser's answers); one evaluation per recorded remove_height; non-trivial iff the initial store holds at least one height that must NOT be removed (inside the pruning window, unsampled or edge inside the sampling window, or in progress); distinct by (scenario digest, height)",
        cases,
        move || pruner_recipe_strategy(max_zone, max_steps),
        |r, obs| match run_pruner_scenario(r, obs) {
            Ok(()) => Ok(()),
            Err(SimErr::Fail(f)) => Err(f),
            Err(SimErr::Inconclusive(why)) => {
                inc.record(why);
                obs.label("scenario-not-judged");
                Ok(())
            }
        },
    );
    inc.report(ctx, "pruner-scenarios");
    let inc2 = Inconclusives::default();
    let (cases2, steps2) = match ctx.tier {
        Tier::Quick => (300u32, 60usize),
        Tier::Thorough => (5000, 100),
    };
    ctx.proptest(
        "daser-permission",
        "DaserSim schedules with frequent want_to_prune calls on stored heights; one evaluation per answered want_to_prune; all non-trivial; the real daser must not answer true while the sampling of the height is in progress",
        cases2,
        move || permission_strategy(steps2),
        |r, obs| match run_daser_scenario(r, Mode { c35: true, ..Mode::default() }, obs) {
            Ok(()) => Ok(()),
            Err(SimErr::Fail(f)) => Err(f),
            Err(SimErr::Inconclusive(why)) => {
                inc2.record(why);
                obs.label("scenario-not-judged");
                Ok(())
            }
        },
    );
    inc2.report(ctx, "daser-permission");
}
